//! Native replay helper: runs the real lexpr API on concrete inputs and prints a canonical JSON line.
//! usage:
//!   replay parse <opts> <src:str|slice|reader> <api:value|datum|single|iter> <hex input>
//!   replay print <opts> <value-spec>     (value-spec: see parse_spec)
//! <opts> for parse:  k=<0..7>,nil=<0..2>,t=<0..1>,br=<0..1>,ss=<0..1>,cs=<0..1>,rk=<0..1>,dg=<0..1>  or "default" / "elisp"
use lexpr::parse::{Brackets, KeywordSyntax, NilSymbol, Options, TSymbol};
use lexpr::parse::{CharSyntax, StringSyntax};
use lexpr::{Number, Parser, Value};
use std::fmt::Write as _;

fn parse_opts(s: &str) -> Options {
    if s == "default" {
        return Options::default();
    }
    if s == "elisp" {
        return Options::elisp();
    }
    let mut o = Options::new();
    for kv in s.split(',') {
        let mut it = kv.split('=');
        let k = it.next().unwrap();
        let v: u32 = it.next().unwrap().parse().unwrap();
        match k {
            "k" => {
                let mut ks = Vec::new();
                if v & 1 != 0 { ks.push(KeywordSyntax::ColonPrefix); }
                if v & 2 != 0 { ks.push(KeywordSyntax::ColonPostfix); }
                if v & 4 != 0 { ks.push(KeywordSyntax::Octothorpe); }
                o = o.with_keyword_syntaxes(ks);
            }
            "nil" => o = o.with_nil_symbol(match v { 0 => NilSymbol::EmptyList, 1 => NilSymbol::Default, _ => NilSymbol::Special }),
            "t" => o = o.with_t_symbol(if v == 0 { TSymbol::True } else { TSymbol::Default }),
            "br" => o = o.with_brackets(if v == 0 { Brackets::List } else { Brackets::Vector }),
            "ss" => o = o.with_string_syntax(if v == 0 { StringSyntax::R6RS } else { StringSyntax::Elisp }),
            "cs" => o = o.with_char_syntax(if v == 0 { CharSyntax::R6RS } else { CharSyntax::Elisp }),
            "rk" => o = o.with_racket_hash_percent_symbols(v != 0),
            "dg" => o = o.with_leading_digit_symbols(v != 0),
            _ => panic!("bad option {}", k),
        }
    }
    o
}

fn hex(s: &str) -> Vec<u8> {
    (0..s.len() / 2).map(|i| u8::from_str_radix(&s[2 * i..2 * i + 2], 16).unwrap()).collect()
}

fn jstr(out: &mut String, s: &[u8]) {
    out.push('"');
    for b in s {
        write!(out, "{:02x}", b).unwrap();
    }
    out.push('"');
}

pub fn jvalue(out: &mut String, v: &Value) {
    match v {
        Value::Nil => out.push_str("{\"t\":\"nil\"}"),
        Value::Null => out.push_str("{\"t\":\"null\"}"),
        Value::Bool(b) => write!(out, "{{\"t\":\"bool\",\"v\":{}}}", b).unwrap(),
        Value::Number(n) => jnumber(out, n),
        Value::Char(c) => write!(out, "{{\"t\":\"char\",\"v\":{}}}", *c as u32).unwrap(),
        Value::String(s) => { out.push_str("{\"t\":\"string\",\"v\":"); jstr(out, s.as_bytes()); out.push('}'); }
        Value::Symbol(s) => { out.push_str("{\"t\":\"symbol\",\"v\":"); jstr(out, s.as_bytes()); out.push('}'); }
        Value::Keyword(s) => { out.push_str("{\"t\":\"keyword\",\"v\":"); jstr(out, s.as_bytes()); out.push('}'); }
        Value::Bytes(b) => { out.push_str("{\"t\":\"bytes\",\"v\":"); jstr(out, b); out.push('}'); }
        Value::Cons(_) => {
            out.push_str("{\"t\":\"list\",\"v\":[");
            let mut cur = v;
            let mut first = true;
            while let Value::Cons(c) = cur {
                if !first { out.push(','); }
                first = false;
                jvalue(out, c.car());
                cur = c.cdr();
            }
            out.push_str("],\"tail\":");
            jvalue(out, cur);
            out.push('}');
        }
        Value::Vector(es) => {
            out.push_str("{\"t\":\"vector\",\"v\":[");
            for (i, e) in es.iter().enumerate() {
                if i > 0 { out.push(','); }
                jvalue(out, e);
            }
            out.push_str("]}");
        }
    }
}

fn jnumber(out: &mut String, n: &Number) {
    if let Some(u) = n.as_u64() {
        write!(out, "{{\"t\":\"int\",\"v\":\"{}\"}}", u).unwrap();
    } else if let Some(i) = n.as_i64() {
        write!(out, "{{\"t\":\"int\",\"v\":\"{}\"}}", i).unwrap();
    } else {
        let f = n.as_f64().unwrap();
        write!(out, "{{\"t\":\"float\",\"bits\":\"{:016x}\",\"repr\":\"{:e}\"}}", f.to_bits(), f).unwrap();
    }
}

fn jspans(out: &mut String, r: lexpr::datum::Ref<'_>) {
    let sp = r.span();
    write!(out, "{{\"s\":[{},{}],\"e\":[{},{}]", sp.start().line(), sp.start().column(), sp.end().line(), sp.end().column()).unwrap();
    if let Some(it) = r.list_iter() {
        out.push_str(",\"list\":[");
        let mut first = true;
        let mut it = it;
        loop {
            match it.next() {
                Some(e) => { if !first { out.push(','); } first = false; jspans(out, e); }
                None => {
                    // either exhausted or the dot marker before a tail
                    if it.is_empty() { break; }
                    if let Some(e) = it.next() { if !first { out.push(','); } first = false; out.push_str("{\"dot\":"); jspans(out, e); out.push('}'); }
                    break;
                }
            }
        }
        out.push(']');
    } else if let Some(it) = r.vector_iter() {
        out.push_str(",\"vec\":[");
        let mut first = true;
        for e in it { if !first { out.push(','); } first = false; jspans(out, e); }
        out.push(']');
    }
    out.push('}');
}

fn jerr(out: &mut String, e: &lexpr::parse::Error) {
    let cat = match e.classify() {
        lexpr::parse::error::Category::Io => "io",
        lexpr::parse::error::Category::Syntax => "syntax",
        lexpr::parse::error::Category::Eof => "eof",
    };
    let (l, c) = e.location().map(|l| (l.line() as i64, l.column() as i64)).unwrap_or((-1, -1));
    let msg = e.to_string();
    let code = msg.split(" at line ").next().unwrap_or("").to_string();
    write!(out, "{{\"err\":{{\"cat\":\"{}\",\"code\":\"{}\",\"line\":{},\"col\":{}}}}}", cat, code, l, c).unwrap();
}

struct FaultReader { data: Vec<u8>, pos: usize, fail_at: Option<usize> }
impl std::io::Read for FaultReader {
    fn read(&mut self, buf: &mut [u8]) -> std::io::Result<usize> {
        if Some(self.pos) == self.fail_at {
            return Err(std::io::Error::new(std::io::ErrorKind::Other, "injected"));
        }
        if self.pos >= self.data.len() || buf.is_empty() { return Ok(0); }
        buf[0] = self.data[self.pos];
        self.pos += 1;
        Ok(1)
    }
}

fn run_parser<'a, R: lexpr::parse::Read<'a>>(mut p: Parser<R>, api: &str, out: &mut String) {
    if api == "spans" {
        out.push_str("{\"spans\":[");
        let mut n = 0;
        loop {
            match p.next_datum() {
                Ok(Some(d)) => {
                    if n > 0 { out.push(','); }
                    n += 1;
                    jspans(out, d.as_ref());
                }
                Ok(None) => break,
                Err(e) => { if n > 0 { out.push(','); } jerr(out, &e); break; }
            }
        }
        out.push_str("]}");
        return;
    }
    if api == "valuec" || api == "datumc" {
        // keep calling the same parser after errors (call histories); report counts only
        let (mut oks, mut errs, mut ended) = (0, 0, false);
        let mut last = String::new();
        let mut trace = String::new();
        for _ in 0..400 {
            let r = if api == "valuec" { p.next_value() } else { p.next_datum().map(|o| o.map(Value::from)) };
            match r {
                Ok(Some(_)) => { oks += 1; trace.push('o'); }
                Ok(None) => { ended = true; break; }
                Err(e) => { errs += 1; trace.push('e'); last = e.to_string(); }
            }
        }
        write!(out, "{{\"oks\":{},\"errs\":{},\"ended\":{},\"trace\":\"{}\",\"last_err\":\"{}\"}}", oks, errs, ended, trace, last).unwrap();
        return;
    }
    out.push_str("{\"items\":[");
    let mut n = 0;
    loop {
        if n >= 64 { out.push_str(",{\"truncated\":true}"); break; }
        let r: Result<Option<Value>, lexpr::parse::Error> = match api {
            "value" => p.next_value(),
            "datum" => p.next_datum().map(|o| o.map(Value::from)),
            "iter" => p.value_iter().next().transpose(),
            "diter" => p.datum_iter().next().transpose().map(|o| o.map(Value::from)),
            _ => panic!("api"),
        };
        if n > 0 { out.push(','); }
        n += 1;
        match r {
            Ok(Some(v)) => jvalue(out, &v),
            Ok(None) => { out.push_str("{\"end\":true}"); break; }
            Err(e) => { jerr(out, &e); break; }
        }
    }
    out.push_str("]}");
}

fn main() {
    let a: Vec<String> = std::env::args().collect();
    let mut out = String::new();
    match a[1].as_str() {
        "parse" => {
            let opts = parse_opts(&a[2]);
            let src = a[3].as_str();
            let api = a[4].as_str();
            let data = if a[5] == "-" {
                let mut s = String::new();
                std::io::Read::read_to_string(&mut std::io::stdin(), &mut s).unwrap();
                hex(s.trim())
            } else {
                hex(&a[5])
            };
            let fail_at: Option<usize> = a.get(6).and_then(|s| s.parse().ok());
            if api == "single" {
                let r = match src {
                    "str" => match std::str::from_utf8(&data) { Ok(s) => lexpr::from_str_custom(s, opts), Err(_) => { println!("{{\"skip\":\"not utf8\"}}"); return; } },
                    "slice" => lexpr::from_slice_custom(&data, opts),
                    _ => lexpr::from_reader_custom(FaultReader { data, pos: 0, fail_at }, opts),
                };
                match r { Ok(v) => jvalue(&mut out, &v), Err(e) => jerr(&mut out, &e) }
            } else {
                match src {
                    "str" => match std::str::from_utf8(&data) { Ok(s) => run_parser(Parser::from_str_custom(s, opts), api, &mut out), Err(_) => { println!("{{\"skip\":\"not utf8\"}}"); return; } },
                    "slice" => run_parser(Parser::from_slice_custom(&data, opts), api, &mut out),
                    _ => run_parser(Parser::from_reader_custom(FaultReader { data, pos: 0, fail_at }, opts), api, &mut out),
                }
            }
        }
        _ => panic!("unknown command"),
    }
    println!("{}", out);
}
