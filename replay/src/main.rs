//! Native replay helper: runs the real lexpr API on concrete inputs and prints a canonical JSON line.
//! usage:
//!   replay parse <opts> <src:str|slice|reader> <api:value|datum|single|iter> <hex input>
//!   replay print <opts> <value-spec>     (value-spec: see parse_spec)
//! <opts> for parse:  k=<0..7>,nil=<0..2>,t=<0..1>,br=<0..1>,ss=<0..1>,cs=<0..1>,rk=<0..1>,dg=<0..1>  or "default" / "elisp"
use lexpr::parse::{Brackets, KeywordSyntax, NilSymbol, Options, TSymbol};
use lexpr::parse::{CharSyntax, StringSyntax};
use lexpr::{Number, Parser, Value};
use std::fmt::Write as _;

#[cfg(feature = "fast-float")]
mod serdecheck;

fn parse_opts(s: &str) -> Options {
    if s == "default" {
        return Options::default();
    }
    if s == "elisp" {
        return Options::elisp();
    }
    let mut o = Options::new();
    for kv in s.split(',') {
        let mut it = kv.split('=');
        let k = it.next().unwrap();
        let v: u32 = it.next().unwrap().parse().unwrap();
        match k {
            "k" => {
                let mut ks = Vec::new();
                if v & 1 != 0 { ks.push(KeywordSyntax::ColonPrefix); }
                if v & 2 != 0 { ks.push(KeywordSyntax::ColonPostfix); }
                if v & 4 != 0 { ks.push(KeywordSyntax::Octothorpe); }
                o = o.with_keyword_syntaxes(ks);
            }
            "nil" => o = o.with_nil_symbol(match v { 0 => NilSymbol::EmptyList, 1 => NilSymbol::Default, _ => NilSymbol::Special }),
            "t" => o = o.with_t_symbol(if v == 0 { TSymbol::True } else { TSymbol::Default }),
            "br" => o = o.with_brackets(if v == 0 { Brackets::List } else { Brackets::Vector }),
            "ss" => o = o.with_string_syntax(if v == 0 { StringSyntax::R6RS } else { StringSyntax::Elisp }),
            "cs" => o = o.with_char_syntax(if v == 0 { CharSyntax::R6RS } else { CharSyntax::Elisp }),
            "rk" => o = o.with_racket_hash_percent_symbols(v != 0),
            "dg" => o = o.with_leading_digit_symbols(v != 0),
            _ => panic!("bad option {}", k),
        }
    }
    o
}

fn hex(s: &str) -> Vec<u8> {
    (0..s.len() / 2).map(|i| u8::from_str_radix(&s[2 * i..2 * i + 2], 16).unwrap()).collect()
}

fn jstr(out: &mut String, s: &[u8]) {
    out.push('"');
    for b in s {
        write!(out, "{:02x}", b).unwrap();
    }
    out.push('"');
}

pub fn jvalue(out: &mut String, v: &Value) {
    match v {
        Value::Nil => out.push_str("{\"t\":\"nil\"}"),
        Value::Null => out.push_str("{\"t\":\"null\"}"),
        Value::Bool(b) => write!(out, "{{\"t\":\"bool\",\"v\":{}}}", b).unwrap(),
        Value::Number(n) => jnumber(out, n),
        Value::Char(c) => write!(out, "{{\"t\":\"char\",\"v\":{}}}", *c as u32).unwrap(),
        Value::String(s) => { out.push_str("{\"t\":\"string\",\"v\":"); jstr(out, s.as_bytes()); out.push('}'); }
        Value::Symbol(s) => { out.push_str("{\"t\":\"symbol\",\"v\":"); jstr(out, s.as_bytes()); out.push('}'); }
        Value::Keyword(s) => { out.push_str("{\"t\":\"keyword\",\"v\":"); jstr(out, s.as_bytes()); out.push('}'); }
        Value::Bytes(b) => { out.push_str("{\"t\":\"bytes\",\"v\":"); jstr(out, b); out.push('}'); }
        Value::Cons(_) => {
            out.push_str("{\"t\":\"list\",\"v\":[");
            let mut cur = v;
            let mut first = true;
            while let Value::Cons(c) = cur {
                if !first { out.push(','); }
                first = false;
                jvalue(out, c.car());
                cur = c.cdr();
            }
            out.push_str("],\"tail\":");
            jvalue(out, cur);
            out.push('}');
        }
        Value::Vector(es) => {
            out.push_str("{\"t\":\"vector\",\"v\":[");
            for (i, e) in es.iter().enumerate() {
                if i > 0 { out.push(','); }
                jvalue(out, e);
            }
            out.push_str("]}");
        }
    }
}

fn jnumber(out: &mut String, n: &Number) {
    if let Some(u) = n.as_u64() {
        write!(out, "{{\"t\":\"int\",\"v\":\"{}\"}}", u).unwrap();
    } else if let Some(i) = n.as_i64() {
        write!(out, "{{\"t\":\"int\",\"v\":\"{}\"}}", i).unwrap();
    } else {
        let f = n.as_f64().unwrap();
        write!(out, "{{\"t\":\"float\",\"bits\":\"{:016x}\",\"repr\":\"{:e}\"}}", f.to_bits(), f).unwrap();
    }
}

fn jspans(out: &mut String, r: lexpr::datum::Ref<'_>) {
    let sp = r.span();
    write!(out, "{{\"s\":[{},{}],\"e\":[{},{}]", sp.start().line(), sp.start().column(), sp.end().line(), sp.end().column()).unwrap();
    if let Some(it) = r.list_iter() {
        out.push_str(",\"list\":[");
        let mut first = true;
        let mut it = it;
        loop {
            // peek() must announce exactly what next() then yields (C10: same structure as the value's own iterator)
            let pk = it.peek().map(|r| r.span());
            let nx = it.next();
            if pk != nx.as_ref().map(|r| r.span()) { if !first { out.push(','); } first = false; out.push_str("{\"peek_differs_from_next\":true}"); }
            match nx {
                Some(e) => { if !first { out.push(','); } first = false; jspans(out, e); }
                None => {
                    // either exhausted or the dot marker before a tail
                    if it.is_empty() { break; }
                    let pk = it.peek().map(|r| r.span());
                    if let Some(e) = it.next() {
                        if pk != Some(e.span()) { if !first { out.push(','); } first = false; out.push_str("{\"peek_differs_from_next\":true}"); }
                        if !first { out.push(','); } first = false; out.push_str("{\"dot\":"); jspans(out, e); out.push('}');
                    }
                    break;
                }
            }
        }
        out.push(']');
    } else if let Some(it) = r.vector_iter() {
        out.push_str(",\"vec\":[");
        let mut first = true;
        for e in it { if !first { out.push(','); } first = false; jspans(out, e); }
        out.push(']');
    }
    out.push('}');
}

/// the same tree as `jspans`, but lists are walked cell by cell through `Ref::as_pair`
fn jspans_pairs(out: &mut String, r: lexpr::datum::Ref<'_>) {
    let sp = r.span();
    write!(out, "{{\"s\":[{},{}],\"e\":[{},{}]", sp.start().line(), sp.start().column(), sp.end().line(), sp.end().column()).unwrap();
    if r.as_pair().is_some() {
        out.push_str(",\"list\":[");
        let mut first = true;
        let mut cur = r;
        loop {
            match cur.as_pair() {
                Some((a, d)) => { if !first { out.push(','); } first = false; jspans_pairs(out, a); cur = d; }
                None => {
                    if !cur.value().is_null() { if !first { out.push(','); } out.push_str("{\"dot\":"); jspans_pairs(out, cur); out.push('}'); }
                    break;
                }
            }
        }
        out.push(']');
    } else if let Some(it) = r.vector_iter() {
        out.push_str(",\"vec\":[");
        let mut first = true;
        for e in it { if !first { out.push(','); } first = false; jspans_pairs(out, e); }
        out.push(']');
    }
    out.push('}');
}

fn jerr(out: &mut String, e: &lexpr::parse::Error) {
    let cat = match e.classify() {
        lexpr::parse::error::Category::Io => "io",
        lexpr::parse::error::Category::Syntax => "syntax",
        lexpr::parse::error::Category::Eof => "eof",
    };
    let (l, c) = e.location().map(|l| (l.line() as i64, l.column() as i64)).unwrap_or((-1, -1));
    let msg = e.to_string();
    let code = msg.split(" at line ").next().unwrap_or("").to_string();
    write!(out, "{{\"err\":{{\"cat\":\"{}\",\"code\":\"{}\",\"line\":{},\"col\":{}}}}}", cat, code, l, c).unwrap();
}

struct FaultReader { data: Vec<u8>, pos: usize, fail_at: Option<usize> }
impl std::io::Read for FaultReader {
    fn read(&mut self, buf: &mut [u8]) -> std::io::Result<usize> {
        if Some(self.pos) == self.fail_at {
            return Err(std::io::Error::new(std::io::ErrorKind::Other, "injected"));
        }
        if self.pos >= self.data.len() || buf.is_empty() { return Ok(0); }
        buf[0] = self.data[self.pos];
        self.pos += 1;
        Ok(1)
    }
}

fn run_parser<'a, R: lexpr::parse::Read<'a>>(mut p: Parser<R>, api: &str, out: &mut String) {
    if api == "spans" || api == "spans_pairs" {
        out.push_str("{\"spans\":[");
        let mut n = 0;
        loop {
            match p.next_datum() {
                Ok(Some(d)) => {
                    if n > 0 { out.push(','); }
                    n += 1;
                    if api == "spans" { jspans(out, d.as_ref()); } else { jspans_pairs(out, d.as_ref()); }
                }
                Ok(None) => break,
                Err(e) => { if n > 0 { out.push(','); } jerr(out, &e); break; }
            }
        }
        out.push_str("]}");
        return;
    }
    if api == "valuec" || api == "datumc" {
        // keep calling the same parser after errors (call histories); report counts only
        let (mut oks, mut errs, mut ended) = (0, 0, false);
        let mut last = String::new();
        let mut trace = String::new();
        for _ in 0..400 {
            let r = if api == "valuec" { p.next_value() } else { p.next_datum().map(|o| o.map(Value::from)) };
            match r {
                Ok(Some(v)) => {
                    oks += 1; trace.push('o');
                    // C17: whatever a call returns holds well-formed text (re-validated from the bytes)
                    fn wf(v: &Value) -> bool {
                        match v {
                            Value::Symbol(s) | Value::Keyword(s) | Value::String(s) => std::str::from_utf8(s.as_bytes()).is_ok() && s.chars().all(|c| (c as u32) <= 0x10FFFF),
                            Value::Cons(c) => wf(c.car()) && wf(c.cdr()),
                            Value::Vector(es) => es.iter().all(wf),
                            _ => true,
                        }
                    }
                    if !wf(&v) { trace.push('!'); }
                }
                Ok(None) => { ended = true; break; }
                Err(e) => { errs += 1; trace.push('e'); last = e.to_string(); }
            }
        }
        write!(out, "{{\"oks\":{},\"errs\":{},\"ended\":{},\"trace\":\"{}\",\"last_err\":\"{}\"}}", oks, errs, ended, trace, last.replace('"', "'")).unwrap();
        return;
    }
    out.push_str("{\"items\":[");
    let mut n = 0;
    loop {
        if n >= 64 { out.push_str(",{\"truncated\":true}"); break; }
        let r: Result<Option<Value>, lexpr::parse::Error> = match api {
            "value" => p.next_value(),
            "datum" => p.next_datum().map(|o| o.map(Value::from)),
            "iter" => p.value_iter().next().transpose(),
            "diter" => p.datum_iter().next().transpose().map(|o| o.map(Value::from)),
            // the (deprecated) Iterator implementation of Parser itself
            "piter" => { #[allow(deprecated)] let r = Iterator::next(&mut p); r.transpose() }
            // call history: ask "is this the end?" before every item and keep going whatever the answer
            "value_ee" => { let _ = p.expect_end(); p.next_value() }
            "datum_ee" => { let _ = p.expect_end(); let _ = p.expect_end(); p.next_datum().map(|o| o.map(Value::from)) }
            _ => panic!("api"),
        };
        if n > 0 { out.push(','); }
        n += 1;
        match r {
            Ok(Some(v)) => jvalue(out, &v),
            Ok(None) => { out.push_str("{\"end\":true}"); break; }
            Err(e) => { jerr(out, &e); break; }
        }
    }
    out.push_str("]}");
}

struct ShortSink { buf: Vec<u8>, k: usize, fail_at: Option<usize>, cap: Option<usize> }
impl std::io::Write for ShortSink {
    fn write(&mut self, data: &[u8]) -> std::io::Result<usize> {
        if Some(self.buf.len()) == self.fail_at {
            return Err(std::io::Error::new(std::io::ErrorKind::BrokenPipe, "injected"));
        }
        let mut n = data.len().min(self.k);
        if let Some(c) = self.cap {
            // a sink that is full accepts nothing more (Ok(0)), like a fixed-size buffer
            n = n.min(c.saturating_sub(self.buf.len()));
        }
        if let Some(f) = self.fail_at {
            if self.buf.len() < f { n = n.min(f - self.buf.len()); }
        }
        self.buf.extend_from_slice(&data[..n]);
        Ok(n)
    }
    fn flush(&mut self) -> std::io::Result<()> { Ok(()) }
}

/// a sink with a transient fault: the write that would start at offset `fail_at` fails once, later writes succeed again
struct OnceSink { buf: Vec<u8>, fail_at: usize, fired: bool }
impl std::io::Write for OnceSink {
    fn write(&mut self, data: &[u8]) -> std::io::Result<usize> {
        if !self.fired && self.buf.len() == self.fail_at {
            self.fired = true;
            return Err(std::io::Error::new(std::io::ErrorKind::TimedOut, "injected once"));
        }
        let mut n = data.len();
        if !self.fired && self.buf.len() < self.fail_at { n = n.min(self.fail_at - self.buf.len()); }
        self.buf.extend_from_slice(&data[..n]);
        Ok(n)
    }
    fn flush(&mut self) -> std::io::Result<()> { Ok(()) }
}

fn print_corpus() -> Vec<Value> {
    use lexpr::Cons;
    let mut v = vec![
        Value::Nil, Value::Null, Value::Bool(true), Value::Bool(false),
        Value::from(0u64), Value::from(7u64), Value::from(-42i64), Value::from(12345678901u64), Value::from(i64::MIN),
        Value::from(u64::MAX), Value::from(1.5f64), Value::from(-0.0f64), Value::from(1e21f64), Value::from(5e-324f64),
        Value::from('a'), Value::from('('), Value::from(' '), Value::from('\n'), Value::from('\u{7f}'), Value::from('\u{3bb}'),
        Value::from('\u{1F600}'), Value::from('x'), Value::from(';'), Value::from('\\'),
        Value::string(""), Value::string("a\"b\\c"), Value::string("\u{0b}x"), Value::string("tab\there\r\n"),
        Value::string("\u{3bb}\u{7f}\u{0}"), Value::string("\u{7}\u{8}"),
        Value::symbol("foo"), Value::symbol("+"), Value::symbol("..."), Value::keyword("kw"), Value::keyword("a-b"),
        Value::bytes(Vec::<u8>::new()), Value::bytes(vec![0u8, 7, 255]),
        Value::cons(1, 2), Value::list(vec![Value::from(1), Value::string("a"), Value::from('b')]),
        Value::vector(Vec::<Value>::new()), Value::vector(vec![Value::from(1), Value::from(2)]),
        Value::append(vec![Value::from(1), Value::from(2)], Value::symbol("tail")),
        Value::cons(Value::Nil, Value::Nil), Value::cons(Value::from(1), Value::vector(vec![Value::from(2)])),
    ];
    let nested = Value::list(vec![Value::list(vec![Value::from(1)]),
        Value::vector(vec![Value::from(2), Value::Cons(Cons::new(Value::from(3), Value::from(4)))]), Value::bytes(vec![9u8])]);
    v.push(nested);
    v
}

fn print_option_sets() -> Vec<(String, lexpr::print::Options)> {
    use lexpr::print::*;
    let mut out = vec![("default".to_string(), Options::default()), ("elisp".to_string(), Options::elisp())];
    for (n, k) in [("kw-prefix", KeywordSyntax::ColonPrefix), ("kw-postfix", KeywordSyntax::ColonPostfix)] {
        out.push((n.to_string(), Options::default().with_keyword_syntax(k)));
    }
    for (n, k) in [("nil-symbol", NilSyntax::Symbol), ("nil-empty", NilSyntax::EmptyList), ("nil-false", NilSyntax::False)] {
        out.push((n.to_string(), Options::default().with_nil_syntax(k)));
        out.push((format!("{}-boolsym", n), Options::default().with_nil_syntax(k).with_bool_syntax(BoolSyntax::Symbol)));
    }
    out.push(("brackets-r6rs".to_string(), Options::default().with_vector_syntax(VectorSyntax::Brackets).with_bytes_syntax(BytesSyntax::R6RS)));
    out.push(("brackets-r7rs".to_string(), Options::default().with_vector_syntax(VectorSyntax::Brackets)));
    out.push(("brackets-elispbytes".to_string(), Options::default().with_vector_syntax(VectorSyntax::Brackets).with_bytes_syntax(BytesSyntax::Elisp)));
    out.push(("r6rs-bytes".to_string(), Options::default().with_bytes_syntax(BytesSyntax::R6RS)));
    out.push(("elisp-strings".to_string(), Options::default().with_string_syntax(StringSyntax::Elisp)));
    out.push(("elisp-chars".to_string(), Options::default().with_char_syntax(CharSyntax::Elisp)));
    out
}

/// C07 corpus: every value x option set into short-writing / failing sinks; reports discrepancies.
fn print_check(out: &mut String) {
    let mut cases = 0usize;
    let mut bad: Vec<String> = Vec::new();
    for v in print_corpus() {
        // entry points agree
        let full_default = lexpr::to_vec(&v).unwrap();
        if lexpr::to_string(&v).unwrap().as_bytes() != &full_default[..] { bad.push(format!("to_string != to_vec for {:?}", v)); }
        if format!("{}", v).as_bytes() != &full_default[..] { bad.push(format!("Display != to_vec for {:?}", v)); }
        if lexpr::to_vec_custom(&v, lexpr::print::Options::default()).unwrap() != full_default { bad.push(format!("customised(default) != default for {:?}", v)); }
        for (name, opts) in print_option_sets() {
            let full = lexpr::to_vec_custom(&v, opts).unwrap();
            if std::str::from_utf8(&full).is_err() { bad.push(format!("printed text is not UTF-8: {:?} under {}", v, name)); }
            for k in 0..=3usize {
                cases += 1;
                let mut sink = ShortSink { buf: Vec::new(), k, fail_at: None, cap: None };
                let r = if name == "default" { lexpr::to_writer(&mut sink, &v) } else { lexpr::to_writer_custom(&mut sink, &v, opts) };
                if k == 0 {
                    if r.is_ok() && !full.is_empty() { bad.push(format!("k=0 sink reported Ok for {:?} under {}", v, name)); }
                } else if r.is_err() || sink.buf != full {
                    bad.push(format!("k={} sink: ok={} delivered {:?} expected {:?} for {:?} under {}", k, r.is_ok(),
                        String::from_utf8_lossy(&sink.buf), String::from_utf8_lossy(&full), v, name));
                }
            }
            for p in 0..full.len() {
                cases += 1;
                let mut sink = ShortSink { buf: Vec::new(), k: 2, fail_at: Some(p), cap: None };
                let r = lexpr::to_writer_custom(&mut sink, &v, opts);
                if r.is_ok() || sink.buf != full[..p] {
                    bad.push(format!("failure at {}: ok={} delivered {:?} of {:?} for {:?} under {}", p, r.is_ok(),
                        String::from_utf8_lossy(&sink.buf), String::from_utf8_lossy(&full), v, name));
                }
            }
            for p in 0..full.len() {
                // transient fault: the call must fail and whatever reached the sink must be a prefix of the text
                cases += 1;
                let mut sink = OnceSink { buf: Vec::new(), fail_at: p, fired: false };
                let r = lexpr::to_writer_custom(&mut sink, &v, opts);
                if r.is_ok() || !full.starts_with(&sink.buf) {
                    bad.push(format!("one-shot failure at {}: ok={} sink holds {:?}, not a prefix of {:?} for {:?} under {}", p, r.is_ok(),
                        String::from_utf8_lossy(&sink.buf), String::from_utf8_lossy(&full), v, name));
                }
            }
            for cap in 0..full.len() {
                cases += 1;
                let mut sink = ShortSink { buf: Vec::new(), k: 3, fail_at: None, cap: Some(cap) };
                let r = lexpr::to_writer_custom(&mut sink, &v, opts);
                if r.is_ok() || sink.buf != full[..cap] {
                    bad.push(format!("sink full after {} bytes: ok={} delivered {:?} of {:?} for {:?} under {}", cap, r.is_ok(),
                        String::from_utf8_lossy(&sink.buf), String::from_utf8_lossy(&full), v, name));
                }
            }
            if bad.len() > 5 { break; }
        }
        if bad.len() > 5 { break; }
    }
    write!(out, "{{\"cases\":{},\"bad\":[", cases).unwrap();
    for (i, b) in bad.iter().take(5).enumerate() {
        if i > 0 { out.push(','); }
        jstr(out, b.as_bytes());
    }
    out.push_str("]}");
}

/// C15 corpus: association lists with keys of every name kind and the same text, duplicates, non-pair entries,
/// improper tails; lookups by name and by value against a straightforward reference walk.
fn alist_check(out: &mut String) {
    let keys: Vec<Value> = vec![Value::string("a"), Value::symbol("a"), Value::keyword("a"), Value::string("b"), Value::symbol("b"),
        Value::from(1u64), Value::from('a'), Value::Nil, Value::Null, Value::from(true)];
    let mut lists: Vec<Value> = Vec::new();
    // all ordered pairs / triples of distinct keys as entries, plus non-pair entries and improper tails
    for i in 0..keys.len() {
        for j in 0..keys.len() {
            let e1 = Value::cons(keys[i].clone(), Value::from(10 + i as u64));
            let e2 = Value::cons(keys[j].clone(), Value::from(20 + j as u64));
            lists.push(Value::list(vec![e1.clone(), e2.clone()]));
            lists.push(Value::list(vec![Value::from(5u64), e1.clone(), Value::symbol("x"), e2.clone()]));
            lists.push(Value::append(vec![e1, e2], Value::from(99u64)));
        }
    }
    lists.push(Value::Null);
    lists.push(Value::from(3u64));
    lists.push(Value::vector(vec![Value::cons(Value::symbol("a"), Value::from(1u64))]));
    let mut bad: Vec<String> = Vec::new();
    let mut cases = 0usize;
    fn walk<'a>(l: &'a Value, pred: &dyn Fn(&Value) -> bool) -> Option<&'a Value> {
        let mut cur = l;
        while let Value::Cons(c) = cur {
            if let Value::Cons(inner) = c.car() {
                if pred(inner.car()) { return Some(inner.cdr()); }
            }
            cur = c.cdr();
        }
        None
    }
    for l in &lists {
        for k in &keys {
            cases += 1;
            let want = walk(l, &|x| x == k);
            let got = l.get(k);
            if want != got || &l[k] != want.unwrap_or(&Value::Nil) {
                bad.push(format!("get({:?}) on {} -> {:?}, expected {:?}", k, l, got, want));
            }
        }
        for name in ["a", "b", "zz"] {
            cases += 1;
            let want = walk(l, &|x| x.as_name() == Some(name));
            let got = l.get(name);
            if want != got || &l[name] != want.unwrap_or(&Value::Nil) || l.get(name.to_string()) != want {
                bad.push(format!("get({:?}) on {} -> {:?}, expected {:?}", name, l, got, want));
            }
        }
        if bad.len() > 5 { break; }
    }
    write!(out, "{{\"cases\":{},\"bad\":[", cases).unwrap();
    for (i, b) in bad.iter().take(5).enumerate() {
        if i > 0 { out.push(','); }
        jstr(out, b.as_bytes());
    }
    out.push_str("]}");
}

/// C15 / C20: structural clone and comparison of lists (nested, dotted, sharing prefixes) against the printed text
fn cons_check(out: &mut String) {
    let texts = ["(a)", "(a b)", "(a b c)", "(a . b)", "(a b . c)", "(a b c . d)", "(1 2 . 3)", "(x (1 2 . 3) \"s\" . 7)", "((a . b) (c d . e) . f)",
        "(a (b (c (d . e))))", "(a b c d e f g h)", "(a b c d e f g . h)", "((1 . 2) . (3 . 4))", "(a . (b . (c . ())))", "(() () . ())",
        "(#(1 2) . #(3))", "(a b x)", "(a x c)", "(x b c)", "(a b)", "(a b c d)", "(a b . (c))", "(1 2 3)", "(1 2 . 4)", "(1 3 . 3)", "((1 2 . 3))", "((1 . 3))"];
    let vals: Vec<Value> = texts.iter().map(|t| lexpr::from_str(t).unwrap()).collect();
    let printed: Vec<String> = vals.iter().map(|v| lexpr::to_string(v).unwrap()).collect();
    let mut bad: Vec<String> = Vec::new();
    let mut cases = 0usize;
    for (i, v) in vals.iter().enumerate() {
        cases += 3;
        let c = v.clone();
        let pc = lexpr::to_string(&c).unwrap();
        if pc != printed[i] { bad.push(format!("clone of {} prints as {}", printed[i], pc)); }
        if lexpr::to_string(v).unwrap() != printed[i] { bad.push(format!("cloning modified {} into {}", printed[i], lexpr::to_string(v).unwrap())); }
        if let Value::Cons(cell) = v {
            let (owned, tail) = cell.to_vec();
            let (refs, rtail) = cell.to_ref_vec();
            let a: Vec<String> = owned.iter().map(|x| lexpr::to_string(x).unwrap()).collect();
            let b: Vec<String> = refs.iter().map(|x| lexpr::to_string(x).unwrap()).collect();
            if a != b || lexpr::to_string(&tail).unwrap() != lexpr::to_string(rtail).unwrap() {
                bad.push(format!("to_vec of {} gives {:?}, to_ref_vec gives {:?}", printed[i], a, b));
            }
        }
        if let Value::Cons(cell) = v {
            // consuming traversals of a copy: every element once, the tail attached to the last
            cases += 2;
            let (refs, rtail) = cell.to_ref_vec();
            let want_items: Vec<String> = refs.iter().map(|x| lexpr::to_string(x).unwrap()).collect();
            let want_tail = lexpr::to_string(rtail).unwrap();
            let (owned, tail) = cell.clone().into_vec();
            let got_items: Vec<String> = owned.iter().map(|x| lexpr::to_string(x).unwrap()).collect();
            if got_items != want_items || lexpr::to_string(&tail).unwrap() != want_tail {
                bad.push(format!("into_vec of {} gives {:?} . {}, expected {:?} . {}", printed[i], got_items, tail, want_items, want_tail));
            }
            let mut it_items: Vec<String> = Vec::new();
            let mut it_tails: Vec<String> = Vec::new();
            for (x, rest) in cell.clone().into_iter() {
                it_items.push(lexpr::to_string(&x).unwrap());
                if let Some(r) = rest { it_tails.push(lexpr::to_string(&r).unwrap()); }
            }
            if it_items != want_items || it_tails != vec![want_tail.clone()] {
                bad.push(format!("into_iter of {} yields {:?} with tails {:?}, expected {:?} with the one tail {}", printed[i], it_items, it_tails, want_items, want_tail));
            }
        }
        for (j, w) in vals.iter().enumerate() {
            cases += 1;
            let want = printed[i] == printed[j];
            if (v == w) != want || (&c == w) != want {
                bad.push(format!("{} == {} is {} (clone: {}), expected {}", printed[i], printed[j], v == w, &c == w, want));
            }
        }
        if bad.len() > 5 { break; }
    }
    // lists built from iterators that promise nothing about their length (size_hint lower bound 0)
    for (got, want) in [
        (Value::list((1..=6u32).filter(|n| n % 2 == 1)), "(1 3 5)"),
        (Value::append((1..4u32).filter(|_| true), Value::from(7u32)), "(1 2 3 . 7)"),
        (Value::list("a b  c".split_whitespace()), "(\"a\" \"b\" \"c\")"),
        (Value::list(std::iter::from_fn({ let mut n = 0u32; move || { n += 1; if n < 3 { Some(n) } else { None } } })), "(1 2)"),
        (Value::append((0..0u32).filter(|_| true), Value::from(9u32)), "9"),
        (Value::list(Vec::<u32>::new()), "()"),
    ] {
        cases += 1;
        let p = lexpr::to_string(&got).unwrap();
        if p != want { bad.push(format!("list built from an unsized iterator prints as {}, expected {}", p, want)); }
    }
    write!(out, "{{\"cases\":{},\"bad\":[", cases).unwrap();
    for (i, b) in bad.iter().take(5).enumerate() {
        if i > 0 { out.push(','); }
        jstr(out, b.as_bytes());
    }
    out.push_str("]}");
}

/// C20 / C04: primitive conversions into Value keep the payload exactly
fn num_check(out: &mut String) {
    let mut bad: Vec<String> = Vec::new();
    let mut cases = 0usize;
    macro_rules! ints { ($t:ty, $($x:expr),*) => { $( {
        cases += 1;
        let x: $t = $x; let v = Value::from(x); let want = x as i128;
        let got = v.as_i64().map(|i| i as i128).or(v.as_u64().map(|u| u as i128));
        if got != Some(want) || v.as_f64() != Some(x as f64) || !v.is_number() {
            bad.push(format!("Value::from({}{}) holds {:?} / as_f64 {:?}", x, stringify!($t), got, v.as_f64()));
        }
    } )* } }
    ints!(u8, 0, 1, 127, 128, 255); ints!(u16, 0, 255, 256, 65535); ints!(u32, 0, 65536, u32::MAX); ints!(u64, 0, 1 << 32, i64::MAX as u64, 1 << 53);
    ints!(i8, i8::MIN, -1, 0, 1, i8::MAX); ints!(i16, i16::MIN, -129, -1, 0, i16::MAX); ints!(i32, i32::MIN, -32769, -1, 0, i32::MAX);
    ints!(i64, i64::MIN + 1, -(1 << 53), -1, 0, 1 << 53);
    for x in [u64::MAX, (i64::MAX as u64) + 1] { cases += 1; let v = Value::from(x); if v.as_u64() != Some(x) || v.as_i64().is_some() { bad.push(format!("Value::from({}u64) holds {:?}", x, v.as_u64())); } }
    { cases += 1; let v = Value::from(i64::MIN); if v.as_i64() != Some(i64::MIN) || v.as_u64().is_some() { bad.push("Value::from(i64::MIN)".to_string()); } }
    for x in [0.0f32, -0.0, 0.1, 0.3, 0.5, 1.5, -2.25, 3.14159, 1e-3, 1.0 + f32::EPSILON, f32::MAX, f32::MIN, f32::MIN_POSITIVE, 1e-45, 16777216.0, f32::INFINITY, f32::NEG_INFINITY] {
        cases += 1;
        let v = Value::from(x);
        if v.as_f64().map(f64::to_bits) != Some((x as f64).to_bits()) || v.as_i64().is_some() || v.as_u64().is_some() {
            bad.push(format!("Value::from({:e}f32).as_f64() = {:?}, expected {:e}", x, v.as_f64(), x as f64));
        }
        if !(v == x) || !(x == v) { bad.push(format!("Value::from({:e}f32) != {:e}f32", x, x)); }
    }
    for x in [0.0f64, -0.0, 0.1, 1e21, 5e-324, f64::MAX, f64::MIN_POSITIVE, 1.0 + f64::EPSILON, f64::INFINITY, f64::NEG_INFINITY] {
        cases += 1;
        let v = Value::from(x);
        if v.as_f64().map(f64::to_bits) != Some(x.to_bits()) || v.as_i64().is_some() { bad.push(format!("Value::from({:e}f64).as_f64() = {:?}", x, v.as_f64())); }
        if !(v == x) || !(x == v) { bad.push(format!("Value::from({:e}f64) != itself", x)); }
    }
    { cases += 1; let v = Value::from(f64::NAN); if !v.as_f64().map_or(false, f64::is_nan) { bad.push("Value::from(NaN)".to_string()); } }
    // comparisons with bool for every kind (C20): only a Bool value equals a bool
    let kinds = vec![Value::Nil, Value::Null, Value::Bool(true), Value::Bool(false), Value::from(0u64), Value::from(1u64), Value::from(0.0f64), Value::from('t'),
        Value::string("true"), Value::symbol("t"), Value::symbol("nil"), Value::keyword("f"), Value::bytes(vec![0u8]), Value::cons(1, 2), Value::vector(Vec::<Value>::new())];
    for v in &kinds {
        for b in [true, false] {
            cases += 1;
            let want = v.as_bool() == Some(b);
            if (*v == b) != want || (b == *v) != want { bad.push(format!("{} == {} is {} / {}, as_bool() is {:?}", v, b, *v == b, b == *v, v.as_bool())); }
        }
    }
    write!(out, "{{\"cases\":{},\"bad\":[", cases).unwrap();
    for (i, b) in bad.iter().take(5).enumerate() {
        if i > 0 { out.push(','); }
        jstr(out, b.as_bytes());
    }
    out.push_str("]}");
}

/// C01 / C10: every entry point of a family reads with the option set its name promises
fn entry_check(out: &mut String) {
    use lexpr::parse::Options;
    let texts = ["#:key", "(a #:kebab-keyword)", "foo", "(1 2 . 3)", "#(a \"s\" #\\x)", "[a b]", "nil", "(nil t)", "#nil", "1e21", "-0.0", "\"a\\x41;\"",
        "[a ?b :k \"s\\101\"]", ":k", "k:", "?a", "#%app", "(a . [b])", "'x", "a b", "(a", ")", "#u8(1 2)", "\"\\u00e9\""];
    let mut bad: Vec<String> = Vec::new();
    let mut cases = 0usize;
    fn show(r: Result<Value, lexpr::parse::Error>) -> String { match r { Ok(v) => format!("ok {:?}", v), Err(e) => format!("err {}", e) } }
    for t in texts {
        let want_d = show(lexpr::from_str_custom(t, Options::default()));
        let want_e = show(lexpr::from_str_custom(t, Options::elisp()));
        let got_default: Vec<(&str, String)> = vec![
            ("from_str", show(lexpr::from_str(t))), ("from_slice", show(lexpr::from_slice(t.as_bytes()))), ("from_reader", show(lexpr::from_reader(t.as_bytes()))),
            ("FromStr", show(t.parse::<Value>())),
            ("from_slice_custom(default)", show(lexpr::from_slice_custom(t.as_bytes(), Options::default()))),
            ("from_reader_custom(default)", show(lexpr::from_reader_custom(t.as_bytes(), Options::default()))),
            ("Parser::from_str", { let mut p = Parser::from_str(t); show(p.expect_value().and_then(|v| p.expect_end().map(|_| v))) }),
            ("Parser::from_slice", { let mut p = Parser::from_slice(t.as_bytes()); show(p.expect_value().and_then(|v| p.expect_end().map(|_| v))) }),
            ("Parser::from_reader", { let mut p = Parser::from_reader(t.as_bytes()); show(p.expect_value().and_then(|v| p.expect_end().map(|_| v))) }),
            ("Parser::from_str_custom(default)", { let mut p = Parser::from_str_custom(t, Options::default()); show(p.expect_value().and_then(|v| p.expect_end().map(|_| v))) }),
            ("datum::from_str", show(lexpr::datum::from_str(t).map(Value::from))), ("datum::from_slice", show(lexpr::datum::from_slice(t.as_bytes()).map(Value::from))),
            ("datum::from_reader", show(lexpr::datum::from_reader(t.as_bytes()).map(Value::from))),
            ("datum::from_str_custom(default)", show(lexpr::datum::from_str_custom(t, Options::default()).map(Value::from))),
        ];
        let got_elisp: Vec<(&str, String)> = vec![
            ("from_str_elisp", show(lexpr::parse::from_str_elisp(t))), ("from_slice_elisp", show(lexpr::parse::from_slice_elisp(t.as_bytes()))),
            ("from_reader_elisp", show(lexpr::parse::from_reader_elisp(t.as_bytes()))),
            ("datum::from_str_elisp", show(lexpr::datum::from_str_elisp(t).map(Value::from))), ("datum::from_slice_elisp", show(lexpr::datum::from_slice_elisp(t.as_bytes()).map(Value::from))),
            ("datum::from_reader_elisp", show(lexpr::datum::from_reader_elisp(t.as_bytes()).map(Value::from))),
            ("from_slice_custom(elisp)", show(lexpr::from_slice_custom(t.as_bytes(), Options::elisp()))),
        ];
        // error positions may differ between sources by design of the reader kinds: compare the part before " at line"
        let norm = |s: &str| s.split(" at line ").next().unwrap_or("").to_string();
        for (name, g) in got_default { cases += 1; if norm(&g) != norm(&want_d) { bad.push(format!("{} reads {:?} as {}, from_str_custom(default options) as {}", name, t, g, want_d)); } }
        for (name, g) in got_elisp { cases += 1; if norm(&g) != norm(&want_e) { bad.push(format!("{} reads {:?} as {}, from_str_custom(elisp options) as {}", name, t, g, want_e)); } }
        if bad.len() > 5 { break; }
    }
    write!(out, "{{\"cases\":{},\"bad\":[", cases).unwrap();
    for (i, b) in bad.iter().take(5).enumerate() {
        if i > 0 { out.push(','); }
        jstr(out, b.as_bytes());
    }
    out.push_str("]}");
}

fn long_list(n: usize, dotted: bool) -> Value {
    Value::append((0..n as u64).map(Value::from), if dotted { Value::from(7u64) } else { Value::Null })
}

fn long_text(n: usize, dotted: bool) -> String {
    let mut s = String::with_capacity(n * 2 + 8);
    s.push('(');
    for _ in 0..n { s.push_str("1 "); }
    if dotted { s.push_str(". 2"); }
    s.push(')');
    s
}

fn stack_op(op: &str, n: usize, dotted: bool) -> usize {
    match op {
        "build" => { let v = long_list(n, dotted); let r = v.is_cons() as usize; std::mem::forget(v); r }
        "drop" => { let v = long_list(n, dotted); drop(v); 1 }
        "drop_nils" => { let v = Value::append((0..n).map(|_| Value::Nil), if dotted { Value::from(7u64) } else { Value::Null }); drop(v); 1 }
        "drop_nested_heads" => { let v = Value::append((0..n).map(|_| Value::list(vec![Value::Nil])), Value::Null); drop(v); 1 }
        "alist_get_value" => {
            let v = Value::list((0..n as u64).map(|i| Value::cons(Value::from(i), Value::from(i + 1))).collect::<Vec<Value>>());
            let hit = v.get(&Value::from(n as u64 - 1)).is_some() as usize;
            let miss = v.get(&Value::symbol("absent")).is_none() as usize;
            let idx = (v[&Value::from(n as u64 - 2)] == Value::from(n as u64 - 1)) as usize;
            std::mem::forget(v); hit + miss + idx
        }
        "alist_get_name" => {
            let v = Value::list((0..n as u64).map(|i| Value::cons(Value::symbol(format!("k{}", i)), Value::from(i))).collect::<Vec<Value>>());
            let hit = v.get(format!("k{}", n - 1).as_str()).is_some() as usize;
            let miss = v.get("absent").is_none() as usize;
            std::mem::forget(v); hit + miss
        }
        "clone" => { let v = long_list(n, dotted); let w = v.clone(); let r = w.is_cons() as usize; std::mem::forget(v); std::mem::forget(w); r }
        "eq" => { let v = long_list(n, dotted); let w = long_list(n, dotted); let r = (v == w) as usize; std::mem::forget(v); std::mem::forget(w); r }
        "eq_self" => { let v = long_list(n, dotted); #[allow(clippy::eq_op)] let r = (v == v) as usize; std::mem::forget(v); r }
        "datum_parse_err" => { let mut t = long_text(n, dotted); t.pop(); let a = lexpr::datum::from_reader(t.as_bytes()).is_err() as usize;
            t.push(']'); let b = lexpr::datum::from_reader(t.as_bytes()).is_err() as usize; a + b }
        "debug" => { let v = long_list(n, dotted); let s = format!("{:?}", v); std::mem::forget(v); s.len() }
        "print" => { let v = long_list(n, dotted); let s = lexpr::to_string(&v).unwrap(); std::mem::forget(v); s.len() }
        "display" => { let v = long_list(n, dotted); let s = format!("{}", v); std::mem::forget(v); s.len() }
        "to_vec" => { let v = long_list(n, dotted); let r = v.as_cons().unwrap().to_ref_vec().0.len(); std::mem::forget(v); r }
        "to_vec_owned" => { let v = long_list(n, dotted); let r = v.as_cons().unwrap().to_vec().0.len(); std::mem::forget(v); r }
        "into_vec" => { let v = long_list(n, dotted); if let Value::Cons(c) = v { c.into_vec().0.len() } else { 0 } }
        "iter" => { let v = long_list(n, dotted); let r = v.as_cons().unwrap().iter().count(); std::mem::forget(v); r }
        "list_iter" => { let v = long_list(n, dotted); let r = v.list_iter().unwrap().count(); std::mem::forget(v); r }
        "into_iter" => { let v = long_list(n, dotted); if let Value::Cons(c) = v { c.into_iter().count() } else { 0 } }
        "get" => { let v = long_list(n, dotted); let r = v.get(n - 1).is_some() as usize; std::mem::forget(v); r }
        "is_list" => { let v = long_list(n, dotted); let r = v.is_list() as usize + v.is_dotted_list() as usize; std::mem::forget(v); r }
        "parse" => { let t = long_text(n, dotted); let v = lexpr::from_str(&t).unwrap(); let r = v.is_cons() as usize; std::mem::forget(v); r }
        "parse_drop" => { let t = long_text(n, dotted); let v = lexpr::from_str(&t).unwrap(); drop(v); 1 }
        "datum_parse" => { let t = long_text(n, dotted); let d = lexpr::datum::from_reader(t.as_bytes()).unwrap(); let r = d.value().is_cons() as usize; std::mem::forget(d); r }
        "datum_drop" => { let t = long_text(n, dotted); let d = lexpr::datum::from_reader(t.as_bytes()).unwrap(); drop(d); 1 }
        "datum_clone" => { let t = long_text(n, dotted); let d = lexpr::datum::from_reader(t.as_bytes()).unwrap(); let e = d.clone(); std::mem::forget(d); std::mem::forget(e); 1 }
        "datum_eq" => { let t = long_text(n, dotted); let d = lexpr::datum::from_reader(t.as_bytes()).unwrap(); let e = lexpr::datum::from_reader(t.as_bytes()).unwrap(); let r = (d == e) as usize; std::mem::forget(d); std::mem::forget(e); r }
        "datum_iter" => { let t = long_text(n, dotted); let d = lexpr::datum::from_reader(t.as_bytes()).unwrap(); let r = d.list_iter().unwrap().count(); std::mem::forget(d); r }
        #[cfg(feature = "fast-float")]
        "to_value" => { let xs: Vec<u64> = (0..n as u64).collect(); let v = serde_lexpr::to_value(&xs).unwrap(); let r = v.is_cons() as usize; std::mem::forget(v); r }
        #[cfg(feature = "fast-float")]
        "from_value" => { let v = long_list(n, false); let xs: Vec<u64> = serde_lexpr::from_value(&v).unwrap(); std::mem::forget(v); xs.len() }
        #[cfg(feature = "fast-float")]
        "from_value_ignored" => serdecheck::ignored_long(n),
        #[cfg(feature = "fast-float")]
        "from_value_mismatch" => { let v = long_list(n, dotted); let a = serde_lexpr::from_value::<String>(&v).is_err() as usize;
            let w = Value::list(vec![Value::from(1), v]); let b = serde_lexpr::from_value::<Vec<u32>>(&w).is_err() as usize; std::mem::forget(w); a + b }
        _ => panic!("unknown op"),
    }
}

/// value descriptor (prefix notation, space separated): N U T F I:<dec> D:<f64 bits hex> S:<hex utf8> C:<u32> Y:<hex> K:<hex>
/// B:<hex> L<n> <n items> <tail>  V<n> <n items>
fn parse_desc<'a, I: Iterator<Item = &'a str>>(it: &mut I) -> Value {
    let t = it.next().expect("descriptor ended early");
    let hs = |x: &str| String::from_utf8(hex(x)).expect("utf8 in descriptor");
    match &t[..1] {
        "N" => Value::Nil,
        "U" => Value::Null,
        "T" => Value::Bool(true),
        "F" => Value::Bool(false),
        "I" => { let d = &t[2..]; if let Ok(u) = d.parse::<u64>() { Value::from(u) } else { Value::from(d.parse::<i64>().unwrap()) } }
        "D" => Value::from(f64::from_bits(u64::from_str_radix(&t[2..], 16).unwrap())),
        "S" => Value::string(hs(&t[2..])),
        "C" => Value::from(char::from_u32(t[2..].parse().unwrap()).unwrap()),
        "Y" => Value::symbol(hs(&t[2..])),
        "K" => Value::keyword(hs(&t[2..])),
        "B" => Value::bytes(hex(&t[2..])),
        "L" => {
            let n: usize = t[1..].parse().unwrap();
            let items: Vec<Value> = (0..n).map(|_| parse_desc(it)).collect();
            let tail = parse_desc(it);
            Value::append(items, tail)
        }
        "V" => {
            let n: usize = t[1..].parse().unwrap();
            Value::vector((0..n).map(|_| parse_desc(it)).collect::<Vec<Value>>())
        }
        _ => panic!("bad descriptor {}", t),
    }
}

fn print_opts(s: &str) -> lexpr::print::Options {
    use lexpr::print::*;
    let mut o = Options::default();
    if s == "default" { return o; }
    if s == "elisp" { return Options::elisp(); }
    for kv in s.split(',') {
        let mut it = kv.split('=');
        let (k, v) = (it.next().unwrap(), it.next().unwrap());
        o = match (k, v) {
            ("kw", "Octothorpe") => o.with_keyword_syntax(KeywordSyntax::Octothorpe),
            ("kw", "ColonPrefix") => o.with_keyword_syntax(KeywordSyntax::ColonPrefix),
            ("kw", "ColonPostfix") => o.with_keyword_syntax(KeywordSyntax::ColonPostfix),
            ("nil", "Symbol") => o.with_nil_syntax(NilSyntax::Symbol),
            ("nil", "Token") => o.with_nil_syntax(NilSyntax::Token),
            ("nil", "EmptyList") => o.with_nil_syntax(NilSyntax::EmptyList),
            ("nil", "False") => o.with_nil_syntax(NilSyntax::False),
            ("bool", "Token") => o.with_bool_syntax(BoolSyntax::Token),
            ("bool", "Symbol") => o.with_bool_syntax(BoolSyntax::Symbol),
            ("vec", "Octothorpe") => o.with_vector_syntax(VectorSyntax::Octothorpe),
            ("vec", "Brackets") => o.with_vector_syntax(VectorSyntax::Brackets),
            ("bytes", "R6RS") => o.with_bytes_syntax(BytesSyntax::R6RS),
            ("bytes", "R7RS") => o.with_bytes_syntax(BytesSyntax::R7RS),
            ("bytes", "Elisp") => o.with_bytes_syntax(BytesSyntax::Elisp),
            ("str", "R6RS") => o.with_string_syntax(StringSyntax::R6RS),
            ("str", "Elisp") => o.with_string_syntax(StringSyntax::Elisp),
            ("char", "R6RS") => o.with_char_syntax(CharSyntax::R6RS),
            ("char", "Elisp") => o.with_char_syntax(CharSyntax::Elisp),
            _ => panic!("bad print option {}={}", k, v),
        };
    }
    o
}

/// stdin lines `<print opts>\t<descriptor>` -> one line each: hex of the printed text, `ERR`, or `PANIC`
fn print_batch(out: &mut String) {
    let mut input = String::new();
    std::io::Read::read_to_string(&mut std::io::stdin(), &mut input).unwrap();
    std::panic::set_hook(Box::new(|_| {}));
    for line in input.lines() {
        let mut parts = line.splitn(2, '\t');
        let (o, d) = (parts.next().unwrap().to_string(), parts.next().unwrap_or("").to_string());
        let r = std::panic::catch_unwind(move || {
            let v = parse_desc(&mut d.split(' ').filter(|x| !x.is_empty()));
            if o == "plain" { lexpr::to_vec(&v) } else { lexpr::to_vec_custom(&v, print_opts(&o)) }
        });
        match r {
            Ok(Ok(bytes)) => { for b in bytes { write!(out, "{:02x}", b).unwrap(); } out.push('\n'); }
            Ok(Err(_)) => out.push_str("ERR\n"),
            Err(_) => out.push_str("PANIC\n"),
        }
    }
}

/// stdin lines `<parse opts>\t<hex input>` -> one JSON line each (as `parse`), `{"panic":true}` on a panic
fn parse_batch(src: &str, api: &str, out: &mut String) {
    let mut input = String::new();
    std::io::Read::read_to_string(&mut std::io::stdin(), &mut input).unwrap();
    std::panic::set_hook(Box::new(|_| {}));
    for line in input.lines() {
        let mut parts = line.splitn(2, '\t');
        let (o, d) = (parts.next().unwrap().to_string(), parts.next().unwrap_or("").to_string());
        let (src, api) = (src.to_string(), api.to_string());
        let r = std::panic::catch_unwind(move || {
            let mut o2 = String::new();
            parse_one(&parse_opts(&o), &src, &api, hex(d.trim()), None, &mut o2);
            o2
        });
        match r {
            Ok(s) => { out.push_str(&s); out.push('\n'); }
            Err(_) => out.push_str("{\"panic\":true}\n"),
        }
    }
}

fn parse_one(opts: &Options, src: &str, api: &str, data: Vec<u8>, fail_at: Option<usize>, out: &mut String) {
    let opts = *opts;
    if api == "single" {
        let r = match src {
            "str" => match std::str::from_utf8(&data) { Ok(s) => lexpr::from_str_custom(s, opts), Err(_) => { out.push_str("{\"skip\":\"not utf8\"}"); return; } },
            "slice" => lexpr::from_slice_custom(&data, opts),
            _ => lexpr::from_reader_custom(FaultReader { data, pos: 0, fail_at }, opts),
        };
        match r {
            Ok(v) => jvalue(out, &v),
            Err(e) => {
                // category, code, position, and the kind of the documented conversion to std::io::Error
                let mut tmp = String::new();
                jerr(&mut tmp, &e);
                let kind = format!("{:?}", std::io::Error::from(e).kind());
                let tmp = tmp.trim_end_matches('}').trim_end_matches('}').to_string();
                write!(out, "{},\"io_kind\":\"{}\"}}}}", tmp, kind).unwrap();
            }
        }
    } else {
        match src {
            "str" => match std::str::from_utf8(&data) { Ok(s) => run_parser(Parser::from_str_custom(s, opts), api, out), Err(_) => { out.push_str("{\"skip\":\"not utf8\"}"); } },
            "slice" => run_parser(Parser::from_slice_custom(&data, opts), api, out),
            _ => run_parser(Parser::from_reader_custom(FaultReader { data, pos: 0, fail_at }, opts), api, out),
        }
    }
}

fn main() {
    let a: Vec<String> = std::env::args().collect();
    let mut out = String::new();
    match a[1].as_str() {
        "printcheck" => print_check(&mut out),
        "alistcheck" => alist_check(&mut out),
        "conscheck" => cons_check(&mut out),
        "numcheck" => num_check(&mut out),
        "entrycheck" => entry_check(&mut out),
        "stack" => {
            // stack <op> <n> [dotted]: run one list-walking operation on an n-element list on a 2 MiB thread
            let op = a[2].clone();
            let n: usize = a[3].parse().unwrap();
            let dotted = a.get(4).map(|s| s == "dotted").unwrap_or(false);
            let h = std::thread::Builder::new().stack_size(2 * 1024 * 1024).spawn(move || stack_op(&op, n, dotted)).unwrap();
            let r = h.join().unwrap();
            write!(out, "{{\"ok\":true,\"result\":{}}}", r).unwrap();
        }
        "parse" => {
            let opts = parse_opts(&a[2]);
            let src = a[3].as_str();
            let api = a[4].as_str();
            let data = if a[5] == "-" {
                let mut s = String::new();
                std::io::Read::read_to_string(&mut std::io::stdin(), &mut s).unwrap();
                hex(s.trim())
            } else {
                hex(&a[5])
            };
            let fail_at: Option<usize> = a.get(6).and_then(|s| s.parse().ok());
            parse_one(&opts, src, api, data, fail_at, &mut out);
        }
        #[cfg(feature = "fast-float")]
        "serdecheck" => {
            let (cases, bad) = serdecheck::serde_check();
            write!(out, "{{\"cases\":{},\"bad\":[", cases).unwrap();
            for (i, b) in bad.iter().take(8).enumerate() {
                if i > 0 { out.push(','); }
                jstr(&mut out, b.as_bytes());
            }
            out.push_str("]}");
        }
        "printbatch" => { print_batch(&mut out); print!("{}", out); return; }
        "parsebatch" => { parse_batch(&a[2], &a[3], &mut out); print!("{}", out); return; }
        _ => panic!("unknown command"),
    }
    println!("{}", out);
}
