//! Native serde corpus (confirmation of C04 / C14 / C18 counterexamples): round trips of a type family through Value and
//! text, documented shapes, acceptance / rejection of alternative encodings, and totality + self-consistency of
//! `from_value` over a corpus of arbitrary values.  Prints {"cases":n,"bad":[hex...]}.
use lexpr::{sexp, Value};
use serde::de::DeserializeOwned;
use serde::{Deserialize, Serialize};
use serde_lexpr::{from_str, from_value, to_string, to_value};
use std::collections::{BTreeMap, BTreeSet};
use std::fmt::Debug;
use std::panic::{catch_unwind, AssertUnwindSafe};

#[derive(Serialize, Deserialize, Debug, PartialEq, Clone)]
struct Unit;
#[derive(Serialize, Deserialize, Debug, PartialEq, Clone)]
struct Newtype(u32);
#[derive(Serialize, Deserialize, Debug, PartialEq, Clone)]
struct NewtypeVec(Vec<u8>);
#[derive(Serialize, Deserialize, Debug, PartialEq, Clone)]
struct Pair(u32, String);
#[derive(Serialize, Deserialize, Debug, PartialEq, Clone)]
struct Single(u32,);
#[derive(Serialize, Deserialize, Debug, PartialEq, Clone)]
struct Point { x: i64, y: Option<u8>, u: (), name: String }
#[derive(Serialize, Deserialize, Debug, PartialEq, Clone)]
struct Header { id: u32, tag: String }
#[derive(Serialize, Deserialize, Debug, PartialEq, Clone)]
struct Big { a: u64, b: i64, c: Vec<u64> }
#[derive(Serialize, Deserialize, Debug, PartialEq, Clone)]
enum E {
    A,
    N(u32),
    NV(Vec<u32>),
    T(u32, String),
    T0(),
    S { a: u8, b: Option<bool> },
    S0 {},
    O(Option<u8>),
}
#[derive(Serialize, Deserialize, Debug, PartialEq, Clone)]
struct Outer { m: BTreeMap<String, E>, e: E, o: Option<Option<u8>>, v: Vec<Option<u8>> }
#[derive(Serialize, Deserialize, Debug, PartialEq, Clone)]
struct Bytes(#[serde(with = "serde_bytes")] Vec<u8>);

/// a map serialized entry by entry through serialize_key / serialize_value (as streaming implementations do)
#[derive(Debug, PartialEq, Clone)]
struct KeyThenValue(Vec<(String, u32)>);
impl Serialize for KeyThenValue {
    fn serialize<S: serde::Serializer>(&self, ser: S) -> Result<S::Ok, S::Error> {
        use serde::ser::SerializeMap;
        let mut m = ser.serialize_map(Some(self.0.len()))?;
        for (k, v) in &self.0 {
            m.serialize_key(k)?;
            m.serialize_value(v)?;
        }
        m.end()
    }
}
/// a sequence / tuple / struct driven by hand through the collector interfaces
#[derive(Debug, PartialEq, Clone)]
struct ByHand(Vec<u32>);
impl Serialize for ByHand {
    fn serialize<S: serde::Serializer>(&self, ser: S) -> Result<S::Ok, S::Error> {
        use serde::ser::SerializeSeq;
        let mut m = ser.serialize_seq(None)?;
        for v in &self.0 { m.serialize_element(v)?; }
        m.end()
    }
}

/// every collector driven by hand with n items (what `#[serde(skip)]` fields or manual impls produce: 0, 1, 2 … collected items)
#[derive(Debug, PartialEq, Clone)]
struct Collect(u8, Vec<u32>);
impl Serialize for Collect {
    fn serialize<S: serde::Serializer>(&self, ser: S) -> Result<S::Ok, S::Error> {
        use serde::ser::{SerializeStruct, SerializeStructVariant, SerializeTuple, SerializeTupleStruct, SerializeTupleVariant};
        const NAMES: [&str; 4] = ["a", "b", "c", "d"];
        match self.0 {
            0 => { let mut m = ser.serialize_tuple_variant("E", 0, "V", self.1.len())?; for v in &self.1 { m.serialize_field(v)?; } m.end() }
            1 => { let mut m = ser.serialize_struct_variant("E", 0, "V", self.1.len())?; for (i, v) in self.1.iter().enumerate() { m.serialize_field(NAMES[i], v)?; } m.end() }
            2 => { let mut m = ser.serialize_tuple(self.1.len())?; for v in &self.1 { m.serialize_element(v)?; } m.end() }
            3 => { let mut m = ser.serialize_tuple_struct("T", self.1.len())?; for v in &self.1 { m.serialize_field(v)?; } m.end() }
            _ => { let mut m = ser.serialize_struct("S", self.1.len())?; for (i, v) in self.1.iter().enumerate() { m.serialize_field(NAMES[i], v)?; } m.end() }
        }
    }
}

struct Ctx { cases: usize, bad: Vec<String> }

impl Ctx {
    fn fail(&mut self, s: String) { if self.bad.len() < 12 { self.bad.push(s); } }

    /// C04: value and text round trip; C18: never panics
    fn rt<T: Serialize + DeserializeOwned + PartialEq + Debug>(&mut self, x: T) {
        self.cases += 1;
        let r = catch_unwind(AssertUnwindSafe(|| {
            let v = to_value(&x).map_err(|e| format!("to_value failed: {}", e))?;
            let y: T = from_value(&v).map_err(|e| format!("from_value({}) failed: {}", v, e))?;
            if y != x { return Err(format!("value round trip: {:?} -> {} -> {:?}", x, v, y)); }
            let s = to_string(&x).map_err(|e| format!("to_string failed: {}", e))?;
            let z: T = from_str(&s).map_err(|e| format!("from_str({:?}) failed: {}", s, e))?;
            if z != x { return Err(format!("text round trip: {:?} -> {:?} -> {:?}", x, s, z)); }
            Ok::<(), String>(())
        }));
        match r {
            Ok(Ok(())) => {}
            Ok(Err(e)) => self.fail(format!("C04 {}: {}", std::any::type_name::<T>(), e)),
            Err(_) => self.fail(format!("C04 {}: panic for {:?}", std::any::type_name::<T>(), x)),
        }
    }

    /// C04, value route only (non-finite floats have no text form that reads back)
    fn rt_value<T: Serialize + DeserializeOwned + PartialEq + Debug>(&mut self, x: T) {
        self.cases += 1;
        let r = catch_unwind(AssertUnwindSafe(|| {
            let v = to_value(&x).map_err(|e| format!("to_value failed: {}", e))?;
            let y: T = from_value(&v).map_err(|e| format!("from_value({}) failed: {}", v, e))?;
            if y != x { return Err(format!("value round trip: {:?} -> {} -> {:?}", x, v, y)); }
            Ok::<(), String>(())
        }));
        match r {
            Ok(Ok(())) => {}
            Ok(Err(e)) => self.fail(format!("C04 {}: {}", std::any::type_name::<T>(), e)),
            Err(_) => self.fail(format!("C04 {}: panic for {:?}", std::any::type_name::<T>(), x)),
        }
    }

    /// C14: documented shape
    fn shape<T: Serialize + Debug>(&mut self, x: T, want: Value) {
        self.cases += 1;
        match catch_unwind(AssertUnwindSafe(|| to_value(&x))) {
            Ok(Ok(v)) => if v != want { self.fail(format!("C14 shape of {:?}: got {} want {}", x, v, want)); },
            Ok(Err(e)) => self.fail(format!("C14 shape of {:?}: error {}", x, e)),
            Err(_) => self.fail(format!("C14 shape of {:?}: panic", x)),
        }
    }

    /// C14 acceptance: `v` must deserialize to `want`
    fn accepts<T: DeserializeOwned + PartialEq + Debug>(&mut self, v: Value, want: T) {
        self.cases += 1;
        match catch_unwind(AssertUnwindSafe(|| from_value::<T>(&v))) {
            Ok(Ok(x)) => if x != want { self.fail(format!("C14 accept {} as {}: got {:?} want {:?}", v, std::any::type_name::<T>(), x, want)); },
            Ok(Err(e)) => self.fail(format!("C14 accept {} as {}: rejected: {}", v, std::any::type_name::<T>(), e)),
            Err(_) => self.fail(format!("C14 accept {} as {}: panic", v, std::any::type_name::<T>())),
        }
    }

    /// C14 rejection: `v` must be a (data) error for T, not a value and not a panic
    fn rejects<T: DeserializeOwned + Debug>(&mut self, v: Value) {
        self.cases += 1;
        match catch_unwind(AssertUnwindSafe(|| from_value::<T>(&v))) {
            Ok(Ok(x)) => self.fail(format!("C14 reject {} as {}: accepted as {:?}", v, std::any::type_name::<T>(), x)),
            Ok(Err(e)) => if e.classify() != serde_lexpr::error::Category::Data {
                self.fail(format!("C18 {} as {}: rejected with a {:?}-category error, not a data error: {}", v, std::any::type_name::<T>(), e.classify(), e));
            },
            Err(_) => self.fail(format!("C18 {} as {}: panic", v, std::any::type_name::<T>())),
        }
    }

    /// C18: total, and accepted encodings are normalised: from(to(x)) == x
    fn total<T: Serialize + DeserializeOwned + PartialEq + Debug>(&mut self, v: &Value) {
        self.cases += 1;
        let r = catch_unwind(AssertUnwindSafe(|| -> Result<(), String> {
            match from_value::<T>(v) {
                Err(e) => if e.classify() != serde_lexpr::error::Category::Data {
                    Err(format!("{} rejected with a {:?}-category error, not a data error: {}", v, e.classify(), e))
                } else { Ok(()) },
                Ok(x) => {
                    let v2 = to_value(&x).map_err(|e| format!("accepted {} as {:?} but serializing that fails: {}", v, x, e))?;
                    let y: T = from_value(&v2).map_err(|e| format!("accepted {} as {:?}; re-serialized {} is rejected: {}", v, x, v2, e))?;
                    if y != x { return Err(format!("accepted {} as {:?}; second pass gives {:?}", v, x, y)); }
                    Ok(())
                }
            }
        }));
        match r {
            Ok(Ok(())) => {}
            Ok(Err(e)) => self.fail(format!("C18 {}: {}", std::any::type_name::<T>(), e)),
            Err(_) => self.fail(format!("C18 {}: panic on {}", std::any::type_name::<T>(), v)),
        }
    }
}

fn value_corpus() -> Vec<Value> {
    let mut v = vec![
        Value::Nil, Value::Null, Value::Bool(true), Value::Bool(false), Value::from(0u64), Value::from(1u64), Value::from(255u64), Value::from(256u64),
        Value::from(-1i64), Value::from(i64::MIN), Value::from(u64::MAX), Value::from(1u64 << 63), Value::from(1.5f64), Value::from(-0.0f64), Value::from(1e300f64), Value::from(-1e39f64), Value::list(vec![Value::from(1e39f64)]),
        Value::from('a'), Value::from('\u{3bb}'), Value::string(""), Value::string("a"), Value::string("A"), Value::symbol("A"), Value::symbol("a"), Value::symbol("x"),
        Value::keyword("A"), Value::keyword("x"), Value::bytes(Vec::<u8>::new()), Value::bytes(vec![1u8, 2, 255]),
        Value::vector(Vec::<Value>::new()), Value::vector(vec![Value::from(1)]), Value::vector(vec![Value::from(1), Value::from(2)]),
        Value::vector(vec![Value::from(1), Value::string("s")]), Value::vector(vec![Value::from(1), Value::from(2), Value::from(3)]),
        Value::list(vec![Value::from(1)]), Value::list(vec![Value::from(1), Value::from(2)]), Value::list(vec![Value::from(1), Value::string("s")]),
        Value::list(vec![Value::from(1), Value::from(2), Value::from(3)]), Value::cons(1, 2), Value::cons(Value::from(1), Value::string("s")),
        Value::append(vec![Value::from(1), Value::from(2)], Value::from(3)), Value::append(vec![Value::from(1), Value::string("s")], Value::from(7)),
        Value::list(vec![Value::Null]), Value::list(vec![Value::list(vec![Value::from(1)])]), Value::list(vec![Value::list(vec![Value::Null])]),
        sexp!((x . 1)), sexp!(((x . 1))), sexp!(((x . 1) (y . 2) (u) (name . "n"))), sexp!(((x . 1) (y 2) (u) (name . "n"))),
        sexp!(((x . 1) (y) (u) (name . "n") (extra 1 2 3))), sexp!(((x . 1) . 5)), sexp!(((x . 1) 7)), sexp!((("k" . A) ("j" N . 3))),
        sexp!(((id . 7) (tag . "x"))), sexp!(((id . 7) (payload 1 2 3) (tag . "x"))), sexp!(((id . 7) (payload . #nil) (tag . "x"))), sexp!(((id . 7) (sym . foo) (tag . "x"))),
        sexp!(((id . 7) (tag . "x") . 3)), sexp!(((id . 7) (tag . "x") (id . 8))),
        sexp!(A), sexp!((A)), sexp!((N . 3)), sexp!((N 3)), sexp!((NV 1 2 3)), sexp!((NV . #(1 2 3))), sexp!((NV)), sexp!((T 1 "s")), sexp!((T 1 "s" . 7)), sexp!((T 1)),
        sexp!((T 1 "s" 3)), sexp!((T . #(1 "s"))), sexp!((T0)), sexp!(T0), sexp!((S (a . 1) (b . #t))), sexp!((S (a . 1) (b #t))), sexp!((S (a . 1) (b))), sexp!((S (a . 1))), sexp!((S0)),
        sexp!((O)), sexp!((O 1)), sexp!((O . 1)), sexp!((O . ())), sexp!((Z . 1)), sexp!(("A")), sexp!((1 . 2)), sexp!((#:A . 1)),
    ];
    v.push(Value::list(vec![Value::vector(vec![Value::from(1), Value::from(2)]), Value::vector(vec![Value::from(3)])]));
    v.push(Value::vector(vec![Value::vector(vec![Value::from(1)]), Value::list(vec![Value::from(2)])]));
    v
}

pub fn serde_check() -> (usize, Vec<String>) {
    std::panic::set_hook(Box::new(|_| {}));
    let mut c = Ctx { cases: 0, bad: Vec::new() };
    // ---- C04 family
    for x in [0u8, 1, 127, 128, 255] { c.rt(x); }
    for x in [0u16, 255, 256, u16::MAX] { c.rt(x); }
    for x in [0u32, 65536, u32::MAX] { c.rt(x); }
    for x in [0u64, 1 << 32, i64::MAX as u64, (i64::MAX as u64) + 1, u64::MAX - 1, u64::MAX] { c.rt(x); c.rt(vec![x]); c.rt(Some(x)); }
    for x in [0usize, usize::MAX] { c.rt(x); }
    for x in [i8::MIN, -1, 0, i8::MAX] { c.rt(x); }
    for x in [i16::MIN, -129, i16::MAX] { c.rt(x); }
    for x in [i32::MIN, -32769, i32::MAX] { c.rt(x); }
    for x in [i64::MIN, i64::MIN + 1, -(1 << 53) - 1, -1, 0, i64::MAX] { c.rt(x); c.rt((x, x)); }
    for x in [0.0f64, -0.0, 1.5, -2.25, 1e15, 1e-7, 0.1, 1e21, f64::MAX, f64::MIN_POSITIVE, 123456.789] { c.rt(x); }
    for x in [0.0f32, 1.5, -2.25, 0.1, 1e-7, f32::MAX] { c.rt(x); }
    for x in [f64::INFINITY, f64::NEG_INFINITY] { c.rt_value(x); c.rt_value(vec![x]); c.rt_value(Some(x)); c.rt_value((x,)); }
    for x in [f32::INFINITY, f32::NEG_INFINITY] { c.rt_value(x); c.rt_value(vec![x]); }
    c.rt(true); c.rt(false); c.rt(());
    for x in ['a', ' ', '(', '\n', '\u{0}', '\u{7f}', '\u{e9}', '\u{3bb}', '\u{ffff}', '\u{1F600}', ';', '"', '\\', '#'] { c.rt(x); c.rt(vec![x, x]); }
    for x in ["", "a", "a b", "\"q\"\\", "λ\u{7f}\u{0}\n\t", "nil", "#t", "(", "\u{1F600}"] { c.rt(x.to_string()); c.rt(vec![x.to_string()]); }
    for b in [vec![], vec![0u8], vec![255u8], vec![0, 1, 127, 128, 254, 255], (0..=255u8).collect::<Vec<u8>>()] { c.rt(Bytes(b.clone())); c.rt(serde_bytes::ByteBuf::from(b)); }
    c.rt(None::<u8>); c.rt(Some(3u8)); c.rt(None::<Option<u8>>); c.rt(Some(None::<u8>)); c.rt(Some(Some(3u8)));
    c.rt(None::<()>); c.rt(Some(())); c.rt(None::<Vec<u8>>); c.rt(Some(Vec::<u8>::new())); c.rt(Some(vec![1u8]));
    c.rt(vec![None, Some(1u8), None]); c.rt(Vec::<Option<u8>>::new()); c.rt(vec![Some(None), None, Some(Some(1u8))]);
    c.rt(Vec::<u32>::new()); c.rt(vec![1u32]); c.rt(vec![vec![1u32], vec![], vec![2, 3]]); c.rt((0..300u32).collect::<Vec<u32>>());
    c.rt([1u8, 2, 3].iter().cloned().collect::<BTreeSet<u8>>()); c.rt(BTreeSet::<String>::new());
    c.rt((1u8,)); c.rt((1u8, "a".to_string())); c.rt((1u8, (2u8, 3u8), vec![4u8])); c.rt(((), ())); c.rt([1u8, 2, 3]);
    let mut m1 = BTreeMap::new(); m1.insert(1i32, "one".to_string()); m1.insert(-2, "m".to_string()); c.rt(m1);
    let mut m2 = BTreeMap::new(); m2.insert('a', 1u8); m2.insert('λ', 2); c.rt(m2);
    let mut m3 = BTreeMap::new(); m3.insert("k".to_string(), vec![1u8]); m3.insert("".to_string(), vec![]); c.rt(m3.clone()); c.rt(BTreeMap::<String, u8>::new());
    c.rt(Unit); c.rt(Newtype(7)); c.rt(NewtypeVec(vec![1, 2])); c.rt(NewtypeVec(vec![])); c.rt(Pair(42, "Answer".into())); c.rt(Single(9));
    c.rt(Point { x: -5, y: None, u: (), name: "p".into() }); c.rt(Point { x: i64::MIN, y: Some(0), u: (), name: "".into() });
    c.rt(Big { a: u64::MAX, b: i64::MIN, c: vec![u64::MAX, 0, 1 << 63] });
    for e in [E::A, E::N(3), E::NV(vec![]), E::NV(vec![1, 2]), E::T(1, "s".into()), E::T0(), E::S { a: 1, b: None }, E::S { a: 1, b: Some(false) }, E::S0 {}, E::O(None), E::O(Some(1))] {
        c.rt(e.clone()); c.rt(vec![e.clone(), E::A]); c.rt(Some(e.clone())); c.rt((e.clone(), 1u8));
        let mut m = BTreeMap::new(); m.insert("k".to_string(), e.clone());
        c.rt(Outer { m, e: e.clone(), o: Some(None), v: vec![None, Some(1)] });
    }
    // ---- C14 shapes
    c.shape(u64::MAX, Value::from(u64::MAX)); c.shape(1u64 << 63, Value::from(1u64 << 63)); c.shape(i64::MIN, Value::from(i64::MIN));
    c.shape(255u8, Value::from(255u64)); c.shape(-1i8, Value::from(-1i64)); c.shape(u32::MAX, Value::from(u32::MAX as u64)); c.shape(usize::MAX, Value::from(usize::MAX as u64));
    c.shape(vec![u64::MAX], Value::list(vec![Value::from(u64::MAX)]));
    c.shape(vec![1u8, 2], sexp!((1 2))); c.shape(Vec::<u8>::new(), Value::Null); c.shape((1u8, "a"), Value::vector(vec![Value::from(1), Value::string("a")]));
    c.shape(Pair(1, "a".into()), Value::vector(vec![Value::from(1), Value::string("a")]));
    c.shape(None::<u8>, Value::Null); c.shape(Some(1u8), sexp!((1))); c.shape(Some(None::<u8>), sexp!((()))); c.shape((), Value::Null); c.shape(Unit, Value::Null);
    c.shape(Newtype(7), Value::from(7)); c.shape('a', Value::from('a')); c.shape(true, Value::Bool(true)); c.shape("s", Value::string("s"));
    c.shape(E::A, sexp!(A)); c.shape(E::N(3), sexp!((N . 3))); c.shape(E::T(1, "s".into()), sexp!((T 1 "s"))); c.shape(E::S { a: 1, b: None }, sexp!((S (a . 1) (b))));
    c.shape(E::NV(vec![1, 2]), sexp!((NV 1 2))); c.shape(Header { id: 7, tag: "x".into() }, sexp!(((id . 7) (tag . "x"))));
    c.shape(Bytes(vec![1, 255]), Value::bytes(vec![1u8, 255])); c.shape(m3, sexp!((("" . ()) ("k" 1))));
    c.shape(KeyThenValue(vec![("one".into(), 1), ("two".into(), 2)]), sexp!((("one" . 1) ("two" . 2)))); c.shape(KeyThenValue(vec![]), Value::Null);
    c.shape(ByHand(vec![1, 2, 3]), sexp!((1 2 3))); c.shape(ByHand(vec![]), Value::Null);
    for n in 0..4usize {
        let xs: Vec<u32> = (1..=n as u32).collect();
        let items: Vec<Value> = xs.iter().map(|x| Value::from(*x)).collect();
        let fields: Vec<Value> = xs.iter().enumerate().map(|(i, x)| Value::cons(Value::symbol(["a", "b", "c", "d"][i]), Value::from(*x))).collect();
        c.shape(Collect(0, xs.clone()), Value::cons(Value::symbol("V"), Value::list(items.clone())));
        c.shape(Collect(1, xs.clone()), Value::cons(Value::symbol("V"), Value::list(fields.clone())));
        c.shape(Collect(2, xs.clone()), Value::vector(items.clone()));
        c.shape(Collect(3, xs.clone()), Value::vector(items.clone()));
        c.shape(Collect(4, xs.clone()), Value::list(fields.clone()));
    }
    c.shape(Some(()), sexp!((()))); c.shape(Some(Unit), sexp!((()))); c.shape(Some(Vec::<u8>::new()), sexp!((()))); c.shape(Some(Some(1u8)), sexp!(((1))));
    // ---- C14 acceptance / rejection of alternative encodings
    c.accepts(Value::vector(vec![Value::from(1), Value::from(2)]), vec![1u32, 2]);
    c.accepts(sexp!((1 "s")), (1u32, "s".to_string())); c.accepts(sexp!((1 "s")), Pair(1, "s".into()));
    c.accepts(Value::vector(Vec::<Value>::new()), Vec::<u32>::new());
    c.rejects::<Vec<u32>>(sexp!((1 2 . 3))); c.rejects::<Vec<u32>>(sexp!((1 . 2))); c.rejects::<(u32, String)>(sexp!((42 "Answer" . 7)));
    c.rejects::<Pair>(sexp!((42 "Answer" . 7))); c.rejects::<E>(sexp!((T 42 "bye" . 7))); c.rejects::<[u8; 2]>(sexp!((1 2 . 3)));
    c.rejects::<BTreeSet<u8>>(sexp!((1 2 . 3))); c.rejects::<Vec<Vec<u32>>>(sexp!(((1 . 2))));
    c.rejects::<(u8, u8)>(Value::bytes(vec![1u8, 2])); c.rejects::<[u8; 3]>(Value::bytes(vec![1u8, 2, 3])); c.rejects::<Pair>(Value::bytes(vec![1u8, 2]));
    c.rejects::<Vec<(u16, u16)>>(Value::list(vec![Value::bytes(vec![1u8, 2])])); c.rejects::<(u8,)>(Value::bytes(vec![1u8]));
    c.rejects::<Vec<u32>>(Value::Nil); c.rejects::<BTreeSet<u8>>(Value::Nil); c.rejects::<(u32, u32)>(Value::Nil); c.rejects::<Pair>(Value::Nil);
    c.rejects::<BTreeMap<String, u8>>(Value::Nil); c.rejects::<Header>(Value::Nil); c.rejects::<String>(Value::Nil); c.rejects::<u8>(Value::Nil);
    c.rejects::<Vec<Vec<u32>>>(sexp!((#nil))); c.rejects::<E>(Value::Nil); c.rejects::<bool>(Value::Nil); c.rejects::<char>(Value::Nil);
    c.rejects::<()>(Value::Bool(false)); c.rejects::<()>(Value::Bool(true)); c.rejects::<()>(Value::from(0)); c.rejects::<()>(Value::string(""));
    c.rejects::<()>(Value::symbol("nil")); c.rejects::<Unit>(Value::Bool(false)); c.rejects::<Unit>(Value::from(0)); c.rejects::<()>(sexp!((())));
    c.accepts(Value::Nil, ()); c.accepts(Value::Null, ()); c.accepts(Value::Null, Unit);
    c.rejects::<Vec<u32>>(Value::Bool(false)); c.rejects::<Vec<u32>>(Value::keyword("k")); c.rejects::<Vec<u32>>(Value::from('c'));
    c.rejects::<Vec<u32>>(Value::from(1)); c.rejects::<Vec<u32>>(Value::string("s")); c.rejects::<Vec<u32>>(Value::symbol("s"));
    c.rejects::<(u32, u32)>(sexp!((1))); c.rejects::<(u32, String)>(Value::vector(vec![Value::from(1)]));
    c.rejects::<Pair>(Value::vector(Vec::<Value>::new())); c.rejects::<[u8; 3]>(Value::vector(vec![Value::from(1), Value::from(2)]));
    c.rejects::<Vec<(u32, u32)>>(Value::list(vec![Value::vector(vec![Value::from(1), Value::from(2)]), Value::vector(vec![Value::from(3)])]));
    c.rejects::<u8>(Value::from(256)); c.rejects::<u8>(Value::from(-1)); c.rejects::<u64>(Value::from(-1)); c.rejects::<i64>(Value::from(u64::MAX)); c.rejects::<u32>(Value::string("1"));
    c.rejects::<Header>(sexp!(((id . 7) (tag . "x") . 3))); c.rejects::<Header>(sexp!(((id . 7)))); c.rejects::<Header>(sexp!((id 7)));
    c.rejects::<BTreeMap<String, u8>>(sexp!((("a" . 1) . 2))); c.rejects::<BTreeMap<String, u8>>(sexp!((("a" . 1) 2)));
    c.rejects::<E>(sexp!((Z . 1))); c.rejects::<E>(sexp!(Z)); c.rejects::<E>(sexp!((T 1))); c.rejects::<E>(Value::from(1));
    c.accepts(sexp!(((id . 7) (payload 1 2 3) (tag . "x"))), Header { id: 7, tag: "x".into() });
    c.accepts(sexp!(((id . 7) (sym . foo) (kw . #:k) (nil . #nil) (tag . "x"))), Header { id: 7, tag: "x".into() });
    // ---- C18 totality + self consistency
    let corpus = value_corpus();
    for v in &corpus {
        c.total::<u8>(v); c.total::<u64>(v); c.total::<i64>(v); c.total::<f64>(v); c.total::<f32>(v); c.total::<Vec<f32>>(v); c.total::<Option<f32>>(v); c.total::<bool>(v); c.total::<char>(v); c.total::<String>(v); c.total::<()>(v);
        c.total::<Option<u8>>(v); c.total::<Option<Option<u8>>>(v); c.total::<Option<()>>(v); c.total::<Option<Vec<u8>>>(v); c.total::<Vec<u8>>(v); c.total::<Vec<Option<u8>>>(v);
        c.total::<Vec<Vec<u32>>>(v); c.total::<(u32,)>(v); c.total::<(u32, String)>(v); c.total::<(u32, u32, u32)>(v); c.total::<[u8; 3]>(v); c.total::<Vec<(u32, u32)>>(v);
        c.total::<BTreeMap<String, u8>>(v); c.total::<BTreeMap<char, u8>>(v); c.total::<BTreeMap<String, E>>(v); c.total::<BTreeSet<u8>>(v);
        c.total::<Unit>(v); c.total::<Newtype>(v); c.total::<NewtypeVec>(v); c.total::<Pair>(v); c.total::<Single>(v); c.total::<Point>(v); c.total::<Header>(v); c.total::<E>(v);
        c.total::<Vec<E>>(v); c.total::<Option<E>>(v); c.total::<Bytes>(v); c.total::<serde_bytes::ByteBuf>(v); c.total::<Big>(v);
    }
    (c.cases, c.bad)
}

/// C16 witness: a struct is read from an alist with an unknown field that holds an n-element list (skipped via IgnoredAny)
pub fn ignored_long(n: usize) -> usize {
    let payload = Value::list((0..n).map(|_| Value::from(1)).collect::<Vec<Value>>());
    let v = Value::list(vec![Value::cons(Value::symbol("id"), Value::from(7)), Value::cons(Value::symbol("payload"), payload),
                             Value::cons(Value::symbol("tag"), Value::string("x"))]);
    let h: Header = from_value(&v).unwrap();
    std::mem::forget(v);
    h.id as usize
}
