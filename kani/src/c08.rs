//! C08 — `Options::with_keyword_syntaxes`: the one option builder that is a std `fold` (outside the MIR executor's model).
use lexpr::parse::{Brackets, CharSyntax, KeywordSyntax, NilSymbol, Options, StringSyntax, TSymbol};

fn syntax_of(k: u8) -> KeywordSyntax {
    match k {
        0 => KeywordSyntax::Octothorpe,
        1 => KeywordSyntax::ColonPrefix,
        _ => KeywordSyntax::ColonPostfix,
    }
}

fn base_of(k: u8) -> Options {
    match k {
        0 => Options::new(),
        1 => Options::default(),
        2 => Options::elisp(),
        3 => Options::new().with_keyword_syntax(KeywordSyntax::ColonPostfix),
        _ => Options::new()
            .with_keyword_syntax(KeywordSyntax::ColonPostfix)
            .with_keyword_syntax(KeywordSyntax::ColonPrefix)
            .with_keyword_syntax(KeywordSyntax::Octothorpe),
    }
}

/// `with_keyword_syntaxes(list)` REPLACES the enabled set by exactly the listed syntaxes (any order, repetitions, empty list)
/// whatever was enabled before, and touches no other option; `with_keyword_syntax(s)` afterwards adds s and nothing else.
/// @bound every list of 0-3 keyword syntaxes (40 lists) x 5 starting option sets (new, default, elisp, one enabled, all enabled) x one further with_keyword_syntax
/// @encodes Options::with_keyword_syntaxes, Options::with_keyword_syntax, Options::keyword_syntax, KeywordSyntax::to_flag, Options::new, Options::default, Options::elisp
#[kani::proof]
#[kani::unwind(5)]
fn c08_keyword_syntaxes() {
    let b: u8 = kani::any();
    kani::assume(b <= 4);
    let base = base_of(b);
    let len: usize = kani::any();
    kani::assume(len <= 3);
    let ks: [u8; 3] = kani::any();
    kani::assume(ks[0] <= 2 && ks[1] <= 2 && ks[2] <= 2);
    let list = [syntax_of(ks[0]), syntax_of(ks[1]), syntax_of(ks[2])];
    let o = base.with_keyword_syntaxes(list[..len].iter());
    let o2 = base.with_keyword_syntaxes(list[..len].iter().copied());
    let mut q = 0u8;
    while q <= 2 {
        let mut listed = false;
        let mut i = 0;
        while i < len {
            if ks[i] == q {
                listed = true;
            }
            i += 1;
        }
        assert!(o.keyword_syntax(syntax_of(q)) == listed);
        assert!(o2.keyword_syntax(syntax_of(q)) == listed);
        q += 1;
    }
    // nothing else changes
    assert!(o.nil_symbol() == base.nil_symbol());
    assert!(o.t_symbol() == base.t_symbol());
    assert!(o.brackets() == base.brackets());
    assert!(o.string_syntax() == base.string_syntax());
    assert!(o.char_syntax() == base.char_syntax());
    assert!(o.racket_hash_percent_symbols() == base.racket_hash_percent_symbols());
    assert!(o.leading_digit_symbols() == base.leading_digit_symbols());
    // adding one more afterwards: that one and the listed ones, nothing else
    let extra: u8 = kani::any();
    kani::assume(extra <= 2);
    let o3 = o.with_keyword_syntax(syntax_of(extra));
    let mut q = 0u8;
    while q <= 2 {
        assert!(o3.keyword_syntax(syntax_of(q)) == (o.keyword_syntax(syntax_of(q)) || q == extra));
        q += 1;
    }
    kani::cover!(len == 0 && b == 4);
    kani::cover!(len == 3 && ks[0] == ks[2] && ks[1] != ks[0]);
    let _ = (NilSymbol::Default, TSymbol::Default, Brackets::List, StringSyntax::R6RS, CharSyntax::R6RS);
}
