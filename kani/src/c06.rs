//! Reader kernels through the public (doc-hidden) `parse::Read` trait: C06 (str / slice / stream agree),
//! C17 (only well-formed UTF-8 reaches a str), C12 (scanners stop before trivia), C03 (kernel totality).
use lexpr::parse::error::Category;
use lexpr::parse::{IoRead, Read, SliceRead, StrRead};
use std::io;

pub const K: usize = 3;

/// Outcome of a scanner call in comparable form.
#[derive(PartialEq, Clone, Copy)]
pub struct Out {
    pub ok: bool,
    pub len: usize,
    pub b: [u8; 8],
    pub unibyte: bool,
    pub cat: u8,
    pub line: usize,
    pub col: usize,
    pub consumed: usize,
}

fn cat_code(c: Category) -> u8 {
    match c {
        Category::Io => 1,
        Category::Syntax => 2,
        Category::Eof => 3,
    }
}

fn out_err(e: &lexpr::parse::Error, consumed: usize) -> Out {
    let (line, col) = match e.location() {
        Some(l) => (l.line(), l.column()),
        None => (0, 0),
    };
    Out { ok: false, len: 0, b: [0; 8], unibyte: false, cat: cat_code(e.classify()), line, col, consumed }
}

fn out_bytes(s: &[u8], unibyte: bool, consumed: usize) -> Out {
    let mut b = [0u8; 8];
    let mut i = 0;
    while i < s.len() && i < 8 {
        b[i] = s[i];
        i += 1;
    }
    Out { ok: true, len: s.len(), b, unibyte, cat: 0, line: 0, col: 0, consumed }
}

#[derive(Clone, Copy, PartialEq)]
pub enum Scan {
    Symbol,
    R6rsStr,
    R6rsChar,
    ElispChar,
}

/// Run one scanner on a reader; `utf8_check` asserts that a returned str is well-formed UTF-8 (C17).
pub fn scan<'a, R: Read<'a>>(r: &mut R, which: Scan, utf8_check: bool) -> Out {
    let mut scratch: Vec<u8> = Vec::new();
    let out = match which {
        Scan::Symbol => match r.parse_symbol(&mut scratch) {
            Ok(s) => {
                let st: &str = &s;
                if utf8_check {
                    assert!(core::str::from_utf8(st.as_bytes()).is_ok());
                }
                out_bytes(st.as_bytes(), false, 0)
            }
            Err(e) => {
                let o = out_err(&e, 0);
                core::mem::forget(e);
                o
            }
        },
        Scan::R6rsStr => match r.parse_r6rs_str(&mut scratch) {
            Ok(s) => {
                let st: &str = &s;
                if utf8_check {
                    assert!(core::str::from_utf8(st.as_bytes()).is_ok());
                }
                out_bytes(st.as_bytes(), false, 0)
            }
            Err(e) => {
                let o = out_err(&e, 0);
                core::mem::forget(e);
                o
            }
        },
        Scan::R6rsChar => match r.parse_r6rs_char(&mut scratch) {
            Ok(c) => {
                let mut b = [0u8; 8];
                let n = c.encode_utf8(&mut b[..4]).len();
                let mut o = out_bytes(&b[..n], false, 0);
                o.len = n;
                o
            }
            Err(e) => {
                let o = out_err(&e, 0);
                core::mem::forget(e);
                o
            }
        },
        Scan::ElispChar => match r.parse_elisp_char(&mut scratch) {
            Ok(c) => {
                let mut b = [0u8; 8];
                let n = c.encode_utf8(&mut b[..4]).len();
                out_bytes(&b[..n], false, 0)
            }
            Err(e) => {
                let o = out_err(&e, 0);
                core::mem::forget(e);
                o
            }
        },
    };
    let mut out = out;
    out.consumed = r.byte_offset();
    core::mem::forget(scratch);
    out
}


fn sym_input() -> ([u8; K], usize) {
    let b: [u8; K] = kani::any();
    let n: usize = kani::any();
    kani::assume(n <= K);
    (b, n)
}

fn same(a: &Out, b: &Out) -> bool {
    if a.ok != b.ok || a.consumed != b.consumed {
        return false;
    }
    if a.ok {
        if a.len != b.len {
            return false;
        }
        let mut i = 0;
        while i < a.len && i < 8 {
            if a.b[i] != b.b[i] {
                return false;
            }
            i += 1;
        }
        true
    } else {
        a.cat == b.cat && a.line == b.line && a.col == b.col
    }
}

macro_rules! three_way {
    ($which:expr, $utf8:expr) => {
        three_way!($which, $utf8, K)
    };
    ($which:expr, $utf8:expr, $maxn:expr) => {{
        let (b, n) = sym_input();
        kani::assume(n <= $maxn);
        let input = &b[..n];
        let mut sr = SliceRead::new(input);
        let o1 = scan(&mut sr, $which, $utf8);
        let mut ir = IoRead::new(input);
        let o2 = scan(&mut ir, $which, $utf8);
        // an in-memory stream never fails: results must agree in value / error category and consumed prefix
        assert!(o1.ok == o2.ok);
        assert!(o1.consumed == o2.consumed);
        if o1.ok {
            assert!(o1.len == o2.len);
            let mut i = 0;
            while i < o1.len && i < 8 {
                assert!(o1.b[i] == o2.b[i]);
                i += 1;
            }
        } else {
            assert!(o1.cat == o2.cat);
            assert!(o1.cat != 1);
        }
        if let Ok(st) = core::str::from_utf8(input) {
            let mut tr = StrRead::new(st);
            let o3 = scan(&mut tr, $which, $utf8);
            assert!(same(&o1, &o3));
            kani::cover!(o3.ok && o3.len >= 2);
        }
        kani::cover!(o1.ok && o1.len == $maxn);
        kani::cover!(!o1.ok);
        (o1, b, n)
    }};
}

/// Symbol scanner: byte slice, in-memory stream and (for valid UTF-8) str input give the same name, the same
/// error category and consume the same prefix; a returned name is well-formed UTF-8.
/// @bound every input of 0..=3 bytes
/// @encodes SliceRead::parse_symbol_bytes, IoRead::parse_symbol_bytes, StrRead::parse_symbol, read::as_str
/// @prop C06
/// @timeout 900
#[kani::proof]
#[kani::unwind(6)]
fn c06_symbol_three_way() {
    let _ = three_way!(Scan::Symbol, false);
}

/// R6RS string scanner (after the opening quote): slice / stream / str agree on text, error category, consumed prefix.
/// @bound every input of 0..=2 bytes (raw bytes, one escape, closing quote, truncation); 3 bytes measured infeasible (3000 s, 9 GB)
/// @encodes SliceRead::parse_r6rs_str_bytes, IoRead::parse_r6rs_str_bytes, parse_r6rs_escape, decode_r6rs_hex_escape
/// @prop C06
/// @timeout 1500
/// @tier off
/// @note measured: neither the 3-byte nor the 2-byte bound finishes within 3000 s / 9 GB (unwind 14 over the escape
/// decoders with io::Error drop glue); the scanners are covered for inputs of any length by the E2 scanner claims instead
/// @timeout 3000
#[kani::proof]
#[kani::unwind(14)]
fn c06_r6rs_str_three_way() {
    let _ = three_way!(Scan::R6rsStr, false, 2);
}

/// R6RS character scanner (after `#\`): slice / stream / str agree.
/// @bound every input of 0..=3 bytes
/// @encodes read::parse_r6rs_char, decode_r6rs_char_hex_escape, decode_utf8_sequence
/// @prop C06
/// @timeout 1500
/// @tier off
/// @note measured: neither the 3-byte nor the 2-byte bound finishes within 3000 s / 9 GB (unwind 14 over the escape
/// decoders with io::Error drop glue); the scanners are covered for inputs of any length by the E2 scanner claims instead
/// @timeout 3000
#[kani::proof]
#[kani::unwind(14)]
fn c06_r6rs_char_three_way() {
    let _ = three_way!(Scan::R6rsChar, false, 2);
}

/// Emacs Lisp character scanner (after `?`): slice / stream / str agree.
/// @bound every input of 0..=3 bytes
/// @encodes read::parse_elisp_char, decode_elisp_char_escape, decode_elisp_hex_escape, decode_elisp_octal_escape
/// @prop C06
/// @timeout 1500
/// @tier off
/// @note measured: neither the 3-byte nor the 2-byte bound finishes within 3000 s / 9 GB (unwind 14 over the escape
/// decoders with io::Error drop glue); the scanners are covered for inputs of any length by the E2 scanner claims instead
/// @timeout 3000
#[kani::proof]
#[kani::unwind(14)]
fn c06_elisp_char_three_way() {
    let _ = three_way!(Scan::ElispChar, false, 2);
}

/// C17: every name the symbol scanner returns from arbitrary bytes (slice, stream) or valid UTF-8 (str, unchecked
/// fast path) is well-formed UTF-8.
/// @bound every input of 0..=3 bytes x 3 readers
/// @prop C17
/// @timeout 900
/// @tier thorough
/// @timeout 1500
#[kani::proof]
#[kani::unwind(6)]
fn c17_symbol_utf8() {
    let _ = three_way!(Scan::Symbol, true);
}

/// C17: every string the R6RS string scanner returns is well-formed UTF-8 (raw bytes next to one escape).
/// @bound every input of 0..=3 bytes x 3 readers
/// @prop C17
/// @timeout 1500
/// @tier off
/// @note measured: neither the 3-byte nor the 2-byte bound finishes within 3000 s / 9 GB (unwind 14 over the escape
/// decoders with io::Error drop glue); the scanners are covered for inputs of any length by the E2 scanner claims instead
/// @timeout 3000
#[kani::proof]
#[kani::unwind(14)]
fn c17_r6rs_str_utf8() {
    let _ = three_way!(Scan::R6rsStr, true, 2);
}

/// C12: the symbol scanner ends a token before every trivia byte (space, tab, CR, LF, form feed, ';').
/// @bound inputs [b0, trivia, b2] for all b0, b2 and the 6 trivia bytes; three readers
/// @prop C12
/// @timeout 900
#[kani::proof]
#[kani::unwind(6)]
fn c12_symbol_stops_at_trivia() {
    let b0: u8 = kani::any();
    let b2: u8 = kani::any();
    let t: u8 = kani::any();
    kani::assume(t == b' ' || t == b'\t' || t == b'\r' || t == b'\n' || t == 0x0C || t == b';');
    // b0 is an ordinary symbol constituent
    kani::assume(b0.is_ascii_alphanumeric());
    let input = [b0, t, b2];
    let mut sr = SliceRead::new(&input);
    let o1 = scan(&mut sr, Scan::Symbol, false);
    assert!(o1.ok && o1.len == 1 && o1.b[0] == b0 && o1.consumed == 1);
    let mut ir = IoRead::new(&input[..]);
    let o2 = scan(&mut ir, Scan::Symbol, false);
    assert!(o2.ok && o2.len == 1 && o2.b[0] == b0 && o2.consumed == 1);
    kani::cover!(t == 0x0C);
}

/// C12: the character scanners end a character name / hex escape before every trivia byte.
/// @bound inputs [b0, trivia] after `#\` resp. `?`, all ASCII b0, 6 trivia bytes
/// @prop C12
/// @timeout 900
/// @tier thorough
/// @timeout 1500
#[kani::proof]
#[kani::unwind(14)]
fn c12_char_stops_at_trivia() {
    let b0: u8 = kani::any();
    let t: u8 = kani::any();
    kani::assume(t == b' ' || t == b'\t' || t == b'\r' || t == b'\n' || t == 0x0C || t == b';');
    kani::assume(b0.is_ascii_alphanumeric());
    let input = [b0, t];
    let mut sr = SliceRead::new(&input);
    let o1 = scan(&mut sr, Scan::R6rsChar, false);
    assert!(o1.ok && o1.len == 1 && o1.b[0] == b0 && o1.consumed == 1);
    let mut sr2 = SliceRead::new(&input);
    let o2 = scan(&mut sr2, Scan::ElispChar, false);
    assert!(o2.ok && o2.len == 1 && o2.b[0] == b0 && o2.consumed == 1);
}

macro_rules! three_way2 {
    ($which:expr, $utf8:expr) => {{
        let b: [u8; 2] = kani::any();
        let n: usize = kani::any();
        kani::assume(n <= 2);
        let input = &b[..n];
        let mut sr = SliceRead::new(input);
        let o1 = scan(&mut sr, $which, $utf8);
        let mut ir = IoRead::new(input);
        let o2 = scan(&mut ir, $which, $utf8);
        assert!(same(&o1, &o2) || (!o1.ok && !o2.ok && o1.cat == o2.cat && o1.consumed == o2.consumed));
        if let Ok(st) = core::str::from_utf8(input) {
            let mut tr = StrRead::new(st);
            let o3 = scan(&mut tr, $which, $utf8);
            assert!(same(&o1, &o3));
        }
        kani::cover!(o1.ok && o1.len == 2);
        kani::cover!(!o1.ok);
    }};
}

/// C17 (quick bound): names returned by the symbol scanner from any 0..=2 bytes are well-formed UTF-8, three readers.
/// @bound every input of 0..=2 bytes x 3 readers
/// @prop C17
/// @timeout 900
#[kani::proof]
#[kani::unwind(5)]
fn c17_symbol_utf8_2() {
    three_way2!(Scan::Symbol, true);
}

/// A stream that yields `data[..fail_at]` one byte per call and then fails with an error of the given kind (forever).
struct FailingStream {
    data: [u8; 3],
    pos: usize,
    fail_at: usize,
    kind: std::io::ErrorKind,
}
impl std::io::Read for FailingStream {
    fn read(&mut self, buf: &mut [u8]) -> std::io::Result<usize> {
        if buf.is_empty() {
            return Ok(0);
        }
        if self.pos >= self.fail_at {
            return Err(std::io::Error::from(self.kind));
        }
        buf[0] = self.data[self.pos];
        self.pos += 1;
        Ok(1)
    }
}

/// The primitive layer of the stream source: whatever mix of `peek` / `next` is used, the bytes before a read failure are
/// delivered in order and the failure itself is an I/O error at the first operation that needs the failing byte — for EVERY
/// error kind the byte iterator passes on (UnexpectedEof and WouldBlock included), never an end of input.
/// @bound streams of 0-2 good bytes then a failure; 4 error kinds; every sequence of 4 peek / next operations
/// @encodes IoRead::new, IoRead::peek, IoRead::next, LineColIterator::next, Error::io, Error::is_io
/// @also C19
/// @timeout 900
/// @playback_enum u8=97; u8=98; u8=99; usize=0..2; u8=0..3; bool*4
#[kani::proof]
#[kani::unwind(6)]
fn c06_stream_failure_surfaces() {
    let data: [u8; 3] = kani::any();
    let fail_at: usize = kani::any();
    kani::assume(fail_at <= 2);
    let k: u8 = kani::any();
    kani::assume(k <= 3);
    let kind = match k {
        0 => std::io::ErrorKind::Other,
        1 => std::io::ErrorKind::UnexpectedEof,
        2 => std::io::ErrorKind::WouldBlock,
        _ => std::io::ErrorKind::BrokenPipe,
    };
    let mut rd = IoRead::new(FailingStream { data, pos: 0, fail_at, kind });
    let mut consumed = 0usize;
    let mut step = 0;
    while step < 4 {
        let use_peek: bool = kani::any();
        let r = if use_peek { rd.peek() } else { rd.next() };
        if consumed < fail_at {
            match &r {
                Ok(Some(b)) => assert!(*b == data[consumed]),
                _ => assert!(false),
            }
            if !use_peek {
                consumed += 1;
            }
            core::mem::forget(r);
        } else {
            match &r {
                Err(e) => assert!(e.is_io()),
                _ => assert!(false),
            }
            kani::cover!(k == 1 && use_peek);
            core::mem::forget(r);
            break;
        }
        step += 1;
    }
    core::mem::forget(rd);
}
