//! C15 — list construction, traversal, conversion, indexing on directly constructed chains.
use lexpr::{Cons, Value};

pub const MAXLEN: usize = 4;

/// tail kinds: 0 Null, 1 Nil, 2 number, 3 bool, 4 char, 5 empty vector, 6 one-element vector
pub fn mk_tail(kind: u8, payload: u64) -> Value {
    match kind {
        0 => Value::Null,
        1 => Value::Nil,
        2 => Value::from(payload),
        3 => Value::Bool(payload & 1 == 1),
        4 => Value::Char(if payload & 1 == 1 { 'x' } else { '\u{3bb}' }),
        5 => Value::Vector(Vec::new().into_boxed_slice()),
        _ => Value::Vector(vec![Value::from(payload)].into_boxed_slice()),
    }
}

pub fn tail_matches(v: &Value, kind: u8, payload: u64) -> bool {
    match kind {
        0 => v.is_null(),
        1 => v.is_nil(),
        2 => v.as_u64() == Some(payload),
        3 => v.as_bool() == Some(payload & 1 == 1),
        4 => v.as_char() == Some(if payload & 1 == 1 { 'x' } else { '\u{3bb}' }),
        5 => v.as_slice().map_or(false, |s| s.is_empty()),
        _ => v.as_slice().map_or(false, |s| s.len() == 1 && s[0].as_u64() == Some(payload)),
    }
}

/// Build xs[0..len] ++ tail directly from Cons::new (no Value::list / append).
pub fn chain(xs: &[i64; MAXLEN], len: usize, tail: Value) -> Value {
    let mut v = tail;
    let mut i = len;
    while i > 0 {
        i -= 1;
        v = Value::Cons(Cons::new(Value::from(xs[i]), v));
    }
    v
}

fn sym_chain() -> ([i64; MAXLEN], usize, u8, u64, Value) {
    let xs: [i64; MAXLEN] = kani::any();
    let len: usize = kani::any();
    kani::assume(len <= MAXLEN);
    let kind: u8 = kani::any();
    kani::assume(kind <= 6);
    let payload: u64 = kani::any();
    let v = chain(&xs, len, mk_tail(kind, payload));
    (xs, len, kind, payload, v)
}

/// Element iterator: yields xs in order, then for a tail other than the empty list None, t, None; for a proper
/// list just None. Cell iteration visits exactly |xs| cells. list_iter is None exactly for non-list atoms.
/// @bound chains of 0..=4 cells, symbolic i64 payloads, 7 tail kinds with symbolic payload
/// @encodes cons::ListIter::next, cons::Iter::next, Value::list_iter, Cons::list_iter
#[kani::proof]
#[kani::unwind(7)]
fn c15_list_iter() {
    let (xs, len, kind, payload, v) = sym_chain();
    match v.list_iter() {
        None => assert!(len == 0 && kind != 0),
        Some(mut it) => {
            assert!(len > 0 || kind == 0);
            let mut i = 0;
            while i < len {
                assert!(!it.is_empty());
                let p = it.peek();
                assert!(p.is_some() && p.unwrap().as_i64() == Some(xs[i]));
                let e = it.next();
                assert!(e.is_some() && e.unwrap().as_i64() == Some(xs[i]));
                i += 1;
            }
            if kind == 0 {
                assert!(it.is_empty());
                assert!(it.next().is_none());
                assert!(it.next().is_none());
            } else {
                assert!(it.peek().is_none());
                assert!(it.next().is_none());
                let t = it.next();
                assert!(t.is_some() && tail_matches(t.unwrap(), kind, payload));
                assert!(it.next().is_none());
                assert!(it.is_empty());
            }
        }
    }
    if let Some(c) = v.as_cons() {
        let mut n = 0;
        for cell in c.iter() {
            assert!(cell.car().as_i64() == Some(xs[n]));
            n += 1;
        }
        assert!(n == len);
        kani::cover!(n == MAXLEN && kind == 4);
    }
    kani::cover!(len == 0 && kind == 0);
    kani::cover!(len == 3 && kind == 6);
    core::mem::forget(v);
}

/// Positional indexing: get(i) and v[i] give xs[i] for i < |xs| and None / nil beyond, for every usize index
/// (usize::MAX included); never panics; the tail is never returned as an element.
/// @bound chains of 0..=4 cells, 7 tail kinds, index over the full usize range
/// @encodes value::index::<impl Index for usize>::index_into, <Value as ops::Index>::index
#[kani::proof]
#[kani::unwind(7)]
fn c15_get_index() {
    let (xs, len, kind, payload, v) = sym_chain();
    let i: usize = kani::any();
    let g = v.get(i);
    let ix = &v[i];
    if len == 0 {
        // atom / Null / vector target
        if kind == 6 && i == 0 {
            assert!(g.is_some() && g.unwrap().as_u64() == Some(payload));
        } else {
            assert!(g.is_none());
            assert!(ix.is_nil());
        }
    } else if i < len {
        assert!(g.is_some() && g.unwrap().as_i64() == Some(xs[i]));
        assert!(ix.as_i64() == Some(xs[i]));
    } else {
        assert!(g.is_none());
        assert!(ix.is_nil());
    }
    kani::cover!(i == usize::MAX && len == MAXLEN);
    kani::cover!(len == 2 && i == 1);
    kani::cover!(len == 2 && i == 2 && kind == 2);
    core::mem::forget(v);
}

/// By-reference vector conversions return exactly (xs, t); Value::to_ref_vec is Some(xs) exactly
/// for proper lists; the proper-list and dotted-list predicates are complementary and match the shape.
/// @bound chains of 0..=4 cells, 7 tail kinds
/// @encodes Cons::to_ref_vec, Value::to_ref_vec, Value::is_list, Value::is_dotted_list
#[kani::proof]
#[kani::unwind(7)]
fn c15_to_vecs() {
    let (xs, len, kind, payload, v) = sym_chain();
    assert!(v.is_list() != v.is_dotted_list());
    assert!(v.is_list() == (kind == 0));
    if let Some(c) = v.as_cons() {
        let (rv, rt) = c.to_ref_vec();
        assert!(rv.len() == len);
        let mut i = 0;
        while i < len {
            assert!(rv[i].as_i64() == Some(xs[i]));
            i += 1;
        }
        assert!(tail_matches(rt, kind, payload));
        core::mem::forget(rv);
    }
    let r = v.to_ref_vec();
    assert!(r.is_some() == (kind == 0));
    if let Some(r) = r {
        assert!(r.len() == len);
        let mut i = 0;
        while i < len {
            assert!(r[i].as_i64() == Some(xs[i]));
            i += 1;
        }
        core::mem::forget(r);
    }
    kani::cover!(len == MAXLEN && kind == 0);
    kani::cover!(len == 2 && kind == 3);
    core::mem::forget(v);
}

fn key_value(kind: u8, b: u8) -> Value {
    let s = [b];
    let st = core::str::from_utf8(&s).unwrap();
    match kind {
        0 => Value::string(st),
        1 => Value::symbol(st),
        2 => Value::keyword(st),
        _ => Value::from(b as u64),
    }
}

/// Association-list lookup by name: the cdr of the FIRST entry whose key (string, symbol or keyword) has that name;
/// non-pair entries and non-name keys are skipped; None / nil when absent; v["k"], v[String], get(&str) agree.
/// @bound alists of 0..=3 entries; each entry a non-pair atom or a pair with a 1-byte key of symbolic kind
///        (string/symbol/keyword/number) and symbolic byte; symbolic 1-byte lookup name; duplicates included
/// @encodes value::index::<impl Index for str>::index_into, match_pair_name
#[kani::proof]
#[kani::unwind(6)]
fn c15_alist_name() {
    let n: usize = kani::any();
    kani::assume(n <= 3);
    let kinds: [u8; 3] = kani::any();
    let keys: [u8; 3] = kani::any();
    let vals: [i64; 3] = kani::any();
    let mut i = 0;
    while i < 3 {
        kani::assume(kinds[i] <= 4 && keys[i] >= b'a' && keys[i] <= b'c');
        i += 1;
    }
    let tkind: u8 = kani::any();
    kani::assume(tkind <= 2); // Null, Nil, number tail
    let mut v = mk_tail(tkind, 7);
    let mut i = n;
    while i > 0 {
        i -= 1;
        let entry = if kinds[i] == 4 {
            Value::from(vals[i]) // non-pair entry
        } else {
            Value::Cons(Cons::new(key_value(kinds[i], keys[i]), Value::from(vals[i])))
        };
        v = Value::Cons(Cons::new(entry, v));
    }
    let q: u8 = kani::any();
    kani::assume(q >= b'a' && q <= b'c');
    let qs = [q];
    let name = core::str::from_utf8(&qs).unwrap();
    // spec
    let mut exp: Option<i64> = None;
    let mut i = 0;
    while i < n {
        if exp.is_none() && kinds[i] <= 2 && keys[i] == q {
            exp = Some(vals[i]);
        }
        i += 1;
    }
    let got = v.get(name);
    match exp {
        Some(e) => assert!(got.is_some() && got.unwrap().as_i64() == Some(e)),
        None => assert!(got.is_none()),
    }
    let ix = &v[name];
    match exp {
        Some(e) => assert!(ix.as_i64() == Some(e)),
        None => assert!(ix.is_nil()),
    }
    kani::cover!(n == 3 && exp.is_some() && kinds[0] == 4);
    kani::cover!(n == 3 && keys[0] == keys[1] && kinds[0] == 1 && kinds[1] == 2 && exp == Some(vals[0]) && vals[0] != vals[1]);
    kani::cover!(n == 2 && exp.is_none());
    core::mem::forget(v);
}

/// Indexing never panics and yields None / nil on every non-list kind, for every usize, name and value key.
/// @bound all 11 kinds as targets (atoms with symbolic payload), index over full usize, 1-byte names
/// @encodes value::index (all impls), <Value as ops::Index>::index
#[kani::proof]
#[kani::unwind(4)]
fn c15_index_nonlist() {
    let k: u8 = kani::any();
    kani::assume(k <= 8);
    let p: u64 = kani::any();
    let v = match k {
        0 => Value::Nil,
        1 => Value::Null,
        2 => Value::Bool(p & 1 == 0),
        3 => Value::from(p),
        4 => Value::Char('q'),
        5 => Value::string("a"),
        6 => Value::symbol("a"),
        7 => Value::keyword("a"),
        _ => Value::bytes(vec![1u8, 2]),
    };
    let i: usize = kani::any();
    assert!(v.get(i).is_none() && v[i].is_nil());
    assert!(v.get("a").is_none() && v["a"].is_nil());
    let key = Value::symbol("a");
    assert!(v.get(&key).is_none() && v[&key].is_nil());
    // vector target: positional only
    let vec = Value::Vector(vec![Value::from(p), Value::Nil].into_boxed_slice());
    match vec.get(i) {
        Some(e) => { assert!(i < 2); if i == 0 { assert!(e.as_u64() == Some(p)); } else { assert!(e.is_nil()); } }
        None => assert!(i >= 2),
    }
    assert!(vec.get("a").is_none());
    kani::cover!(k == 8 && i == usize::MAX);
    core::mem::forget(v); core::mem::forget(key); core::mem::forget(vec);
}
