//! C11 / C19 — the position layer: SliceRead, StrRead and IoRead report line / column / byte offset as specified
//! (1-based line, 0-based byte column), identically, and always inside the input.
use lexpr::parse::{IoRead, Read, SliceRead, StrRead};

pub const N: usize = 5;

/// spec: position after consuming k bytes of buf
fn spec_pos(buf: &[u8], k: usize) -> (usize, usize) {
    let mut line = 1;
    let mut col = 0;
    let mut i = 0;
    while i < k {
        if buf[i] == b'\n' {
            line += 1;
            col = 0;
        } else {
            col += 1;
        }
        i += 1;
    }
    (line, col)
}

fn line_len(buf: &[u8], n: usize, line: usize) -> usize {
    // number of bytes (excluding LF) of the 1-based line `line`; 0 for lines past the end
    let mut cur = 1;
    let mut len = 0;
    let mut i = 0;
    while i < n {
        if buf[i] == b'\n' {
            if cur == line {
                return len;
            }
            cur += 1;
            len = 0;
        } else if cur == line {
            len += 1;
        }
        i += 1;
    }
    if cur == line { len } else { 0 }
}

fn count_lines(buf: &[u8], n: usize) -> usize {
    let mut l = 1;
    let mut i = 0;
    while i < n {
        if buf[i] == b'\n' {
            l += 1;
        }
        i += 1;
    }
    l
}

fn advance<'a, R: Read<'a>>(r: &mut R, k: usize) {
    let mut i = 0;
    while i < k {
        let x = r.next();
        assert!(matches!(x, Ok(Some(_))));
        core::mem::forget(x);
        i += 1;
    }
}

/// With nothing peeked, all three readers report position() == spec (1-based line, 0-based byte column counted
/// from the last LF) and byte_offset() == number of bytes consumed. These are the calls next_datum makes for the
/// END of a datum that runs to the end of input.
/// @bound every buffer of 0..=5 bytes, every consumed count k <= len
/// @encodes SliceRead::position_of_index, IoRead::position, LineColIterator::next, byte_offset
/// @prop C11
#[kani::proof]
#[kani::unwind(8)]
fn c11_position_unpeeked() {
    let buf: [u8; N] = kani::any();
    let n: usize = kani::any();
    kani::assume(n <= N);
    let k: usize = kani::any();
    kani::assume(k <= n);
    let (sl, sc) = spec_pos(&buf, k);
    let mut s = SliceRead::new(&buf[..n]);
    advance(&mut s, k);
    let p = s.position();
    assert!(p.line() == sl && p.column() == sc);
    assert!(s.byte_offset() == k);
    let mut io = IoRead::new(&buf[..n]);
    advance(&mut io, k);
    let q = io.position();
    assert!(q.line() == sl && q.column() == sc);
    assert!(io.byte_offset() == k);
    kani::cover!(k == N && sl == 3);
}

/// After a peek (the state in which next_datum records the START of a datum and the END of a datum that is
/// followed by more input) all readers still report the position of the first unconsumed byte: str/slice and
/// io::Read input must give the same spans.
/// @bound every buffer of 0..=5 bytes, every consumed count k <= len, one peek
/// @encodes SliceRead::position, IoRead::position with a buffered byte, IoRead::byte_offset
/// @prop C11
#[kani::proof]
#[kani::unwind(8)]
fn c11_position_peeked() {
    let buf: [u8; N] = kani::any();
    let n: usize = kani::any();
    kani::assume(n <= N);
    let k: usize = kani::any();
    kani::assume(k <= n);
    let (sl, sc) = spec_pos(&buf, k);
    let mut s = SliceRead::new(&buf[..n]);
    advance(&mut s, k);
    let pk = s.peek();
    core::mem::forget(pk);
    let p = s.position();
    assert!(p.line() == sl && p.column() == sc);
    assert!(s.byte_offset() == k);
    let mut io = IoRead::new(&buf[..n]);
    advance(&mut io, k);
    let pk2 = io.peek();
    core::mem::forget(pk2);
    assert!(io.byte_offset() == k);
    let q = io.position();
    assert!(q.line() == sl && q.column() == sc);
    kani::cover!(k < n);
    kani::cover!(k == n);
}

/// str input reports the same positions as slice input.
/// @bound every valid-UTF-8 buffer of 0..=5 bytes, every k on a char boundary or not
/// @prop C11
#[kani::proof]
#[kani::unwind(8)]
fn c11_position_str_eq_slice() {
    let buf: [u8; N] = kani::any();
    let n: usize = kani::any();
    kani::assume(n <= N);
    let k: usize = kani::any();
    kani::assume(k <= n);
    if let Ok(st) = core::str::from_utf8(&buf[..n]) {
        let mut a = StrRead::new(st);
        let mut b = SliceRead::new(&buf[..n]);
        advance(&mut a, k);
        advance(&mut b, k);
        let peek: bool = kani::any();
        if peek {
            let x = a.peek();
            core::mem::forget(x);
            let y = b.peek();
            core::mem::forget(y);
        }
        let (p, q) = (a.position(), b.position());
        assert!(p.line() == q.line() && p.column() == q.column());
        let (p, q) = (a.peek_position(), b.peek_position());
        assert!(p.line() == q.line() && p.column() == q.column());
        assert!(a.byte_offset() == b.byte_offset());
        kani::cover!(k == 3 && n == 5);
    }
}

/// C19 location clause: whatever position a reader reports (position() or peek_position(), with or without a
/// buffered byte), the line is within 1..=lines+1 and the column does not exceed the length of that line + 1.
/// @bound every buffer of 0..=5 bytes, every consumed count, optional peek; slice and stream readers
/// @encodes SliceRead::peek_position, SliceRead::position, IoRead::position, IoRead::peek_position
/// @prop C19
#[kani::proof]
#[kani::unwind(8)]
fn c19_location_in_bounds() {
    let buf: [u8; N] = kani::any();
    let n: usize = kani::any();
    kani::assume(n <= N);
    let k: usize = kani::any();
    kani::assume(k <= n);
    let peek: bool = kani::any();
    let lines = count_lines(&buf, n);
    let mut s = SliceRead::new(&buf[..n]);
    advance(&mut s, k);
    if peek {
        let x = s.peek();
        core::mem::forget(x);
    }
    let p = s.position();
    assert!(p.line() >= 1 && p.line() <= lines + 1);
    assert!(p.column() <= line_len(&buf, n, p.line()) + 1);
    let p = s.peek_position();
    assert!(p.line() >= 1 && p.line() <= lines + 1);
    assert!(p.column() <= line_len(&buf, n, p.line()) + 1);
    let mut io = IoRead::new(&buf[..n]);
    advance(&mut io, k);
    if peek {
        let x = io.peek();
        core::mem::forget(x);
    }
    let q = io.position();
    assert!(q.line() >= 1 && q.line() <= lines + 1);
    assert!(q.column() <= line_len(&buf, n, q.line()) + 1);
    let q = io.peek_position();
    assert!(q.line() >= 1 && q.line() <= lines + 1);
    assert!(q.column() <= line_len(&buf, n, q.line()) + 1);
    kani::cover!(peek && k < n && lines == 3);
}

/// Position queries are pure: asked in any order and any number of times they give the same answers and never panic - a
/// parser that reported an error about the peeked byte (peek_position) is asked for the current position (position) by the
/// next call, i.e. for a SMALLER index than before.
/// @bound every buffer of 0..=5 bytes, every consumed count, optional peek; queries in both orders, repeated; slice and stream readers
/// @encodes SliceRead::position, SliceRead::peek_position, SliceRead::position_of_index, IoRead::position, IoRead::peek_position
/// @prop C11
/// @also C03 C19
#[kani::proof]
#[kani::unwind(8)]
fn c11_position_query_order() {
    let buf: [u8; N] = kani::any();
    let n: usize = kani::any();
    kani::assume(n <= N);
    let k: usize = kani::any();
    kani::assume(k <= n);
    let peek: bool = kani::any();
    let mut s = SliceRead::new(&buf[..n]);
    advance(&mut s, k);
    if peek {
        let x = s.peek();
        core::mem::forget(x);
    }
    let a1 = s.peek_position();
    let b1 = s.position();
    let a2 = s.peek_position();
    let b2 = s.position();
    assert!(a1.line() == a2.line() && a1.column() == a2.column());
    assert!(b1.line() == b2.line() && b1.column() == b2.column());
    let (l, c) = spec_pos(&buf, k);
    assert!(b1.line() == l && b1.column() == c);
    let mut io = IoRead::new(&buf[..n]);
    advance(&mut io, k);
    if peek {
        let x = io.peek();
        core::mem::forget(x);
    }
    let p1 = io.peek_position();
    let q1 = io.position();
    let p2 = io.peek_position();
    let q2 = io.position();
    assert!(p1.line() == p2.line() && p1.column() == p2.column());
    assert!(q1.line() == q2.line() && q1.column() == q2.column());
    assert!(q1.line() == l && q1.column() == c);
    kani::cover!(peek && k > 0 && k < n);
}
