//! Kani proof harnesses over the real lexpr / serde-lexpr crates (path deps on /repo).
#![allow(dead_code)]
#[cfg(kani)]
mod c20;
#[cfg(kani)]
mod c15;
#[cfg(kani)]
mod c07;
#[cfg(kani)]
mod c06;
#[cfg(kani)]
mod c08;
#[cfg(kani)]
mod c11;
#[cfg(kani)]
mod c16;
