//! C07 — every sink receives exactly the printed text; write errors surface.
use lexpr::print::{BoolSyntax, BytesSyntax, CharSyntax, KeywordSyntax, NilSyntax, Options, StringSyntax, VectorSyntax};
use lexpr::Value;
use std::io;

pub const CAP: usize = 40;

/// Sink that accepts at most `k` bytes per write call (k == 0: accepts nothing) and fails hard when its fill level
/// equals `fail_at`.
pub struct ShortSink {
    pub buf: [u8; CAP],
    pub len: usize,
    pub k: usize,
    pub fail_at: usize,
    pub calls: usize,
}

impl ShortSink {
    pub fn new(k: usize, fail_at: usize) -> Self {
        ShortSink { buf: [0; CAP], len: 0, k, fail_at, calls: 0 }
    }
}

impl io::Write for ShortSink {
    fn write(&mut self, data: &[u8]) -> io::Result<usize> {
        self.calls += 1;
        if self.len == self.fail_at {
            return Err(io::Error::from(io::ErrorKind::BrokenPipe));
        }
        let mut n = if data.len() < self.k { data.len() } else { self.k };
        if self.len + n > CAP {
            n = CAP - self.len;
        }
        // never write past the injected failure point
        if self.fail_at > self.len && self.len + n > self.fail_at {
            n = self.fail_at - self.len;
        }
        let mut i = 0;
        while i < n {
            self.buf[self.len + i] = data[i];
            i += 1;
        }
        self.len += n;
        Ok(n)
    }
    /// std's default `write_all` restated (loop over `write`; `Ok(0)` is a WriteZero error). Overriding it keeps the
    /// model checker out of std's error-retry machinery (io::Error drop glue), not out of the code under test:
    /// whether lexpr calls `write` or `write_all` / `write_fmt` is still what decides the outcome.
    fn write_all(&mut self, mut data: &[u8]) -> io::Result<()> {
        while !data.is_empty() {
            match self.write(data) {
                Ok(0) => return Err(io::Error::from(io::ErrorKind::WriteZero)),
                Ok(n) => data = &data[n..],
                Err(e) => return Err(e),
            }
        }
        Ok(())
    }
    fn flush(&mut self) -> io::Result<()> {
        Ok(())
    }
}

pub fn sym_options() -> Options {
    let mut o = Options::default();
    let k: u8 = kani::any();
    kani::assume(k < 3);
    o = o.with_keyword_syntax(match k { 0 => KeywordSyntax::ColonPrefix, 1 => KeywordSyntax::ColonPostfix, _ => KeywordSyntax::Octothorpe });
    let n: u8 = kani::any();
    kani::assume(n < 4);
    o = o.with_nil_syntax(match n { 0 => NilSyntax::Symbol, 1 => NilSyntax::Token, 2 => NilSyntax::EmptyList, _ => NilSyntax::False });
    o = o.with_bool_syntax(if kani::any() { BoolSyntax::Token } else { BoolSyntax::Symbol });
    let vs: bool = kani::any();
    o = o.with_vector_syntax(if vs { VectorSyntax::Octothorpe } else { VectorSyntax::Brackets });
    let b: u8 = kani::any();
    kani::assume(b < 3);
    // the documented invalid combination (Octothorpe vectors + Elisp bytes) panics by design: excluded
    kani::assume(!(vs && b == 2));
    o = o.with_bytes_syntax(match b { 0 => BytesSyntax::R6RS, 1 => BytesSyntax::R7RS, _ => BytesSyntax::Elisp });
    o = o.with_string_syntax(if kani::any() { StringSyntax::R6RS } else { StringSyntax::Elisp });
    o = o.with_char_syntax(if kani::any() { CharSyntax::R6RS } else { CharSyntax::Elisp });
    o
}

/// Checks one print run into a short / failing sink against the expected text `full[..flen]`.
fn check_sink(r: io::Result<()>, sink: &ShortSink, full: &[u8], flen: usize) {
    let ok = r.is_ok();
    // io::Error's drop glue is expensive for the model checker and irrelevant to the claim
    core::mem::forget(r);
    let hard = sink.fail_at < flen || (sink.fail_at == flen && false);
    if ok {
        // Ok => every byte arrived, in order
        assert!(sink.len == flen);
        let mut i = 0;
        while i < flen {
            assert!(sink.buf[i] == full[i]);
            i += 1;
        }
        assert!(sink.k > 0 || flen == 0);
        assert!(!hard);
    } else {
        // Err => what arrived is a prefix, and there was a cause (zero acceptance or the injected failure)
        assert!(sink.len <= flen);
        let mut i = 0;
        while i < sink.len {
            assert!(sink.buf[i] == full[i]);
            i += 1;
        }
        assert!(sink.k == 0 || sink.fail_at <= flen);
    }
}

fn sym_sink() -> ShortSink {
    let k: usize = kani::any();
    kani::assume(k <= 3);
    let fail_at: usize = kani::any();
    ShortSink::new(k, fail_at)
}

/// decimal digits of n (n < 10^7) into out; returns length
fn digits(mut n: u64, out: &mut [u8; 24], mut at: usize) -> usize {
    let mut tmp = [0u8; 8];
    let mut l = 0;
    if n == 0 {
        tmp[0] = b'0';
        l = 1;
    }
    while n > 0 && l < 8 {
        tmp[l] = b'0' + (n % 10) as u8;
        n /= 10;
        l += 1;
    }
    let mut i = 0;
    while i < l {
        out[at] = tmp[l - 1 - i];
        at += 1;
        i += 1;
    }
    at
}

/// Unsigned integers through the DEFAULT printer into a sink that takes k in 0..=3 bytes per call or fails at an
/// arbitrary offset: Ok implies all digits arrived, Err implies a prefix arrived and had a cause.
/// @bound every u64 < 10^5 (<= 5 digits), k in 0..=3 (0 = accepts nothing), failure offset anywhere or none
/// @encodes print::Formatter::write_number (visit_u64), number::Number::visit, print::to_writer, Printer::print
/// @timeout 900
#[kani::proof]
#[kani::unwind(9)]
fn c07_uint_short_sink() {
    let n: u64 = kani::any();
    kani::assume(n < 100_000);
    let v = Value::from(n);
    let mut sink = sym_sink();
    let r = lexpr::to_writer(&mut sink, &v);
    let mut full = [0u8; 24];
    let flen = digits(n, &mut full, 0);
    check_sink(r, &sink, &full, flen);
    kani::cover!(sink.k == 1 && flen == 5 && sink.len == 5);
    kani::cover!(sink.fail_at == 3 && flen == 5);
    core::mem::forget(v);
}

/// Unsigned integers through the CUSTOMISED printer (arbitrary option set) into the short / failing sink.
/// @bound every u64 < 10^4, k in 0..=3, failure offset anywhere, 576 option sets
/// @encodes print::to_writer_custom, CustomizedFormatter (inherits write_number)
/// @timeout 900
#[kani::proof]
#[kani::unwind(8)]
fn c07_uint_short_sink_custom() {
    let n: u64 = kani::any();
    kani::assume(n < 10_000);
    let v = Value::from(n);
    let mut sink = sym_sink();
    let r = lexpr::to_writer_custom(&mut sink, &v, sym_options());
    let mut full = [0u8; 24];
    let flen = digits(n, &mut full, 0);
    check_sink(r, &sink, &full, flen);
    kani::cover!(sink.k == 2 && flen == 4 && sink.len == 4);
    core::mem::forget(v);
}

/// Negative integers (NegInt payloads) into the short / failing sink.
/// @bound every i64 in [-10^4, -1], k in 0..=3, failure offset anywhere
/// @encodes print::Formatter::write_number (visit_i64)
/// @timeout 900
/// @tier thorough
/// @timeout 1500
#[kani::proof]
#[kani::unwind(8)]
fn c07_negint_short_sink() {
    let n: i64 = kani::any();
    kani::assume(n < 0 && n > -10_000);
    let v = Value::from(n);
    let mut sink = sym_sink();
    let r = lexpr::to_writer(&mut sink, &v);
    let mut full = [0u8; 24];
    full[0] = b'-';
    let flen = digits(n.unsigned_abs(), &mut full, 1);
    check_sink(r, &sink, &full, flen);
    kani::cover!(sink.k == 2 && flen == 5 && sink.len == 5);
    core::mem::forget(v);
}

// NOTE: three byte-vector harnesses (default `#u8(..)`, customised R6RS/R7RS/brackets, Emacs octal strings) ran out of
// memory in CBMC (iterator + closure + write_all per octet) and were removed; byte vectors are covered by the E2 write
// discipline claim (element closures included) and by the native print corpus used for replay.

fn consts_body(which: u8) {
    let b: bool = kani::any();
    let v = match which {
        0 => Value::Nil,
        1 => Value::Null,
        _ => Value::Bool(b),
    };
    let nil: u8 = kani::any();
    kani::assume(nil < 4);
    let bsym: bool = kani::any();
    let opts = Options::default()
        .with_nil_syntax(match nil { 0 => NilSyntax::Symbol, 1 => NilSyntax::Token, 2 => NilSyntax::EmptyList, _ => NilSyntax::False })
        .with_bool_syntax(if bsym { BoolSyntax::Symbol } else { BoolSyntax::Token });
    let mut sink = sym_sink();
    let r = lexpr::to_writer_custom(&mut sink, &v, opts);
    let fal: &[u8] = if bsym { b"nil" } else { b"#f" };
    let tru: &[u8] = if bsym { b"t" } else { b"#t" };
    let exp: &[u8] = match which {
        0 => match nil { 0 => b"nil", 1 => b"#nil", 2 => b"()", _ => fal },
        1 => b"()",
        _ => if b { tru } else { fal },
    };
    let mut full = [0u8; 24];
    let mut i = 0;
    while i < exp.len() {
        full[i] = exp[i];
        i += 1;
    }
    check_sink(r, &sink, &full, exp.len());
    // default printer == documented default spellings
    let mut s2 = ShortSink::new(3, usize::MAX);
    let r2 = lexpr::to_writer(&mut s2, &v);
    assert!(r2.is_ok());
    core::mem::forget(r2);
    let dexp: &[u8] = match which { 0 => b"#nil", 1 => b"()", _ => if b { b"#t" } else { b"#f" } };
    assert!(s2.len == dexp.len());
    let mut i = 0;
    while i < dexp.len() {
        assert!(s2.buf[i] == dexp[i]);
        i += 1;
    }
    kani::cover!(sink.len == exp.len() && sink.k == 1);
    core::mem::forget(v);
}

/// The special nil value under all four nil syntaxes x both bool syntaxes into the short / failing sink, against the
/// documented spellings; default printer gives `#nil`.
/// @bound Value::Nil; 8 option sets; k in 0..=3; failure offset anywhere
/// @encodes CustomizedFormatter::write_nil, CustomizedFormatter::write_bool, Formatter::write_nil
/// @timeout 900
#[kani::proof]
#[kani::unwind(8)]
fn c07_nil_short_sink() {
    consts_body(0);
}

/// The empty list into the short / failing sink.
/// @bound Value::Null; k in 0..=3; failure offset anywhere
/// @encodes Formatter::write_null
/// @timeout 900
#[kani::proof]
#[kani::unwind(8)]
fn c07_null_short_sink() {
    consts_body(1);
}

/// Booleans under both bool syntaxes into the short / failing sink.
/// @bound both booleans; both bool syntaxes; k in 0..=3; failure offset anywhere
/// @encodes CustomizedFormatter::write_bool, Formatter::write_bool
/// @timeout 900
#[kani::proof]
#[kani::unwind(8)]
fn c07_bool_short_sink() {
    consts_body(2);
}

/// Keywords in each keyword syntax into the short / failing sink.
/// @bound 1-byte names a..z; three keyword syntaxes; k in 0..=3; failure offset anywhere
/// @encodes CustomizedFormatter::write_keyword, Formatter::write_symbol
/// @timeout 900
/// @tier thorough
/// @timeout 1500
#[kani::proof]
#[kani::unwind(8)]
fn c07_keyword_short_sink() {
    names_body(true);
}

/// Symbols into the short / failing sink.
/// @bound 1-byte names a..z; k in 0..=3; failure offset anywhere
/// @encodes Formatter::write_symbol
/// @timeout 900
#[kani::proof]
#[kani::unwind(8)]
fn c07_symbol_short_sink() {
    names_body(false);
}

fn names_body(kw: bool) {
    let nb: u8 = kani::any();
    kani::assume(nb >= b'a' && nb <= b'z');
    let nm = [nb];
    let name = core::str::from_utf8(&nm).unwrap();
    let v = if kw { Value::keyword(name) } else { Value::symbol(name) };
    let ks: u8 = kani::any();
    kani::assume(ks < 3);
    let opts = Options::default().with_keyword_syntax(match ks { 0 => KeywordSyntax::ColonPrefix, 1 => KeywordSyntax::ColonPostfix, _ => KeywordSyntax::Octothorpe });
    let mut sink = sym_sink();
    let r = lexpr::to_writer_custom(&mut sink, &v, opts);
    let mut full = [0u8; 24];
    let flen = if !kw {
        full[0] = nb;
        1
    } else {
        match ks {
            0 => { full[0] = b':'; full[1] = nb; 2 }
            1 => { full[0] = nb; full[1] = b':'; 2 }
            _ => { full[0] = b'#'; full[1] = b':'; full[2] = nb; 3 }
        }
    };
    check_sink(r, &sink, &full, flen);
    kani::cover!(sink.k == 1 && sink.len == flen);
    core::mem::forget(v);
}
