//! C20 — accessors, conversions, comparisons (all scalars).
use lexpr::{Number, Value};

fn kinds(v: &Value) -> u32 {
    (v.is_nil() as u32)
        + (v.is_null() as u32)
        + (v.is_boolean() as u32)
        + (v.is_number() as u32)
        + (v.is_char() as u32)
        + (v.is_string() as u32)
        + (v.is_symbol() as u32)
        + (v.is_keyword() as u32)
        + (v.is_bytes() as u32)
        + (v.is_cons() as u32)
        + (v.is_vector() as u32)
}

#[kani::proof]
fn c20_u64() {
    let n: u64 = kani::any();
    let v = Value::from(n);
    assert!(kinds(&v) == 1 && v.is_number());
    assert!(v.as_u64() == Some(n));
    assert!(v.is_u64());
    if n <= i64::MAX as u64 {
        assert!(v.as_i64() == Some(n as i64));
        assert!(v.is_i64());
    } else {
        assert!(v.as_i64().is_none());
        assert!(!v.is_i64());
    }
    assert!(!v.is_f64());
    assert!(v.as_f64() == Some(n as f64));
    assert!(v.as_name().is_none());
    // comparisons, both operand orders
    let m: u64 = kani::any();
    assert!((v == m) == (n == m));
    assert!((m == v) == (n == m));
    let s: i64 = kani::any();
    let exp = s >= 0 && (s as u64) == n;
    assert!((v == s) == exp);
    assert!((s == v) == exp);
    kani::cover!(n > i64::MAX as u64 && v == m);
    kani::cover!(v == s);
    core::mem::forget(v);
}
