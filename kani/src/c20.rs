//! C20 — accessors, conversions, comparisons (all scalars).
use lexpr::{Cons, Number, Value};

pub fn kinds(v: &Value) -> u32 {
    (v.is_nil() as u32)
        + (v.is_null() as u32)
        + (v.is_boolean() as u32)
        + (v.is_number() as u32)
        + (v.is_char() as u32)
        + (v.is_string() as u32)
        + (v.is_symbol() as u32)
        + (v.is_keyword() as u32)
        + (v.is_bytes() as u32)
        + (v.is_cons() as u32)
        + (v.is_vector() as u32)
}

/// is_x agrees with as_x for a value known not to be a number/name/bytes/cons/vector payload carrier.
fn none_of_numeric(v: &Value) {
    assert!(v.as_i64().is_none() && v.as_u64().is_none() && v.as_f64().is_none());
    assert!(!v.is_i64() && !v.is_u64() && !v.is_f64() && !v.is_number() && v.as_number().is_none());
}

fn none_of_names(v: &Value) {
    assert!(v.as_str().is_none() && v.as_symbol().is_none() && v.as_keyword().is_none());
    assert!(v.as_name().is_none());
    assert!(!v.is_string() && !v.is_symbol() && !v.is_keyword());
}

fn none_of_misc(v: &Value, except: u8) {
    if except != 1 { assert!(v.as_bool().is_none() && !v.is_boolean()); }
    if except != 2 { assert!(v.as_char().is_none() && !v.is_char()); }
    if except != 3 { assert!(v.as_bytes().is_none() && !v.is_bytes()); }
    if except != 4 { assert!(v.as_cons().is_none() && v.as_pair().is_none() && !v.is_cons()); }
    if except != 5 { assert!(v.as_slice().is_none() && !v.is_vector()); }
    if except != 6 { assert!(v.as_nil().is_none() && !v.is_nil()); }
    if except != 7 { assert!(v.as_null().is_none() && !v.is_null()); }
}

fn check_int_value(v: &Value, math_neg: bool, mag: u64) {
    // v holds the integer (-1)^math_neg * mag  (mag != 0 if math_neg)
    assert!(kinds(v) == 1 && v.is_number() && v.as_number().is_some());
    none_of_names(v);
    none_of_misc(v, 0);
    assert!(!v.is_f64());
    if math_neg {
        // value in [-2^63, -1]
        assert!(v.as_u64().is_none() && !v.is_u64());
        let exp = (mag as i64).wrapping_neg();
        assert!(v.as_i64() == Some(exp) && v.is_i64());
        assert!(v.as_f64() == Some(exp as f64));
    } else {
        assert!(v.as_u64() == Some(mag) && v.is_u64());
        if mag <= i64::MAX as u64 {
            assert!(v.as_i64() == Some(mag as i64) && v.is_i64());
        } else {
            assert!(v.as_i64().is_none() && !v.is_i64());
        }
        assert!(v.as_f64() == Some(mag as f64));
    }
}

/// From<u64>: payload preserved, as_i64 only within i64 range, never a float; == with u64 and i64 in both orders.
/// @bound all 2^64 u64 payloads x all u64 and i64 comparands
/// @encodes Value::from<u64>, Number::as_i64, Number::as_u64, Number::as_f64, partial_eq::eq_i64, partial_eq::eq_u64
#[kani::proof]
fn c20_u64() {
    let n: u64 = kani::any();
    let v = Value::from(n);
    check_int_value(&v, false, n);
    let m: u64 = kani::any();
    assert!((v == m) == (n == m));
    assert!((m == v) == (n == m));
    assert!((&v == m) == (n == m));
    let s: i64 = kani::any();
    let exp = s >= 0 && (s as u64) == n;
    assert!((v == s) == exp);
    assert!((s == v) == exp);
    // oracle form of the property: same answer as comparing with as_i64()/as_u64()
    assert!((v == s) == v.as_i64().map_or(false, |x| x == s));
    assert!((v == m) == v.as_u64().map_or(false, |x| x == m));
    kani::cover!(n > i64::MAX as u64 && v == m);
    kani::cover!(v == s);
    core::mem::forget(v);
}

/// From<i64>: non-negative payloads are also u64, negative ones never; i64::MIN included; cross-sign ==.
/// @bound all 2^64 i64 payloads x all u64 and i64 comparands
/// @encodes Value::from<i64>, Number::from<i64>, partial_eq
#[kani::proof]
fn c20_i64() {
    let n: i64 = kani::any();
    let v = Value::from(n);
    check_int_value(&v, n < 0, n.unsigned_abs());
    let s: i64 = kani::any();
    assert!((v == s) == (n == s));
    assert!((s == v) == (n == s));
    let m: u64 = kani::any();
    let exp = n >= 0 && (n as u64) == m;
    assert!((v == m) == exp);
    assert!((m == v) == exp);
    // an integer is never equal to a float through as_f64 oracle mismatch: == f64 follows as_f64
    let f: f64 = kani::any();
    assert!((v == f) == v.as_f64().map_or(false, |x| x == f));
    assert!((f == v) == v.as_f64().map_or(false, |x| x == f));
    kani::cover!(n == i64::MIN);
    kani::cover!(n < 0 && v == s);
    kani::cover!(n >= 0 && v == m);
    core::mem::forget(v);
}

macro_rules! small_signed {
    ($ty:ty) => {{
        let n: $ty = kani::any();
        let v = Value::from(n);
        check_int_value(&v, n < 0, (n as i64).unsigned_abs());
        assert!(v.as_i64() == Some(n as i64));
        let s: $ty = kani::any();
        assert!((v == s) == (n == s));
        assert!((s == v) == (n == s));
        kani::cover!(n < 0);
        kani::cover!(v == s);
        core::mem::forget(v);
    }};
}
macro_rules! small_unsigned {
    ($ty:ty) => {{
        let n: $ty = kani::any();
        let v = Value::from(n);
        check_int_value(&v, false, n as u64);
        assert!(v.as_i64() == Some(n as i64));
        let s: $ty = kani::any();
        assert!((v == s) == (n == s));
        assert!((s == v) == (n == s));
        kani::cover!(v == s);
        core::mem::forget(v);
    }};
}
/// From<i8> preserves the mathematical value (never a float); == i8 in both operand orders.
/// @bound every i8 payload x every i8 comparand
#[kani::proof]
fn c20_i8() {
    small_signed!(i8);
}
/// From<i16> preserves the mathematical value (never a float); == i16 in both operand orders.
/// @bound every i16 payload x every i16 comparand
#[kani::proof]
fn c20_i16() {
    small_signed!(i16);
}
/// From<i32> preserves the mathematical value (never a float); == i32 in both operand orders.
/// @bound every i32 payload x every i32 comparand
#[kani::proof]
fn c20_i32() {
    small_signed!(i32);
}
/// From<u8> preserves the mathematical value (never a float); == u8 in both operand orders.
/// @bound every u8 payload x every u8 comparand
#[kani::proof]
fn c20_u8() {
    small_unsigned!(u8);
}
/// From<u16> preserves the mathematical value (never a float); == u16 in both operand orders.
/// @bound every u16 payload x every u16 comparand
#[kani::proof]
fn c20_u16() {
    small_unsigned!(u16);
}
/// From<u32> preserves the mathematical value (never a float); == u32 in both operand orders.
/// @bound every u32 payload x every u32 comparand
#[kani::proof]
fn c20_u32() {
    small_unsigned!(u32);
}


/// From<f64>: a float is never an integer, as_f64 returns the same bits (NaN, inf, -0 included); == f64/f32 follow as_f64.
/// @bound all 2^64 f64 bit patterns x all f64 comparands
/// @encodes Value::from<f64>, Number::as_f64, Number::from_f64, partial_eq::eq_f64
#[kani::proof]
fn c20_f64() {
    let f: f64 = kani::any();
    let v = Value::from(f);
    assert!(kinds(&v) == 1 && v.is_number() && v.is_f64());
    assert!(v.as_i64().is_none() && v.as_u64().is_none() && !v.is_i64() && !v.is_u64());
    none_of_names(&v);
    none_of_misc(&v, 0);
    let g = v.as_f64();
    assert!(g.is_some());
    assert!(g.unwrap().to_bits() == f.to_bits());
    let h: f64 = kani::any();
    assert!((v == h) == (f == h));
    assert!((h == v) == (f == h));
    let i: i64 = kani::any();
    assert!(!(v == i) && !(i == v));
    let u: u64 = kani::any();
    assert!(!(v == u) && !(u == v));
    // Number::from_f64 accepts exactly the finite floats and keeps the bits
    match Number::from_f64(f) {
        Some(n) => { assert!(f.is_finite()); assert!(n.as_f64().unwrap().to_bits() == f.to_bits()); assert!(n.is_f64()); }
        None => assert!(!f.is_finite()),
    }
    kani::cover!(f.is_nan());
    kani::cover!(f == 0.0 && f.is_sign_negative());
    kani::cover!(v == h);
    core::mem::forget(v);
}

/// From<f32>: widened exactly; == f32 in both orders follows as_f64.
/// @bound all 2^32 f32 bit patterns x all f32 comparands
#[kani::proof]
fn c20_f32() {
    let f: f32 = kani::any();
    let v = Value::from(f);
    assert!(kinds(&v) == 1 && v.is_f64());
    assert!(v.as_i64().is_none() && v.as_u64().is_none());
    let g = v.as_f64().unwrap();
    assert!(g.to_bits() == (f as f64).to_bits());
    let h: f32 = kani::any();
    assert!((v == h) == (f == h));
    assert!((h == v) == (f == h));
    kani::cover!(f.is_nan());
    kani::cover!(v == h);
    core::mem::forget(v);
}

/// bool and char payloads come back unchanged, are of exactly one kind, and compare with bool in both orders.
/// @bound both bools, every Unicode scalar value
#[kani::proof]
fn c20_bool_char() {
    let b: bool = kani::any();
    let v = Value::from(b);
    assert!(kinds(&v) == 1 && v.is_boolean() && v.as_bool() == Some(b));
    none_of_numeric(&v);
    none_of_names(&v);
    none_of_misc(&v, 1);
    let c: bool = kani::any();
    assert!((v == c) == (b == c));
    assert!((c == v) == (b == c));
    let ch: char = kani::any();
    let w = Value::from(ch);
    assert!(kinds(&w) == 1 && w.is_char() && w.as_char() == Some(ch));
    none_of_numeric(&w);
    none_of_names(&w);
    none_of_misc(&w, 2);
    assert!(!(w == c) && !(c == w));
    let i: i64 = kani::any();
    assert!(!(w == i) && !(v == i));
    kani::cover!(v == c);
    kani::cover!(ch as u32 > 0xFFFF);
    core::mem::forget(v);
    core::mem::forget(w);
}

fn two_char_str(buf: &mut [u8; 8]) -> &str {
    let a: char = kani::any();
    let b: char = kani::any();
    let n: u8 = kani::any();
    kani::assume(n <= 2);
    let mut len = 0;
    if n >= 1 { len += a.encode_utf8(&mut buf[len..]).len(); }
    if n >= 2 { len += b.encode_utf8(&mut buf[len..]).len(); }
    core::str::from_utf8(&buf[..len]).unwrap()
}

/// Strings, symbols and keywords: as_name is Some exactly for these three; as_str/as_symbol/as_keyword are
/// exclusive; the text comes back unchanged; == &str / str / String (both orders) follows as_str only.
/// @bound names of 0..=2 ASCII bytes (symbolic), comparand of 0..=2 ASCII bytes
/// @encodes Value::string, Value::symbol, Value::keyword, as_name, partial_eq::eq_str
#[kani::proof]
#[kani::unwind(4)]
fn c20_names() {
    let raw: [u8; 2] = kani::any();
    kani::assume(raw[0] < 128 && raw[1] < 128);
    let n: usize = kani::any();
    kani::assume(n <= 2);
    let s = core::str::from_utf8(&raw[..n]).unwrap();
    let raw2: [u8; 2] = kani::any();
    kani::assume(raw2[0] < 128 && raw2[1] < 128);
    let n2: usize = kani::any();
    kani::assume(n2 <= 2);
    let t = core::str::from_utf8(&raw2[..n2]).unwrap();
    let same = n == n2 && (n < 1 || raw[0] == raw2[0]) && (n < 2 || raw[1] == raw2[1]);

    let which: u8 = kani::any();
    kani::assume(which < 3);
    let v = match which {
        0 => Value::string(s),
        1 => Value::symbol(s),
        _ => Value::keyword(s),
    };
    assert!(kinds(&v) == 1);
    none_of_numeric(&v);
    none_of_misc(&v, 0);
    assert!(v.is_string() == (which == 0) && v.is_symbol() == (which == 1) && v.is_keyword() == (which == 2));
    assert!(v.as_str().is_some() == (which == 0));
    assert!(v.as_symbol().is_some() == (which == 1));
    assert!(v.as_keyword().is_some() == (which == 2));
    let name = v.as_name();
    assert!(name.is_some());
    let nb = name.unwrap().as_bytes();
    assert!(nb.len() == n && (n < 1 || nb[0] == raw[0]) && (n < 2 || nb[1] == raw[1]));
    let exp = which == 0 && same;
    assert!((v == t) == exp);
    assert!((t == v) == exp);
    assert!((v == *t) == exp);
    assert!((*t == v) == exp);
    kani::cover!(which == 0 && v == t);
    kani::cover!(which == 1 && n == 2);
    core::mem::forget(v);
}

/// From<&str>/From<String> make strings (never symbols); From<&[u8]>/Vec<u8> make byte vectors with the same bytes.
/// @bound 0..=2 bytes
#[kani::proof]
#[kani::unwind(4)]
fn c20_from_str_bytes() {
    let raw: [u8; 2] = kani::any();
    let n: usize = kani::any();
    kani::assume(n <= 2);
    let v = Value::from(&raw[..n]);
    assert!(kinds(&v) == 1 && v.is_bytes());
    none_of_numeric(&v);
    none_of_names(&v);
    none_of_misc(&v, 3);
    let b = v.as_bytes().unwrap();
    assert!(b.len() == n && (n < 1 || b[0] == raw[0]) && (n < 2 || b[1] == raw[1]));
    let w = Value::bytes(&raw[..n]);
    assert!(w.as_bytes().unwrap().len() == n);
    kani::assume(raw[0] < 128 && raw[1] < 128);
    let s = core::str::from_utf8(&raw[..n]).unwrap();
    let x = Value::from(s);
    assert!(x.is_string() && !x.is_symbol() && x.as_str().unwrap().len() == n);
    assert!(x == s);
    kani::cover!(n == 2);
    core::mem::forget(v);
    core::mem::forget(w);
    core::mem::forget(x);
}

/// Nil, Null, a pair and a vector are each of exactly one kind; as_pair/as_cons/as_slice expose what was put in.
/// @bound one cons cell / vector of 0..=1 element with symbolic integer payloads
#[kani::proof]
#[kani::unwind(3)]
fn c20_structural_kinds() {
    let nil = Value::Nil;
    assert!(kinds(&nil) == 1 && nil.is_nil() && nil.as_nil() == Some(()));
    none_of_numeric(&nil); none_of_names(&nil); none_of_misc(&nil, 6);
    let null = Value::Null;
    assert!(kinds(&null) == 1 && null.is_null() && null.as_null() == Some(()));
    none_of_numeric(&null); none_of_names(&null); none_of_misc(&null, 7);
    let a: i64 = kani::any();
    let b: u64 = kani::any();
    let p = Value::from((a, b));
    assert!(kinds(&p) == 1 && p.is_cons());
    none_of_numeric(&p); none_of_names(&p); none_of_misc(&p, 4);
    let (car, cdr) = p.as_pair().unwrap();
    assert!(car.as_i64() == Some(a) && cdr.as_u64() == Some(b));
    let c = p.as_cons().unwrap();
    assert!(c.car().as_i64() == Some(a) && c.cdr().as_u64() == Some(b));
    let q = Value::cons(a, b);
    assert!(q.as_pair().unwrap().0.as_i64() == Some(a));
    let q2 = Value::from(Cons::new(a, b));
    assert!(q2.as_pair().unwrap().1.as_u64() == Some(b));
    let vec = Value::from(vec![Value::from(a)]);
    assert!(kinds(&vec) == 1 && vec.is_vector());
    none_of_numeric(&vec); none_of_names(&vec); none_of_misc(&vec, 5);
    let sl = vec.as_slice().unwrap();
    assert!(sl.len() == 1 && sl[0].as_i64() == Some(a));
    assert!(!(p == a) && !(vec == a) && !(nil == a) && !(null == a));
    assert!(!(nil == false) && !(null == false));
    core::mem::forget(p); core::mem::forget(q); core::mem::forget(q2); core::mem::forget(vec);
}
