//! C16 — stack use independent of list length: for a list of N atoms each list-walking operation must complete with
//! the recursion of the functions involved bounded by a small constant (CBMC recursion unwinding assertions via
//! per-function `--unwindset`). A function that recurses once per element violates the bound for N = 5.
use crate::c15::{chain, MAXLEN};
use lexpr::{Cons, Value};

pub const N: usize = 5;

fn list5(xs: &[i64; N], dotted: bool) -> Value {
    let mut v = if dotted { Value::from(9u64) } else { Value::Null };
    let mut i = N;
    while i > 0 {
        i -= 1;
        v = Value::Cons(Cons::new(Value::from(xs[i]), v));
    }
    v
}

// NOTE: harnesses `c16_clone` / `c16_eq` (recursion bound 3 on Value::clone / Value::eq for a 5-element list) found the
// recursive derived implementations (recursion unwinding assertion after 485 s / 61 s) and were the trigger for the two
// fixes in /repo. On the repaired, iterative code CBMC does not finish within 900 s (the loop assigns through
// `set_cdr`, whose drop glue is the known blow-up), so the claim moved to E2 (`mirsym/c16.py`), which decides the same
// thing on the MIR: no nested Value-level call on a cdr that is itself a pair.

/// Indexing, cell / element iteration, the by-reference vector conversion and the list predicates on a 5-element list
/// use no recursion through Value at all (bound 1 on every list-walking function involved).
/// @bound lists of exactly 5 atoms, proper and dotted
/// @unwindset <lexpr::cons::Iter<'_> as std::iter::Iterator>::next:1; <lexpr::cons::ListIter<'_> as std::iter::Iterator>::next:1; lexpr::Value::is_list:1; lexpr::Cons::to_ref_vec:1
/// @unwind_is_claim yes
/// @native_witness stack:iter
/// @timeout 900
#[kani::proof]
#[kani::unwind(8)]
fn c16_walkers() {
    let xs: [i64; N] = kani::any();
    let d: bool = kani::any();
    let v = list5(&xs, d);
    assert!(v.get(N - 1).is_some());
    assert!(v.is_list() != d);
    let c = v.as_cons().unwrap();
    let mut n = 0;
    for _ in c.iter() {
        n += 1;
    }
    assert!(n == N);
    let mut m = 0;
    for _ in v.list_iter().unwrap() {
        m += 1;
    }
    assert!(m >= N);
    let (rv, _) = c.to_ref_vec();
    assert!(rv.len() == N);
    core::mem::forget(rv);
    core::mem::forget(v);
}

/// Cloning the datum (value + span information) parsed from a 5-element list: bounded recursion in SpanInfo::clone.
/// @bound the concrete text `(1 2 3 4 5)`; recursion bound 3
/// @unwindset <lexpr::datum::SpanInfo as std::clone::Clone>::clone:3
/// @unwind_is_claim yes
/// @native_witness stack:datum_clone
/// @kf datum-clone-eq-recursive
/// @tier thorough
/// @timeout 1800
#[kani::proof]
#[kani::unwind(16)]
fn c16_datum_clone() {
    let d = lexpr::datum::from_str("(1 2 3 4 5)").unwrap();
    let e = d.clone();
    assert!(e.value().is_cons());
    core::mem::forget(d);
    core::mem::forget(e);
}
