"""Table behind MANIFEST.json (bin/gen_manifest). One entry per claimed property; everything not
claimed must be in NOT_APPLICABLE with a reason."""

HOOKS = {
    "guard": "lexpr_verif",
    "enable": "no source hooks are needed: E1 uses the public API (incl. the doc-hidden parse::Read methods), "
              "E2 reads private functions from the MIR dump; the guard name is reserved only",
    "baseline_off_cmd": "cd /repo && cargo test --workspace --no-fail-fast --offline",
    "source_commits": [],
    "add_only": True,
}

ENGINES = [
    {"name": "E1-kani", "path": "/verif/kani",
     "kind_free_text": "Kani 0.68 / CBMC 6.11 proof harnesses over the compiled lexpr and serde-lexpr crates "
                       "(path dependencies on /repo, rebuilt on every run); unwinding assertions on; kani::cover "
                       "vacuity witnesses; counterexamples replayed natively via concrete playback",
     "serves_properties": []},
    {"name": "E2-mirsym", "path": "/verif/mirsym",
     "kind_free_text": "symbolic executor for rustc MIR (-Zunpretty=mir dumped from /repo on every run) with z3 "
                       "as the deciding solver (cvc5 cross-check in the thorough tier); solver-pruned path "
                       "exploration, inductive loop steps, counterexamples replayed by a native binary built from /repo",
     "serves_properties": []},
]

NOTES = ("All checks are bounded solver verdicts over /repo's current working tree; bounds, stubs and assumptions "
         "are written into each evidence file. exit 2 = inconclusive (timeout / engine error / counterexample that "
         "did not reproduce natively), never reported as held.")

_BUILDING = "check not built yet in this round (claimed in DESIGN.md; will move to checks when its harnesses exist)"

CLAIMS = {
    "C20": {
        "engine": "E1-kani",
        "design_ref": "DESIGN.md §1 C20",
        "technique": "bounded model checking (Kani/CBMC) of the real accessors over fully symbolic scalars",
        "text": "For every value of each scalar Rust type (all 8 integer widths, f32, f64 incl. NaN/inf/-0, bool, "
                "char, short strings and byte slices) the solver decides the From -> is_*/as_* matrix, "
                "exactly-one-kind, as_name and == with primitives in both operand orders against as_* oracles.",
        "note": "Trusted: Kani/CBMC translation of MIR, bundled std model. Strings/bytes bounded to 2 elements; "
                "cons/vector kinds by construction of one cell.",
    },
}

NOT_APPLICABLE = {
    "C09": "each point of the quantifier is a Rust program that must be compiled; the macro consumes proc_macro2 "
           "token trees produced by rustc's lexer; Kani ICEs compiling proc_macro2 and the code is String/Vec/"
           "token-tree manipulation outside what the MIR executor models (DESIGN.md §1 C09)",
}
for _p in ["C01", "C02", "C03", "C04", "C05", "C06", "C07", "C08", "C10", "C11", "C12", "C13", "C14", "C15",
           "C16", "C17", "C18", "C19"]:
    if _p not in CLAIMS:
        NOT_APPLICABLE.setdefault(_p, _BUILDING)
for _e in ENGINES:
    _e["serves_properties"] = sorted(p for p, c in CLAIMS.items() if _e["name"].split("-")[0] in c["engine"])
