"""Table behind MANIFEST.json (bin/gen_manifest). One entry per claimed property; everything not
claimed must be in NOT_APPLICABLE with a reason."""

HOOKS = {
    "guard": "lexpr_verif",
    "enable": "no source hooks are needed: E1 uses the public API (incl. the doc-hidden parse::Read methods), "
              "E2 reads private functions from the MIR dump; the guard name is reserved only",
    "baseline_off_cmd": "cd /repo && cargo test --workspace --no-fail-fast --offline",
    "source_commits": [],
    "add_only": True,
}

ENGINES = [
    {"name": "E1-kani", "path": "/verif/kani",
     "kind_free_text": "Kani 0.68 / CBMC 6.11 proof harnesses over the compiled lexpr and serde-lexpr crates "
                       "(path dependencies on /repo, rebuilt on every run); unwinding assertions on; kani::cover "
                       "vacuity witnesses; counterexamples replayed natively via concrete playback",
     "serves_properties": []},
    {"name": "E2-mirsym", "path": "/verif/mirsym",
     "kind_free_text": "symbolic executor for rustc MIR (-Zunpretty=mir dumped from /repo on every run) with z3 "
                       "as the deciding solver (cvc5 cross-check in the thorough tier); solver-pruned path "
                       "exploration, inductive loop steps, counterexamples replayed by a native binary built from /repo",
     "serves_properties": []},
]

NOTES = ("All checks are bounded solver verdicts over /repo's current working tree; bounds, stubs and assumptions "
         "are written into each evidence file. exit 2 = inconclusive (timeout / engine error / counterexample that "
         "did not reproduce natively), never reported as held.")

_BUILDING = "check not built yet in this round (claimed in DESIGN.md; will move to checks when its harnesses exist)"

CLAIMS = {
    "C20": {
        "engine": "E1-kani",
        "design_ref": "DESIGN.md §1 C20",
        "technique": "bounded model checking (Kani/CBMC) of the real accessors over fully symbolic scalars",
        "text": "For every value of each scalar Rust type (all 8 integer widths, f32, f64 incl. NaN/inf/-0, bool, "
                "char, short strings and byte slices) the solver decides the From -> is_*/as_* matrix, "
                "exactly-one-kind, as_name and == with primitives in both operand orders against as_* oracles.",
        "note": "Trusted: Kani/CBMC translation of MIR, bundled std model. Strings/bytes bounded to 2 elements; "
                "cons/vector kinds by construction of one cell.",
    },
}

CLAIMS["C05"] = {
    "engine": "E2-mirsym",
    "design_ref": "DESIGN.md §1 C05",
    "technique": "symbolic execution of the number scanner's MIR with z3 (one-step loop induction, bit-vector and "
                 "IEEE queries), counterexamples replayed natively against a big-integer reference",
    "text": "For the nine number-scanner functions the solver decides, for every accumulator / radix / next byte / "
            "EOF / I/O error: digit classification, res*r+d exactness, the overflow exit condition, sign and range "
            "mapping of parse_num_tail (-0, -2^63, 2^63), digit counting of over-long integers in their own radix, "
            "(sig, exp) bookkeeping of fraction and exponent digits, saturation, never-inf/NaN of both float back ends, "
            "exactness of the fast path for sig<=2^53, |exp|<=22, and the compiled POW10 table bits; both feature "
            "configurations.",
    "note": "Loops are cut at their headers (arbitrary loop state, invariant stated per claim) so digit counts are "
            "unbounded but inputs longer than 2^30 digits are excluded (i32 exponent counter). Trusted: rustc's MIR dump, "
            "the mirsym executor (validated on every run against the native build on 27 literals), z3, IEEE single-"
            "operation axioms (checked at half precision), the contracts of core's str::parse::<f64> and itoa. The "
            "2^-50 accuracy clause outside the exact region and ryu are outside the claim.",
}
CLAIMS["C15"] = {
    "engine": "E1-kani",
    "design_ref": "DESIGN.md §1 C15",
    "technique": "bounded model checking (Kani/CBMC) of the real accessors on directly constructed cons chains",
    "text": "For every chain of 0..=4 cells with symbolic payloads, 7 tail kinds and every usize index the solver "
            "decides list_iter / Cons::iter / get / Index / to_ref_vec / is_list / is_dotted_list and alist lookup by "
            "name (0..=3 entries, duplicate keys, non-pair entries, key kinds) against a Vec model; non-list targets of "
            "every kind never panic.",
    "note": "Chains longer than 4 cells, Value::append/list, the consuming iterator and the cloning conversions are "
            "outside (CBMC runs out of memory on drop/clone glue of Value; measured). Trusted: Kani/CBMC.",
}

CLAIMS["C03"] = {
    "engine": "E2-mirsym + E1-kani",
    "design_ref": "DESIGN.md §1 C03",
    "technique": "symbolic execution of next_value/next_datum MIR with z3 (depth-counter protocol as a ranking "
                 "argument); Kani totality harnesses on the reader kernels",
    "text": "For every remaining depth, token kind and callee behaviour the solver decides that every return path of "
            "next_value/next_datum restores the depth counter, every re-entrant call (builders, quote shorthands) runs "
            "at a strictly smaller non-zero depth (so each call-graph cycle decreases a u8: nesting is bounded through "
            "any construct), no counter underflow, limit error only below 2 remaining levels, initial budget in "
            "[101,200]; number-scanner and whitespace kernels have no reachable panic (C05/C12 claims); reader kernels "
            "are panic-free for all inputs <= 3 bytes (Kani).",
    "note": "Whole-parser 'arbitrary bytes' executions (exhaustive <=3-byte strings through every entry point, 10^6-"
            "deep inputs as runs) are enumeration, not this technique; the solver claim is the protocol plus kernel "
            "totality. parse_token and the builders are stubbed as arbitrary-result callees in the depth claim.",
}
CLAIMS["C12"] = {
    "engine": "E2-mirsym + E1-kani",
    "design_ref": "DESIGN.md §1 C12",
    "technique": "symbolic execution of parse_whitespace and the iterator adapters (z3, loop induction); Kani on the "
                 "token-ending scanners",
    "text": "The solver decides that parse_whitespace skips exactly SP/TAB/LF/CR/FF and ';' comments to LF/EOF for any "
            "amount of trivia, hands back the first other byte unconsumed, never fails except on a failing read; that "
            "the three iteration adapters are next_*().transpose() (terminate on Ok(None)); and (Kani) that every "
            "scanner that ends a token by lookahead stops before each trivia byte.",
    "note": "Concatenations of whole printed values and interleaved call histories are outside; the progress clause is "
            "claimed per function, not for whole runs.",
}

CLAIMS["C07"] = {
    "engine": "E2-mirsym + E1-kani",
    "design_ref": "DESIGN.md §1 C07",
    "technique": "symbolic execution of the printer's MIR with z3 (write discipline, error propagation, emitted text "
                 "vs documented spelling); Kani harnesses printing atoms into a short-writing / failing sink",
    "text": "For every printer function the solver decides that all output goes through write_all/write_fmt, that "
            "output stops at the first failing write and the error is returned, and that the leaf methods emit exactly "
            "the documented text for all arguments and all 576 option sets (default formatter == customised formatter "
            "with default options follows from both matching the same spelling table); Kani prints integers, booleans, "
            "nil, null, symbols and keywords into a sink that accepts 0..=3 bytes per call or fails at any offset.",
    "note": "E2 abstracts the writer to 'each write_all succeeds or fails'; that write_all itself delivers all bytes "
            "to a short-writing sink is std's contract (restated in the Kani sink). Whole compound values end to end "
            "(strings longer than the Kani bounds, nested lists) are covered structurally (loop-cut claims), not by runs.",
}

CLAIMS["C04"] = {
    "engine": "E2-mirsym",
    "design_ref": "DESIGN.md §1 C04",
    "technique": "symbolic execution of the value serializer's / deserializer's scalar leaves (z3 bit-vectors and IEEE floats)",
    "text": "Scalar leaves only: for every value of i8..u64, f32, f64, bool, char the solver decides that serialize_* "
            "yields the Value of the same mathematical value / bits, and that every numeric deserialize_* hands exactly "
            "the stored payload to the visitor method matching its representation; with Serde's primitive visitors this "
            "is the scalar round trip at every width and boundary.",
    "note": "Narrow by design: every structural category (sequences, maps, structs, enums, options of options) and the "
            "text path are NOT decided - the collectors build Value trees through Value::list/append, which is outside "
            "both engines (measured). The C14 dispatch tables cover the deserializer side of structure.",
}
CLAIMS["C14"] = {
    "engine": "E2-mirsym",
    "design_ref": "DESIGN.md §1 C14",
    "technique": "symbolic execution of every deserialize_* method and the Seq/Map access steps with the input Value's "
                 "kind symbolic (z3), compared with the documented acceptance table",
    "text": "For 26 deserializer methods x 11 value kinds x 3 number representations the solver decides which visitor "
            "method is called (vector or list for sequences and tuples, empty list or alist for maps/structs, symbol or "
            "pair for enums, empty/one-element list for options) and that every other kind is rejected with a data "
            "error; list/map access rejects improper tails and non-pair entries; scalar serializer leaves as C04.",
    "note": "Shapes PRODUCED by the Serialize*::end collectors (proper lists, vectors, alists, (name . payload)) are not "
            "decided (Value-tree construction is outside the engines); only the acceptance side and scalar shapes are.",
}
CLAIMS["C18"] = {
    "engine": "E2-mirsym",
    "design_ref": "DESIGN.md §1 C18",
    "technique": "reachability of every panic site in serde-lexpr's value deserializer under an arbitrary input Value (z3)",
    "text": "No panic is reachable in any deserialize_* method or access step for any input value, except the documented "
            "expect in next_value_seed, reachable only when the visitor asks for a value after the end of the map; "
            "all rejections are message errors, classified as Category::Data.",
    "note": "The re-serialisation self-consistency clause (deserialize . serialize . deserialize) is outside: it needs "
            "whole Value trees. Visitors are abstract (arbitrary result), so totality of user visitors is not claimed.",
}

NOT_APPLICABLE = {
    "C09": "each point of the quantifier is a Rust program that must be compiled; the macro consumes proc_macro2 "
           "token trees produced by rustc's lexer; Kani ICEs compiling proc_macro2 and the code is String/Vec/"
           "token-tree manipulation outside what the MIR executor models (DESIGN.md §1 C09)",
}
for _p in ["C01", "C02", "C03", "C04", "C05", "C06", "C07", "C08", "C10", "C11", "C12", "C13", "C14", "C15",
           "C16", "C17", "C18", "C19"]:
    if _p not in CLAIMS:
        NOT_APPLICABLE.setdefault(_p, _BUILDING)
for _e in ENGINES:
    _e["serves_properties"] = sorted(p for p, c in CLAIMS.items() if _e["name"].split("-")[0] in c["engine"])
