"""Table behind MANIFEST.json (bin/gen_manifest). One entry per claimed property; everything not
claimed must be in NOT_APPLICABLE with a reason."""

HOOKS = {
    "guard": "lexpr_verif",
    "enable": "no source hooks are needed: E1 uses the public API (incl. the doc-hidden parse::Read methods), "
              "E2 reads private functions from the MIR dump; the guard name is reserved only",
    "baseline_off_cmd": "cd /repo && cargo test --workspace --no-fail-fast --offline",
    "source_commits": [],
    "add_only": True,
}

ENGINES = [
    {"name": "E1-kani", "path": "/verif/kani",
     "kind_free_text": "Kani 0.68 / CBMC 6.11 proof harnesses over the compiled lexpr and serde-lexpr crates "
                       "(path dependencies on /repo, rebuilt on every run); unwinding assertions on; kani::cover "
                       "vacuity witnesses; counterexamples replayed natively via concrete playback",
     "serves_properties": []},
    {"name": "E2-mirsym", "path": "/verif/mirsym",
     "kind_free_text": "symbolic executor for rustc MIR (-Zunpretty=mir dumped from /repo on every run) with z3 "
                       "as the deciding solver (cvc5 cross-check in the thorough tier); solver-pruned path "
                       "exploration, inductive loop steps, counterexamples replayed by a native binary built from /repo",
     "serves_properties": []},
]

NOTES = ("All checks are bounded solver verdicts over /repo's current working tree; bounds, stubs and assumptions "
         "are written into each evidence file. exit 2 = inconclusive (timeout / engine error / counterexample that "
         "did not reproduce natively), never reported as held.")

_BUILDING = "check not built yet in this round (claimed in DESIGN.md; will move to checks when its harnesses exist)"

CLAIMS = {
    "C20": {
        "engine": "E1-kani + E2-mirsym",
        "design_ref": "DESIGN.md §1 C20",
        "technique": "bounded model checking (Kani/CBMC) of the real accessors over fully symbolic scalars",
        "text": "For every value of each scalar Rust type (all 8 integer widths, f32, f64 incl. NaN/inf/-0, bool, "
                "char, short strings and byte slices) the solver decides the From -> is_*/as_* matrix, "
                "exactly-one-kind, as_name and == with primitives in both operand orders against as_* oracles. E2 c20_number_from: "
                "Number::from for all 8 integer widths and both float widths stores exactly the mathematical value by casts alone; "
                "c15_eq_protocol: list comparison as a cell walk.",
        "note": "Trusted: Kani/CBMC translation of MIR, bundled std model. Strings/bytes bounded to 2 elements; "
                "cons/vector kinds by construction of one cell.",
    },
}

CLAIMS["C05"] = {
    "engine": "E2-mirsym",
    "design_ref": "DESIGN.md §1 C05",
    "technique": "symbolic execution of the number scanner's MIR with z3 (one-step loop induction, bit-vector and "
                 "IEEE queries), counterexamples replayed natively against a big-integer reference",
    "text": "For the nine number-scanner functions the solver decides, for every accumulator / radix / next byte / "
            "EOF / I/O error: digit classification, res*r+d exactness, the overflow exit condition, sign and range "
            "mapping of parse_num_tail (-0, -2^63, 2^63), digit counting of over-long integers in their own radix, "
            "(sig, exp) bookkeeping of fraction and exponent digits, saturation, never-inf/NaN of both float back ends, "
            "exactness of the fast path for sig<=2^53, |exp|<=22, and the compiled POW10 table bits; both feature "
            "configurations.",
    "note": "Loops are cut at their headers (arbitrary loop state, invariant stated per claim) so digit counts are "
            "unbounded but inputs longer than 2^30 digits are excluded (i32 exponent counter). Trusted: rustc's MIR dump, "
            "the mirsym executor (validated on every run against the native build on 27 literals), z3, IEEE single-"
            "operation axioms (checked at half precision), the contracts of core's str::parse::<f64> and itoa. The "
            "2^-50 accuracy clause outside the exact region and ryu are outside the claim.",
}
CLAIMS["C15"] = {
    "engine": "E1-kani",
    "design_ref": "DESIGN.md §1 C15",
    "technique": "bounded model checking (Kani/CBMC) of the real accessors on directly constructed cons chains",
    "text": "For every chain of 0..=4 cells with symbolic payloads, 7 tail kinds and every usize index the solver "
            "decides list_iter / Cons::iter / get / Index / to_ref_vec / is_list / is_dotted_list and alist lookup by "
            "name (0..=3 entries, duplicate keys, non-pair entries, key kinds) against a Vec model; non-list targets of "
            "every kind never panic. E2: alist lookup by value / name on an abstract cell; Value::append / list build the "
            "documented chain (start at the head cell, one cell per element, given tail as the last cdr, tail itself for no "
            "elements) for any number of elements. "
            "E2 c15_clone_protocol / c15_eq_protocol: the hand-written Clone and PartialEq of Cons as cell walks (one-step induction + base case): structural copy cell by cell with the tail cloned last, source untouched; comparison false at the first differing car, advancing on two pair cdrs, else the comparison of exactly the two cdrs. "
            "c15_into_iter: the consuming iterator yields every element once with the tail attached to the last (one step from any cursor state).",
    "note": "E1 chains longer than 4 cells, the consuming iterator and the cloning conversions are "
            "outside (CBMC runs out of memory on drop/clone glue of Value; measured). Trusted: Kani/CBMC, z3.",
}

CLAIMS["C03"] = {
    "engine": "E2-mirsym + E1-kani",
    "design_ref": "DESIGN.md §1 C03",
    "technique": "symbolic execution of next_value/next_datum MIR with z3 (depth-counter protocol as a ranking "
                 "argument); Kani totality harnesses on the reader kernels",
    "text": "For every remaining depth, token kind and callee behaviour the solver decides that every return path of "
            "next_value/next_datum restores the depth counter, every re-entrant call (builders, quote shorthands) runs "
            "at a strictly smaller non-zero depth (so each call-graph cycle decreases a u8: nesting is bounded through "
            "any construct), no counter underflow, limit error only below 2 remaining levels, initial budget in "
            "[101,200]; number-scanner and whitespace kernels have no reachable panic (C05/C12 claims); reader kernels "
            "are panic-free for all inputs <= 3 bytes (Kani).",
    "note": "Whole-parser 'arbitrary bytes' executions (exhaustive <=3-byte strings through every entry point, 10^6-"
            "deep inputs as runs) are enumeration, not this technique; the solver claim is the protocol plus kernel "
            "totality. parse_token and the builders are stubbed as arbitrary-result callees in the depth claim.",
}
CLAIMS["C12"] = {
    "engine": "E2-mirsym + E1-kani",
    "design_ref": "DESIGN.md §1 C12",
    "technique": "symbolic execution of parse_whitespace and the iterator adapters (z3, loop induction); Kani on the "
                 "token-ending scanners",
    "text": "The solver decides that parse_whitespace skips exactly SP/TAB/LF/CR/FF and ';' comments to LF/EOF for any "
            "amount of trivia, hands back the first other byte unconsumed, never fails except on a failing read; that "
            "the three iteration adapters are next_*().transpose() (terminate on Ok(None)); and (Kani) that every "
            "scanner that ends a token by lookahead stops before each trivia byte.",
    "note": "Concatenations of whole printed values and interleaved call histories are outside; the progress clause is "
            "claimed per function, not for whole runs.",
}

CLAIMS["C07"] = {
    "engine": "E2-mirsym + E1-kani",
    "design_ref": "DESIGN.md §1 C07",
    "technique": "symbolic execution of the printer's MIR with z3 (write discipline, error propagation, emitted text "
                 "vs documented spelling); Kani harnesses printing atoms into a short-writing / failing sink",
    "text": "For every printer function the solver decides that all output goes through write_all/write_fmt, that "
            "output stops at the first failing write and the error is returned, and that the leaf methods emit exactly "
            "the documented text for all arguments and all 576 option sets (default formatter == customised formatter "
            "with default options follows from both matching the same spelling table); Kani prints integers, booleans, "
            "nil, null, symbols and keywords into a sink that accepts 0..=3 bytes per call or fails at any offset. "
            "to_writer / to_writer_custom put the printer directly on the caller's sink and return Err iff printing failed.",
    "note": "E2 abstracts the writer to 'each write_all succeeds or fails'; that write_all itself delivers all bytes "
            "to a short-writing sink is std's contract (restated in the Kani sink). Whole compound values end to end "
            "(strings longer than the Kani bounds, nested lists) are covered structurally (loop-cut claims), not by runs.",
}

CLAIMS["C04"] = {
    "engine": "E2-mirsym",
    "design_ref": "DESIGN.md §1 C04",
    "technique": "symbolic execution of the value serializer's / deserializer's scalar leaves (z3 bit-vectors and IEEE floats)",
    "text": "Scalar leaves only: for every value of i8..u64, f32, f64, bool, char the solver decides that serialize_* "
            "yields the Value of the same mathematical value / bits, and that every numeric deserialize_* hands exactly "
            "the stored payload to the visitor method matching its representation; with Serde's primitive visitors this "
            "is the scalar round trip at every width and boundary. Text path of byte buffers: parse_byte_list accepts "
            "every octet 0..255 and rejects 256 (any list length).",
    "note": "Narrow by design: every structural category (sequences, maps, structs, enums, options of options) and the "
            "text path are NOT decided - the collectors build Value trees through Value::list/append, which is outside "
            "both engines (measured). The C14 dispatch tables cover the deserializer side of structure.",
}
CLAIMS["C14"] = {
    "engine": "E2-mirsym",
    "design_ref": "DESIGN.md §1 C14",
    "technique": "symbolic execution of every deserialize_* method and the Seq/Map access steps with the input Value's "
                 "kind symbolic (z3), compared with the documented acceptance table",
    "text": "For 26 deserializer methods x 11 value kinds x 3 number representations the solver decides which visitor "
            "method is called (vector or list for sequences and tuples, empty list or alist for maps/structs, symbol or "
            "pair for enums, empty/one-element list for options) and that every other kind is rejected with a data "
            "error; list/map access rejects improper tails and non-pair entries; scalar serializer leaves as C04. "
            "Serializer shapes: every structural method and collector builds exactly the documented term (c14_ser_shapes).",
    "note": "Serializer shapes are decided over stubbed Value constructors (Value::list / cons / symbol as term builders); "
            "that Value::append / list build the chain is C15's claim.",
}
CLAIMS["C18"] = {
    "engine": "E2-mirsym",
    "design_ref": "DESIGN.md §1 C18",
    "technique": "reachability of every panic site in serde-lexpr's value deserializer under an arbitrary input Value (z3)",
    "text": "No panic is reachable in any deserialize_* method or access step for any input value, except the documented "
            "expect in next_value_seed, reachable only when the visitor asks for a value after the end of the map; "
            "all rejections are message errors, classified as Category::Data; integer serialisation keeps the value "
            "(one half of self-consistency). "
            "c18_error_impls: every method of impl de::Error / ser::Error for serde_lexpr::Error found in the current source builds a message error (the kind classify maps to Category::Data).",
    "note": "The re-serialisation self-consistency clause for structured values is outside the solver (whole Value "
            "trees); a native serde corpus (3469 cases) is used as confirmation only. Visitors are abstract (arbitrary result), so totality of user visitors is not claimed.",
}
CLAIMS["C01"] = {
    "engine": "E2-mirsym + E1-kani",
    "design_ref": "DESIGN.md §1 C01",
    "technique": "symbolic execution (z3) of printer and reader functions against one shared spelling table, composed per byte / token class",
    "text": "Print half: every leaf formatter method, the string-escape and character writers and the list printer emit "
            "the documented text for all arguments (E2, also Kani atoms into sinks). Parse half: R6RS escapes, #\\ "
            "characters, the number scanner (C05), token dispatch and the list builders read exactly those spellings "
            "back (E2). Composition: z3 decides for all 256 bytes that what the string printer emits is mapped back to "
            "the same byte by the escape semantics; lists: dot emitted iff cdr is neither () nor a pair, and the builder "
            "accepts exactly that form. "
            "c01_parse_entry_points: every from_str / from_slice / from_reader entry point (value and datum API, Parser constructors, FromStr) reaches the one parser driver once, through the reader of its kind, with the option set its name promises.",
    "note": "The round trip is decided piecewise (per function, per byte class, per loop step) and composed through the "
            "shared spec; whole nested values are not executed end to end (Kani cannot run the parser on symbolic input, "
            "measured). ryu (float to shortest decimal) is a trusted dependency; names are abstract (no identifier grammar).",
}
CLAIMS["C02"] = {
    "engine": "E2-mirsym",
    "design_ref": "DESIGN.md §1 C02",
    "technique": "symbolic execution (z3) with all printer option fields (576 sets) resp. all parser option fields (1536 sets) symbolic",
    "text": "The customised formatter emits the documented spelling under every option set (nil x4, bool x2, keyword x3, "
            "vector x2, bytes x3, char x2, string escapes x2); parse_token reads each of these spellings as the "
            "corresponding token exactly under the compatible parser options (c08_token_dispatch); Emacs string "
            "escapes, ?c characters and octal unibyte strings are read back as emitted; digit accumulators of octal / "
            "\\u / #\\x escapes; Emacs byte strings print one \\ooo per octet; both Emacs string scanners decide bytes vs string "
            "by one specification; option builders / presets are the documented ones.",
    "note": "As C01: piecewise and composed through the spec tables; the documented nil/t/empty-bytes folding is part of "
            "the spec.",
}
CLAIMS["C06"] = {
    "engine": "E2-mirsym + E1-kani",
    "design_ref": "DESIGN.md §1 C06",
    "technique": "symbolic execution with a reader that can fail at any position (z3); Kani three-way comparison of the reader kernels",
    "text": "E2: in 23 scanner / kernel functions and the 4 builders a failing read (resp. failing callee) ends the "
            "function with that error on every path - never a value, never EOF, never another error. E1: for every "
            "input of <= 3 bytes the symbol scanner gives the same "
            "result, error category and consumed prefix for byte-slice, stream and (valid UTF-8) str input. E2 scanner "
            "claims: the slice and the stream implementation of the symbol and R6RS string scanners each meet ONE "
            "specification for inputs of any length (terminators, one byte per step, exact range / copied bytes, in-bounds "
            "slicing, I/O errors at the failing byte). "
            "E1 stream primitives (c06_stream_failure_surfaces): for streams of 0-2 good bytes followed by a read failure of "
            "kind Other / UnexpectedEof / WouldBlock / BrokenPipe and every sequence of 4 peek / next calls, the good bytes are "
            "delivered in order and the first operation that needs the failing byte returns an I/O error - never end of input. "
            "Reader protocol: the digit-loop step claims of the number scanner (c05_*_step) account for every byte consumed and hand the fraction / exponent scanners the undisturbed lookahead; a discard() known to follow a consuming read without a peek() in between (a no-op for a stream, a skipped byte for a slice) is a reachable-panic finding in every claim that uses the reader model.",
    "note": "IoRead reads through io::Bytes one byte per read call, so chunking schedules are immaterial (stated, not "
            "explored); Interrupted is retried inside std's Bytes (trusted). Whole-parser slice-vs-stream equality on "
            "long inputs is not executed.",
}
CLAIMS["C08"] = {
    "engine": "E2-mirsym + E1-kani",
    "design_ref": "DESIGN.md §1 C08",
    "technique": "symbolic execution of parse_token / parse_list with first byte, lookahead, all option fields and name predicates symbolic (z3); "
                 "Kani/CBMC bounded model checking of with_keyword_syntaxes over every list of 0-3 syntaxes",
    "text": "For every first byte, lookahead byte, all 1536 option sets and abstract names: each token kind is produced "
            "exactly under the spelling and option that governs it, independent of the name's first byte class; numbers "
            "only when the whole token is a literal (also in leading-digit mode); quote shorthands map to the four "
            "heads; lists and vectors close only at their own closer, dotted tails included; the option sets are exactly "
            "what the public builder API produces (each with_* changes one field, getters, disjoint keyword flags, presets). "
            "c08_list_value_shape: the value list reader stores elements, dot-initial names and the dotted tail unchanged at the right place of the chain. "
            "c08_keyword_syntaxes (Kani): with_keyword_syntaxes replaces the enabled keyword syntaxes by exactly the listed ones (lists of 0-3, 5 starting option sets) and changes nothing else.",
    "note": "Names are abstracted to three predicates (is nil, is t, ends with ':'); the scanners below parse_token are "
            "separate claims. Non-interference between options follows from the classifier the code is checked against.",
}
CLAIMS["C10"] = {
    "engine": "E2-mirsym",
    "design_ref": "DESIGN.md §1 C10",
    "technique": "lockstep symbolic execution of value and datum readers over shared symbolic callee results (z3)",
    "text": "next_datum vs next_value, parse_list_meta vs parse_list, parse_vector_meta vs parse_vector: for every "
            "reader / token / callee behaviour the datum variant takes exactly the same steps with the same arguments, "
            "error codes, depth budget and empty/non-empty outcome. Accessors: one step of datum::ListIter::next from each "
            "of its 4 states over an abstract cell yields what the value's own accessors expose (car with its span; pair -> "
            "next cell, () -> end, anything else incl. #nil -> None then the tail once); the four Datum constructors attach "
            "span information of the same shape as the value. "
            "Shape (c10_list_meta_shape, c10_vector_meta_shape): the datum builders store every element / dotted tail together with its OWN span information at the same place of the value chain and the span chain (one-step induction + base case over cells and span nodes as heap aggregates); the two heads / vectors are what is returned.",
    "note": "The accessor claims assume span information shaped as the builders shape it (SpanInfo::Cons / Vec exactly "
            "where the value is a pair / vector), which the shape claims establish; c10_ref_pair_vector covers as_pair and vector_iter.",
}
CLAIMS["C11"] = {
    "engine": "E1-kani + E2-mirsym",
    "design_ref": "DESIGN.md §1 C11",
    "technique": "Kani on the position layer of all three readers; symbolic execution of next_datum's span end points (z3)",
    "text": "E1: for every buffer <= 5 bytes, consumed count and optional peek, SliceRead, StrRead and IoRead report the "
            "same line / column / byte offset, equal to the specification. E2: next_datum records a datum's start right "
            "after the preceding trivia and its end right after its last byte for all token kinds (quote shorthand head = "
            "the shorthand characters). "
            "Shape claims of C10: each element's span information sits where the element sits, a dot-initial name's span runs from before the dot to after the name, tails go to the cdr slots; native `spans` domain (span tree vs value tree, re-reading every covered text) as confirmation.",
    "note": "Containment / ordering of sibling spans and 're-parse of the covered text' are implied only for the top-level "
            "datum of each recursion; not executed on arbitrary layouts (native span dump is used for replay only).",
}
CLAIMS["C13"] = {
    "engine": "E2-mirsym",
    "design_ref": "DESIGN.md §1 C13",
    "technique": "symbolic execution of the readers of alternative spellings against the printers' canonical spellings (z3)",
    "text": "Alternative spellings the parser accepts (radix prefixes, every escape, character names and hex scalars, "
            "bracket lists, dotted tails, keywords in each syntax) denote values whose canonical printed form is read "
            "back as the same token kind: token dispatch is closed under the printer's spellings for all option sets; "
            "numeric normal forms via C05.",
    "note": "Fixed-point of whole texts is not executed; lenient symbols with unusual constituents are not modelled (names abstract).",
}
CLAIMS["C16"] = {
    "engine": "E2-mirsym + E1-kani",
    "design_ref": "DESIGN.md §1 C16",
    "technique": "symbolic execution (z3) of Cons::clone / eq / drop and deserialize_ignored_any on abstract cells; CBMC per-function "
                 "recursion bounds (--unwindset) with unwinding assertions on 5-element lists; native 60000-300000-element witnesses",
    "text": "E2: Cons::clone and == never make a nested call on a cdr that is a pair; the hand-written Drop returns early only "
            "when at most two cells follow (proper or dotted) and otherwise takes one cell off per loop pass; skipping an "
            "unknown serde field (deserialize_ignored_any) never walks the value. E1: for a 5-element list the iterators / "
            "indexing / predicates complete with no recursion. Violations are confirmed natively on long lists with a 2 MiB stack. "
            "c16_lookup_no_recursion / c16_predicates_no_recursion: alist lookup, positional indexing and the list predicates never call themselves for the rest of the list.",
    "note": "compiler-generated drop glue, Debug and the Datum operations are outside the solver's reach; two open "
            "known findings (Datum clone/==, Debug) are re-checked natively on every run.",
}
CLAIMS["C17"] = {
    "engine": "E2-mirsym + E1-kani",
    "design_ref": "DESIGN.md §1 C17",
    "technique": "symbolic execution of the escape decoders' appends to the scratch buffer (z3); Kani re-validation of returned names",
    "text": "E2: R6RS escapes append only ASCII bytes or the UTF-8 encoding of a valid scalar value; Emacs escapes append "
            "raw bytes only on the unibyte path; kernels are panic-free. E1: every name the symbol scanner returns from "
            "arbitrary bytes (slice, stream) or valid UTF-8 (str, unchecked path) re-validates (<= 2 bytes quick, <= 3 thorough). "
            "E2 scanner claims: text handed to the str conversion is exactly the scanned range; from_utf8_unchecked occurs only "
            "in StrRead's two closures.",
    "note": "The printer side (to_string == to_vec) is checked natively by the print corpus only.",
}
CLAIMS["C19"] = {
    "engine": "E2-mirsym + E1-kani",
    "design_ref": "DESIGN.md §1 C19",
    "technique": "symbolic execution of Error::classify / From<Error> and of the scanners' EOF paths (z3); Kani on reported positions",
    "text": "classify and io::Error conversion for all 19 codes; an error decided on a read at end of input is an EOF-"
            "category error in the number scanner and the 11 reader kernels; the `.name` branch of the list builders is never "
            "taken at the end of input; every reported position lies inside the input (E1). "
            "c19_error_constructors: Parser::error, Parser::peek_error and read::error give Error::syntax the code they were given and line AND column of exactly one position() / peek_position() result; Error::syntax stores exactly these.",
    "note": "Two open known findings (character names / hex scalars cut at end of input) are excluded by a named predicate.",
}

NOT_APPLICABLE = {
    "C09": "each point of the quantifier is a Rust program that must be compiled; the macro consumes proc_macro2 "
           "token trees produced by rustc's lexer; Kani ICEs compiling proc_macro2 and the code is String/Vec/"
           "token-tree manipulation outside what the MIR executor models (DESIGN.md §1 C09)",
}
for _p in ["C01", "C02", "C03", "C04", "C05", "C06", "C07", "C08", "C10", "C11", "C12", "C13", "C14", "C15",
           "C16", "C17", "C18", "C19"]:
    if _p not in CLAIMS:
        NOT_APPLICABLE.setdefault(_p, _BUILDING)
for _e in ENGINES:
    _e["serves_properties"] = sorted(p for p, c in CLAIMS.items() if _e["name"].split("-")[0] in c["engine"])
