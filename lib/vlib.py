"""Shared machinery for the lexpr verification checks.

Engines:
  E1  Kani/CBMC harnesses in /verif/kani (path deps on /repo, rebuilt every run)
  E2  mirsym: symbolic execution of rustc MIR dumped from /repo on every run (see /verif/mirsym)

Exit codes of a check: 0 held / 1 violation (replayed) / 2 inconclusive (timeout, engine error,
non-reproducing counterexample).
"""
import json
import os
import re
import shutil
import subprocess
import sys
import time
from concurrent.futures import ThreadPoolExecutor

VERIF = os.path.dirname(os.path.dirname(os.path.abspath(__file__)))
REPO = os.environ.get("LEXPR_REPO", "/repo")
WORK = os.path.join(VERIF, ".work")
KANI_DIR = os.path.join(VERIF, "kani")
REPLAY_DIR = os.path.join(VERIF, "replays")
# VERIF_EVIDENCE_DIR: set by the seeding scripts (bin/seedtest, bin/selfmut) so that runs against a deliberately
# broken /repo never overwrite the evidence record of the unchanged tree; the registered commands do not set it
EVID_DIR = os.environ.get("VERIF_EVIDENCE_DIR") or os.path.join(VERIF, "evidence")
KF_FILE = os.path.join(VERIF, "known_findings.json")

ENV = dict(os.environ)
ENV["CARGO_NET_OFFLINE"] = "true"
ENV.pop("RUSTFLAGS", None)


def log(*a):
    print(*a, file=sys.stderr, flush=True)


# --------------------------------------------------------------------------- known findings

def load_known_findings():
    if not os.path.exists(KF_FILE):
        return []
    with open(KF_FILE) as f:
        return json.load(f).get("findings", [])


def open_findings(prop):
    return [k for k in load_known_findings() if k.get("property") == prop and k.get("status") == "open"]


# --------------------------------------------------------------------------- harness discovery

class Harness:
    def __init__(self, name, module, meta, doc):
        self.name = name
        self.module = module
        self.meta = meta          # dict from '@key value' doc lines
        self.doc = doc            # free text

    @property
    def prop(self):
        return self.meta.get("prop", self.name[:3].upper())

    @property
    def tier(self):
        return self.meta.get("tier", "quick")

    @property
    def timeout(self):
        return int(self.meta.get("timeout", "600"))

    @property
    def features(self):
        # 'fast' (default build), 'nofast' (without fast-float-parsing) or 'both'
        return self.meta.get("features", "fast")

    @property
    def kf(self):
        v = self.meta.get("kf", "")
        return [x for x in v.split() if x]


def discover_harnesses():
    """Parse /verif/kani/src/*.rs: every `#[kani::proof]` fn with its preceding `///` lines.
    Doc lines of the form `/// @key value` are metadata (tier, bound, timeout, features, kf)."""
    out = []
    src = os.path.join(KANI_DIR, "src")
    for fn in sorted(os.listdir(src)):
        if not fn.endswith(".rs"):
            continue
        lines = open(os.path.join(src, fn)).read().split("\n")
        doc = []
        pending = False
        for ln in lines:
            s = ln.strip()
            if s.startswith("///"):
                if not pending:
                    doc.append(s[3:].strip())
                continue
            if s.startswith("#[kani::proof"):
                pending = True
                continue
            if s.startswith("#["):
                continue
            m = re.match(r"(?:pub\s+)?fn\s+([A-Za-z0-9_]+)\s*\(", s)
            if m and pending:
                meta, text = {}, []
                for d in doc:
                    mm = re.match(r"@(\w+)\s*(.*)", d)
                    if mm:
                        meta[mm.group(1)] = mm.group(2).strip()
                    else:
                        text.append(d)
                out.append(Harness(m.group(1), fn[:-3], meta, " ".join(text).strip()))
                pending = False
                doc = []
                continue
            if s and not s.startswith("//"):
                if not pending:
                    doc = []
    return out


# --------------------------------------------------------------------------- Kani runner

SUMMARY_RE = re.compile(r"\*\* (\d+) of (\d+) failed")
COVER_RE = re.compile(r"\*\* (\d+) of (\d+) cover properties satisfied")


def parse_kani_output(text, names):
    """Split a (regular-format) cargo-kani log into per-harness results."""
    res = {}
    # segments start at "Checking harness <name>..."
    parts = re.split(r"^Checking harness ([^\s.]+(?:::[^\s.]+)*)\.\.\.\s*$", text, flags=re.M)
    # parts = [preamble, name1, body1, name2, body2, ...]
    for i in range(1, len(parts) - 1, 2):
        full = parts[i]
        short = full.split("::")[-1]
        body = parts[i + 1]
        r = {"status": "error", "checks": 0, "failed": 0, "covers_sat": 0, "covers": 0,
             "solver_s": None, "failed_checks": [], "unwind_fail": False, "raw_tail": body[-1500:]}
        m = SUMMARY_RE.search(body)
        if m:
            r["failed"], r["checks"] = int(m.group(1)), int(m.group(2))
        m = COVER_RE.search(body)
        if m:
            r["covers_sat"], r["covers"] = int(m.group(1)), int(m.group(2))
        m = re.search(r"Verification Time: ([0-9.]+)s", body)
        if m:
            r["solver_s"] = float(m.group(1))
        if "VERIFICATION:- SUCCESSFUL" in body:
            r["status"] = "pass"
        elif "VERIFICATION:- FAILED" in body:
            r["status"] = "fail"
            fails = re.findall(r"Failed Checks: (.*)\n\s*File: \"([^\"]*)\", line (\d+), in (\S+)", body)
            r["failed_checks"] = [{"desc": a, "file": b, "line": int(c), "fn": d} for a, b, c, d in fails]
            if any("unwinding assertion" in f["desc"] for f in r["failed_checks"]):
                r["unwind_fail"] = True
            # CBMC crash / OOM shows up as FAILED with no failed checks or 'Status: ERROR'
            if not r["failed_checks"] or "CBMC failed" in body or "Status: ERROR" in body:
                if not [f for f in r["failed_checks"]]:
                    r["status"] = "error"
        if "CBMC timed out" in body or "timed out" in body.lower() and r["status"] != "pass":
            if r["status"] != "fail" or not r["failed_checks"]:
                r["status"] = "timeout"
        res[short] = r
    for n in names:
        res.setdefault(n, {"status": "error", "checks": 0, "failed": 0, "covers_sat": 0, "covers": 0,
                           "solver_s": None, "failed_checks": [], "unwind_fail": False,
                           "raw_tail": text[-3000:]})
    return res


def kani_cmd(harness_names, target_dir, features, extra=None, timeout_each=None):
    cmd = ["cargo", "kani", "--manifest-path", os.path.join(KANI_DIR, "Cargo.toml"),
           "--target-dir", target_dir, "--no-default-features"]
    if features:
        cmd += ["--features", ",".join(features)]
    cmd += ["--exact"]
    for n in harness_names:
        cmd += ["--harness", n]
    z = set()
    if timeout_each:
        z.add("unstable-options")
    extra = list(extra or [])
    if "-Z" in extra:
        pass
    for zz in sorted(z):
        cmd += ["-Z", zz]
    if timeout_each:
        cmd += ["--harness-timeout", "%ds" % timeout_each]
    cmd += extra
    return cmd


def resolve_unwindset(tdir, h, features):
    """`@unwindset <pretty fn name>:k; ...`  ->  cbmc --unwindset argument with the mangled names of this build.
    Needs the goto binary, so the crate is code-generated first (--only-codegen)."""
    import glob
    full = "%s::%s" % (h.module, h.name)
    cmd = kani_cmd([full], tdir, features) + ["--only-codegen"]
    subprocess.run(cmd, cwd=KANI_DIR, env=ENV, capture_output=True, text=True, timeout=900)
    outs = sorted(glob.glob(os.path.join(tdir, "**", "out", "*%s.out" % h.name), recursive=True), key=os.path.getmtime)
    if not outs:
        return None
    p = subprocess.run(["goto-instrument", "--list-goto-functions", outs[-1]], capture_output=True, text=True, timeout=300)
    table = {}
    for ln in p.stdout.split("\n"):
        m = re.match(r"^(.*?) /\* (\S+) \*/\s*$", ln)
        if m:
            table.setdefault(m.group(1).strip(), []).append(m.group(2))
    items = []
    for spec in h.meta["unwindset"].split(";"):
        spec = spec.strip()
        if not spec:
            continue
        pretty, k = spec.rsplit(":", 1)
        hits = table.get(pretty.strip(), [])
        if not hits:
            hits = [v for kk, vs in table.items() if pretty.strip() in kk for v in vs]
        for mangled in hits:
            items.append("%s:%s" % (mangled, k.strip()))
    return ",".join(items) if items else None


def run_kani_group(gid, harnesses, features, tag, mem_gb=14):
    """One cargo-kani process (own target dir), harnesses verified sequentially."""
    names = [h.name for h in harnesses]
    tdir = os.path.join(WORK, "kani", tag, "g%d" % gid)
    os.makedirs(tdir, exist_ok=True)
    full = ["%s::%s" % (h.module, h.name) for h in harnesses]
    tmo = max(h.timeout for h in harnesses)
    extra = []
    if any(h.meta.get("stubbing") for h in harnesses):
        extra += ["-Z", "stubbing"]
    tail = []
    if len(harnesses) == 1 and harnesses[0].meta.get("unwindset"):
        uw = resolve_unwindset(tdir, harnesses[0], features)
        if uw:
            # per-function recursion bounds; CBMC's unwinding assertions stay on, so a bound that is too small FAILS
            tail = ["--cbmc-args", "--unwindset", uw]
    cmd = kani_cmd(full, tdir, features, extra=extra, timeout_each=tmo) + tail
    logf = os.path.join(tdir, "kani.log")
    t0 = time.time()
    total_to = 240 + sum(h.timeout + 30 for h in harnesses)
    shell = "ulimit -v %d; exec %s" % (mem_gb * 1024 * 1024, " ".join(shq(c) for c in cmd))
    try:
        with open(logf, "w") as lf:
            p = subprocess.run(["bash", "-c", shell], cwd=KANI_DIR, env=ENV, stdout=lf,
                               stderr=subprocess.STDOUT, timeout=total_to)
        rc = p.returncode
    except subprocess.TimeoutExpired:
        rc = -9
    text = open(logf, errors="replace").read()
    res = parse_kani_output(text, names)
    build_failed = ("error: could not compile" in text or "error[E" in text) and "Checking harness" not in text
    for n in names:
        res[n]["wall_s"] = round(time.time() - t0, 1)
        res[n]["log"] = logf
        res[n]["build_failed"] = build_failed
        if rc == -9 and res[n]["status"] == "error":
            res[n]["status"] = "timeout"
    return res


def shq(s):
    import shlex
    return shlex.quote(s)


def run_kani(harnesses, features, tag, jobs=12):
    """Run harnesses in parallel groups. Returns {name: result}."""
    if not harnesses:
        return {}
    # longest first, round-robin into groups
    hs = sorted(harnesses, key=lambda h: -h.timeout)
    solo = [h for h in hs if h.meta.get("unwindset")]
    rest = [h for h in hs if not h.meta.get("unwindset")]
    ng = max(1, min(jobs, len(rest))) if rest else 0
    groups = [[] for _ in range(ng)]
    for i, h in enumerate(rest):
        groups[i % ng].append(h)
    groups = [g for g in groups if g] + [[h] for h in solo]
    ng = len(groups)
    out = {}
    with ThreadPoolExecutor(max_workers=ng) as ex:
        futs = [ex.submit(run_kani_group, i, g, features, tag) for i, g in enumerate(groups)]
        for f in futs:
            out.update(f.result())
    return out


def kani_playback(h, features, tag):
    """Re-run a failing harness with concrete playback, return generated unit test text (or None)."""
    tdir = os.path.join(WORK, "kani", tag, "pb_" + h.name)
    os.makedirs(tdir, exist_ok=True)
    cmd = kani_cmd(["%s::%s" % (h.module, h.name)], tdir, features,
                   extra=["-Z", "concrete-playback", "--concrete-playback=print"],
                   timeout_each=h.timeout)
    try:
        p = subprocess.run(cmd, cwd=KANI_DIR, env=ENV, capture_output=True, text=True,
                           timeout=h.timeout + 300)
    except subprocess.TimeoutExpired:
        return None
    blocks = re.findall(r"```\s*\n(.*?)```", p.stdout, flags=re.S)
    keep = [b for b in blocks if "Check for `cover`" not in b]
    if not keep:
        return None
    return "\n".join(keep)


# --------------------------------------------------------------------------- native confirmation by domain enumeration
# `kani --concrete-playback` re-runs CBMC with full trace generation; for harnesses over io::Error values that run needs
# > 20 GB and > 10 min although the verdict itself takes ~2 min.  A harness whose symbolic inputs range over a small
# finite domain may declare it:   /// @playback_enum u8=97; u8=98; u8=99; usize=0..2; u8=0..3; bool*4
# (one item per kani::any() call in program order: `type[*count][=v|lo..hi|v,v,..]`, a bare type means every value of a
# bool / 0..255 of a u8).  After CBMC has reported the harness as FAILED, the harness is then run natively through
# kani::concrete_playback_run (the same runtime Kani's own playback tests use) over the whole product of the declared
# values; the first assignment on which the harness panics is the replayed counterexample.  The solver's verdict stays
# the deciding step: the enumeration is never run unless CBMC failed the harness, and if no assignment reproduces the
# result is inconclusive (exit 2), not a violation.

_SIZES = {"u8": 1, "i8": 1, "bool": 1, "u16": 2, "i16": 2, "u32": 4, "i32": 4, "char": 4, "u64": 8, "i64": 8, "usize": 8, "isize": 8}


def parse_playback_enum(spec):
    doms = []
    for item in spec.split(";"):
        item = item.strip()
        if not item:
            continue
        lhs, _, rhs = item.partition("=")
        ty, _, cnt = lhs.strip().partition("*")
        ty = ty.strip()
        n = int(cnt) if cnt.strip() else 1
        size = _SIZES[ty]
        rhs = rhs.strip()
        if not rhs:
            vals = [0, 1] if ty == "bool" else list(range(256)) if size == 1 else None
            if vals is None:
                raise ValueError("playback_enum: %s needs explicit values" % ty)
        elif ".." in rhs:
            lo, hi = rhs.split("..")
            vals = list(range(int(lo), int(hi) + 1))
        else:
            vals = [int(x) for x in rhs.split(",")]
        enc = [list((v % (1 << (8 * size))).to_bytes(size, "little")) for v in vals]
        doms.extend([enc] * n)
    return doms


def playback_enum_test(h, doms=None):
    """Source of a native #[test] that runs harness `h` over the product of its declared input domains."""
    if doms is None:
        doms = parse_playback_enum(h.meta["playback_enum"])
    total = 1
    for d in doms:
        total *= len(d)
    if total > 2000000:
        raise ValueError("playback_enum domain of %s too large (%d)" % (h.name, total))
    lit = "vec![%s]" % ", ".join("vec![%s]" % ", ".join("vec!%r" % (v,) for v in d) for d in doms)
    return """
#[test]
fn kani_concrete_playback_enum_%(n)s() {
    // every kani::any() of the harness, in program order, with the values it is enumerated over
    let doms: Vec<Vec<Vec<u8>>> = %(lit)s;
    let mut idx = vec![0usize; doms.len()];
    let prev = std::panic::take_hook();
    std::panic::set_hook(Box::new(|_| {}));
    let mut found: Option<(Vec<Vec<u8>>, String)> = None;
    let mut runs = 0u64;
    'outer: loop {
        let vals: Vec<Vec<u8>> = idx.iter().enumerate().map(|(i, &j)| doms[i][j].clone()).collect();
        let v2 = vals.clone();
        runs += 1;
        let r = std::panic::catch_unwind(std::panic::AssertUnwindSafe(move || kani::concrete_playback_run(v2, %(n)s)));
        if let Err(p) = r {
            let msg = if let Some(s) = p.downcast_ref::<String>() { s.clone() }
                      else if let Some(s) = p.downcast_ref::<&str>() { s.to_string() } else { String::from("panic") };
            // not counterexamples: the harness read fewer / more values than supplied, or an assumption excluded the input
            let bookkeeping = msg.contains("concrete values left over") || msg.contains("Not enough det vals")
                || msg.contains("kani::assume");
            if !bookkeeping {
                found = Some((vals, msg));
                break 'outer;
            }
        }
        let mut i = doms.len();
        loop {
            if i == 0 { break 'outer; }
            i -= 1;
            idx[i] += 1;
            if idx[i] < doms[i].len() { break; }
            idx[i] = 0;
        }
    }
    std::panic::set_hook(prev);
    if let Some((v, m)) = found {
        panic!("ENUM-REPRODUCED after {} native runs: concrete_vals={:?} :: {}", runs, v, m);
    }
    println!("ENUM-CLEAN {} native runs", runs);
}
""" % {"n": h.name, "lit": lit}


def native_replay_kani(h, test_src, features):
    """Compile the concrete-playback unit test into a scratch copy of the harness crate and run it
    natively (dev profile) against /repo. Returns (reproduced: bool|None, output)."""
    scratch = os.path.join(WORK, "playback", h.name)
    if os.path.exists(scratch):
        shutil.rmtree(scratch)
    shutil.copytree(KANI_DIR, scratch, ignore=shutil.ignore_patterns("target"))
    modfile = os.path.join(scratch, "src", h.module + ".rs")
    with open(modfile, "a") as f:
        f.write("\n" + test_src + "\n")
    tname = "kani_concrete_playback_"
    cmd = ["cargo", "kani", "playback", "-Z", "concrete-playback", "--manifest-path",
           os.path.join(scratch, "Cargo.toml"), "--no-default-features"]
    if features:
        cmd += ["--features", ",".join(features)]
    cmd += ["--", tname]
    try:
        p = subprocess.run(cmd, cwd=scratch, env=ENV, capture_output=True, text=True, timeout=900)
    except subprocess.TimeoutExpired:
        return None, "playback timed out"
    out = p.stdout + p.stderr
    if "test result: FAILED" in out or "panicked at" in out:
        rep = True
    elif "test result: ok" in out:
        rep = False
    else:
        rep = None
    shutil.rmtree(os.path.join(scratch, "target"), ignore_errors=True)
    # the test's own output (stdout) first: the compiler warnings on stderr must not push it out of the tail
    key = "\n".join(ln for ln in p.stdout.split("\n") if "ENUM-" in ln)
    return rep, p.stderr[-1200:] + "\n" + p.stdout[-3000:] + "\n" + key[-1500:]


# --------------------------------------------------------------------------- evidence

def write_evidence(prop, tier, seed, level, coverage, assumptions, wall_s, violations):
    # partial runs (--only / --no-e1 / --no-e2) are development aids: their record goes to .work, never to evidence/
    ddir = EVID_DIR
    if prop.endswith("_partial"):
        ddir = os.path.join(WORK, "partial")
        prop_id = prop[:-len("_partial")]
    else:
        prop_id = prop
    os.makedirs(ddir, exist_ok=True)
    ev = {"property_id": prop_id, "tier": tier, "seed": seed, "level": level, "coverage": coverage,
          "assumptions": assumptions, "wall_s": round(wall_s, 1), "violations": violations}
    tmp = os.path.join(ddir, prop_id + ".json.tmp")
    with open(tmp, "w") as f:
        json.dump(ev, f, indent=1, sort_keys=True)
    os.replace(tmp, os.path.join(ddir, prop_id + ".json"))
    return ev


def save_replay(prop, name, payload):
    d = os.path.join(REPLAY_DIR, prop)
    os.makedirs(d, exist_ok=True)
    p = os.path.join(d, name)
    with open(p, "w") as f:
        f.write(payload)
    return p
