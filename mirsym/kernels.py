"""E2 over the reader kernels of parse/read.rs that are generic over the `Read` trait (escape decoders, character
scanners, the UTF-8 sequence decoder): totality (C03), EOF classification (C19), escape semantics of what the
printers emit (C01/C02) and the UTF-8 discipline of what is appended to the scratch buffer (C17)."""
import z3

from . import common as K
from . import ctx as C
from . import replay as RP
from . import stubs as S
from .c19 import eof_rule, spec_category
from .claims import Claim
from .symex import Agg, Blob, BoolV, EnumV, Int, Opaque, Ref, UnitV


def bv(v, w=8):
    return z3.BitVecVal(v, w)


def run_kernel(cx, res, fname, extra_args=None, exits=(), loop_mode="cut", io=True, timeout_s=120, unroll=1):
    """Explore a free function `fname(read: &mut R, [scratch: &mut Vec<u8>], ...)` of read.rs."""
    eng = C.make_engine(cx, [], loop_mode=loop_mode, timeout_s=timeout_s, unroll=unroll, max_paths=20000)
    rd = S.Reader(eng, with_io_errors=io)
    import re

    def mk_exit(nm):
        def h(engine, st, fr, callee, argv, m):
            f = C.resolve_callee(cx, callee)
            ret = f.ret_ty if f else ""
            is_err = z3.Bool("x_%s_err_%d" % (nm, next(engine.fresh)))
            if "Result<u32" in ret:
                okv = engine.sym_int("u32", "x_" + nm)
            elif "Result<Option<u32>" in ret:
                okv = S.mk_option(z3.Bool("x_%s_some_%d" % (nm, next(engine.fresh))), engine.sym_int("u32", "x_" + nm))
            elif "Result<char" in ret:
                okv = engine.sym_int("char", "x_" + nm)
            elif "Result<ElispEscape" in ret:
                okv = EnumV("ElispEscape", z3.BitVec("x_%s_k_%d" % (nm, next(engine.fresh)), 64), {})
            else:
                okv = Blob("ret:" + nm)
            st.events.append(("call", nm, tuple(argv), st.notes.get("idx"), okv))
            st.notes["last_exit_val"] = okv
            # an exit may consume input
            st.notes["idx"] = z3.BitVec("idx_after_%s_%d" % (nm, next(engine.fresh)), 64)
            return S.mk_result(engine, is_err, okv, Opaque("Error", "from:" + nm, {"kind": "callee"}))
        return (re.compile(r"^%s(::<.*>)?$" % re.escape(nm)), h)
    eng.stubs = [mk_exit(n) for n in exits] + S.reader_stubs(rd) + S.SCRATCH_STUBS + S.COMBINATOR_STUBS + S.CORE_STUBS
    fn = C.resolve_callee(cx, fname)
    if fn is None:
        raise Exception("kernel %s not found" % fname)
    info = {}

    def init(e, st, fr):
        st.heap["reader"] = Opaque("R", "read")
        st.heap["scratchv"] = Opaque("Vec<u8>", "scratch")
        cons = list(rd.base)
        k = 0
        extra = list(extra_args(e)) if extra_args else []
        for a in fn.args:
            ty = fn.local_ty.get(a, "")
            if k == 0:
                fr.locals[a] = Ref(("H", "reader"))
            elif "Vec<u8>" in ty:
                fr.locals[a] = Ref(("H", "scratchv"))
            else:
                fr.locals[a] = extra.pop(0)
            k += 1
        info["idx0"] = z3.BitVec("idx0", 64)
        st.notes["idx"] = info["idx0"]
        st.notes["scratch"] = ()
        st.notes["in"] = ()
        return cons + [z3.ULT(info["idx0"], z3.BitVecVal(1 << 40, 64))]

    def on_header(e, st, fr, bb, what):
        st.notes["idx"] = z3.BitVec("idxh%d_%d" % (bb, len(st.notes["in"])), 64)

    def havoc(e, st, fr, bb):
        rec = {"idx": st.notes["idx"], "locals": dict((k, v) for k, v in fr.locals.items() if isinstance(v, (Int, BoolV, Agg)))}
        st.notes["in"] = st.notes["in"] + ((bb, rec),)
        st.notes["scratch_at_header"] = len(st.notes["scratch"])
        return [z3.ULT(st.notes["idx"], z3.BitVecVal(1 << 40, 64))]
    eng.on_header, eng.havoc_hook = on_header, havoc
    terms = eng.explore(fn.name, init)
    res.absorb(eng)
    return eng, rd, fn, info, terms


KERNELS = [
    ("parse_r6rs_escape", (), []),
    ("decode_r6rs_hex_escape", (), []),
    ("parse_elisp_escape", (), []),
    ("decode_elisp_hex_escape", (), []),
    ("decode_elisp_octal_escape", ("u8",), []),
    ("decode_elisp_uni_escape", ("u8",), []),
    ("parse_r6rs_char", (), []),
    ("decode_r6rs_char_hex_escape", (), []),
    ("parse_elisp_char", (), []),
    ("decode_elisp_char_escape", (), []),
    ("decode_utf8_sequence", ("u8",), []),
]

TRUNCATED = {
    "parse_r6rs_escape": [b'"\\', b'"a\\x', b'"\\x4'], "decode_r6rs_hex_escape": [b'"\\x41'],
    "parse_elisp_escape": [b'"\\', b'"\\^', b'"\\N', b'"\\N{', b'"\\N{U', b'"\\N{U+41', b'"\\u00', b'"\\U0000', b'"\\N{U+D800'],
    "parse_r6rs_char": [b"#\\", b"#\\spac", b"#\\nu", b"#\\xD800"], "parse_elisp_char": [b"?", b"?\\", b"?\\xD800"],
    "decode_elisp_char_escape": [b"?\\^", b"?\\N{U+4", b"?\\u12", b"?\\xD800", b"?\\N{U+D800"],
    "decode_utf8_sequence": [b"\xce", b"#\\\xe2\x82", b"(\xf0\x9f"],
}


def claim_kernel_totality(cx, res, kf):
    res.assumptions.append("octal/initial byte arguments range over all u8 values that the callers pass (asserted as documented preconditions: "
                           "octal initial in '0'..='7', uni escape count in {4, 8}, utf-8 initial >= 0x80)")
    n = 0
    for fname, extra_tys, _ in KERNELS:
        def extra(e, fname=fname, extra_tys=extra_tys):
            out = []
            for ty in extra_tys:
                v = e.sym_int(ty, "arg")
                out.append(v)
            return out
        pre = {}

        def extra2(e, fname=fname, extra_tys=extra_tys):
            vs = extra(e)
            pre["args"] = vs
            return vs
        eng, rd, fn, info, terms = run_kernel(cx, res, fname, extra_args=extra2)
        pcs = []
        if fname == "decode_elisp_octal_escape":
            pcs = [z3.UGE(pre["args"][0].e, bv(48)), z3.ULE(pre["args"][0].e, bv(55))]
        if fname == "decode_elisp_uni_escape":
            pcs = [z3.Or(pre["args"][0].e == 4, pre["args"][0].e == 8)]
        if fname == "decode_utf8_sequence":
            pcs = [z3.UGE(pre["args"][0].e, bv(128))]
        for t in terms:
            if t.kind == "PANIC":
                n += 1
                res.must_be_unsat(list(t.state.pc) + pcs, "%s: reachable panic `%s`" % (fname, t.info.get("msg")))
            elif t.kind in ("STEP_LIMIT", "UNROLL_LIMIT"):
                res.error = "%s: exploration bound hit" % fname
        res.notes.append("%s: %d paths" % (fname, len(terms)))
    res.vacuity.append(("overflow / index assertions were examined", n > 0))


def claim_kernel_eof(cx, res, kf):
    total = 0
    for fname, extra_tys, _ in KERNELS:
        def extra(e, extra_tys=extra_tys):
            return [e.sym_int(ty, "arg") for ty in extra_tys]
        eng, rd, fn, info, terms = run_kernel(cx, res, fname, extra_args=extra)
        cands = TRUNCATED.get(fname, [])
        opts = "elisp" if "elisp" in fname else "default"
        total += eof_rule(res, eng, rd, terms, fname, cands, opts, kf=kf)
    res.vacuity.append(("syntax-error paths examined", total >= 10))


R6RS_MNEMONIC = {ord('"'): 0x22, ord("\\"): 0x5C, ord("a"): 7, ord("b"): 8, ord("f"): 0x0C, ord("n"): 0x0A, ord("r"): 0x0D,
                 ord("t"): 9, ord("v"): 0x0B, ord("|"): 0x7C}
ELISP_MNEMONIC = {ord('"'): 0x22, ord("\\"): 0x5C, ord("a"): 7, ord("b"): 8, ord("t"): 9, ord("n"): 10, ord("v"): 11, ord("f"): 12,
                  ord("r"): 13, ord("e"): 27, ord("s"): 32, ord("d"): 127}


def scratch_items(st):
    return list(st.notes.get("scratch", ()))


def claim_r6rs_escape(cx, res, kf):
    """parse_r6rs_escape + decode_r6rs_hex_escape: semantics of every escape the default printer emits, and nothing but
    ASCII bytes or the UTF-8 encoding of a valid scalar value is appended to the scratch buffer."""
    eng, rd, fn, info, terms = run_kernel(cx, res, "parse_r6rs_escape", exits=["decode_r6rs_hex_escape"])
    i0 = info["idx0"]
    ch = rd.at(i0)
    eof = z3.UGE(i0, rd.len)
    seen = {"mnemonic": 0, "hex": 0, "invalid": 0}
    for t in terms:
        st = t.state
        pc = list(st.pc)
        if t.kind == "PANIC":
            res.must_be_unsat(pc, "reachable panic")
            continue
        kind, payload = K.classify_return(eng, t)
        items = scratch_items(st)
        if kind == "ok":
            if len(items) != 1:
                res.violations.append({"what": "an R6RS escape appends %d items to the string" % len(items), "replayed": None})
                continue
            it = items[0]
            if it[0] == "byte":
                seen["mnemonic"] += 1
                allowed = z3.Or(*[z3.And(ch == bv(k), it[1].e == bv(v)) for k, v in R6RS_MNEMONIC.items()])

                def onm(m, ch=ch):
                    c = K.mval(m, ch)
                    text = b'"\\' + bytes([c]) + b'"'
                    nat = RP.single(text, "default", "slice")
                    res.replays += 1
                    want = R6RS_MNEMONIC.get(c)
                    got = nat.get("v")
                    bad = (want is None and "err" not in nat) or (want is not None and got != "%02x" % want)
                    return {"replayed": bad, "observed": nat, "witness": {"kind": "parse", "input_hex": text.hex(), "opts": "default", "src": "slice", "api": "single", "fast": True}}
                res.must_be_unsat(pc + [z3.Not(z3.And(z3.Not(eof), allowed, z3.ULT(it[1].e, bv(128))))],
                                  "mnemonic string escape maps to the wrong byte (or a non-ASCII byte is pushed)", onm)
            elif it[0] == "utf8char":
                seen["hex"] += 1
                lc = K.last_call(st)
                n = lc[4].e if lc else None
                c = it[1].e
                ok = z3.And(ch == bv(ord("x")), c == n, z3.ULE(c, z3.BitVecVal(0x10FFFF, 32)),
                            z3.Not(z3.And(z3.UGE(c, z3.BitVecVal(0xD800, 32)), z3.ULE(c, z3.BitVecVal(0xDFFF, 32)))))

                def onm2(m):
                    for text, want in ((b'"\\x41;"', "41"), (b'"\\x7f;"', "7f"), (b'"\\x3bb;"', "cebb"), (b'"\\x1F600;"', "f09f9880")):
                        nat = RP.single(text, "default", "slice")
                        res.replays += 1
                        if nat.get("v") != want:
                            return {"replayed": True, "observed": nat, "witness": {"kind": "parse", "input_hex": text.hex(), "opts": "default", "src": "slice", "api": "single", "fast": True}}
                    for text in (b'"\\xD800;"', b'"\\x110000;"'):
                        nat = RP.single(text, "default", "slice")
                        res.replays += 1
                        if "err" not in nat:
                            return {"replayed": True, "observed": nat, "witness": {"kind": "parse", "input_hex": text.hex(), "opts": "default", "src": "slice", "api": "single", "fast": True}}
                    return {"replayed": False}
                res.must_be_unsat(pc + [z3.Not(ok)], "\\x<hex>; appends something other than the UTF-8 encoding of that valid scalar value", onm2)
            else:
                res.violations.append({"what": "unexpected scratch item %r" % (it,), "replayed": None})
        elif kind == "err":
            if items:
                res.violations.append({"what": "escape error after appending to the string", "replayed": None})
            ci = K.err_code_index(eng, payload)
            if ci is not None and K.code_name(eng, ci) == "InvalidEscape":
                seen["invalid"] += 1
                res.must_be_unsat(pc + [z3.Or(ch == bv(ord("x")), *[ch == bv(k) for k in R6RS_MNEMONIC])],
                                  "a documented string escape is rejected as InvalidEscape")
    for k, n in seen.items():
        res.vacuity.append(("reaches " + k, n > 0))
    # hex digit accumulation (one loop step): n' = n*16 + d below 2^24, ';' ends, anything else is an error
    eng, rd, fn, info, terms = run_kernel(cx, res, "decode_r6rs_hex_escape")
    nloc = fn.local_by_debug("n")
    steps = 0
    for t in terms:
        st = t.state
        pc = list(st.pc)
        if t.kind == "PANIC":
            res.must_be_unsat(pc, "reachable panic")
            continue
        if not st.notes["in"]:
            continue
        hb, rec = st.notes["in"][-1]
        idx = rec["idx"]
        b = rd.at(idx)
        nin = rec["locals"].get(nloc)
        if nin is None:
            continue
        dv = z3.If(z3.And(z3.UGE(b, bv(48)), z3.ULE(b, bv(57))), b - bv(48),
                   z3.If(z3.And(z3.UGE(b, bv(97)), z3.ULE(b, bv(102))), b - bv(87),
                         z3.If(z3.And(z3.UGE(b, bv(65)), z3.ULE(b, bv(70))), b - bv(55), bv(255))))
        if t.kind == "LOOP_BACK":
            steps += 1
            nout = st.frames[-1].locals[nloc].e
            res.must_be_unsat(pc + [z3.Not(z3.And(dv != bv(255), z3.ULT(nin.e, z3.BitVecVal(1 << 24, 32)),
                                                  nout == nin.e * 16 + z3.ZeroExt(24, dv), st.notes["idx"] == idx + 1))],
                              "hex escape digit step is not n*16+d (or the 24-bit guard is missing)")
        elif t.kind == "RETURN":
            kind, payload = K.classify_return(eng, t)
            if kind == "ok":
                res.must_be_unsat(pc + [z3.Not(z3.And(b == bv(ord(";")), payload.e == nin.e))], "hex escape ends on something other than ';' or returns another value")
    res.vacuity.append(("hex digit steps", steps > 0))


def claim_elisp_escape(cx, res, kf):
    """parse_elisp_escape: mnemonic escapes, \\uNNNN (what the Emacs printer emits for control characters) and octal
    escapes (what it emits for unibyte strings): value and uni/multibyte classification."""
    EE = cx.enums["ElispEscape"]
    eng, rd, fn, info, terms = run_kernel(cx, res, "parse_elisp_escape",
                                          exits=["decode_elisp_hex_escape", "decode_elisp_uni_escape", "decode_elisp_octal_escape"])
    i0 = info["idx0"]
    ch = rd.at(i0)
    eof = z3.UGE(i0, rd.len)
    seen = {"mnemonic": 0, "uni": 0, "octal_byte": 0, "octal_char": 0}
    for t in terms:
        st = t.state
        pc = list(st.pc)
        if t.kind == "PANIC":
            res.must_be_unsat(pc, "reachable panic")
            continue
        kind, payload = K.classify_return(eng, t)
        if kind != "ok":
            continue
        items = scratch_items(st)
        cls = K.concrete(payload.discr) if isinstance(payload, EnumV) else None
        cs = K.calls(st)
        names = [c[1] for c in cs]
        if not cs:
            if len(items) == 1 and items[0][0] == "byte":
                r, _ = res.solve(pc + [z3.Or(*[ch == bv(k) for k in ELISP_MNEMONIC])])
                if r == z3.sat:
                    seen["mnemonic"] += 1
                    allowed = z3.Or(*[z3.And(ch == bv(k), items[0][1].e == bv(v)) for k, v in ELISP_MNEMONIC.items()])
                    res.must_be_unsat(pc + [z3.Or(*[ch == bv(k) for k in ELISP_MNEMONIC]), z3.Not(z3.And(allowed, cls == EE.index("Indeterminate")))],
                                      "Emacs mnemonic escape maps to the wrong byte / changes the string's byte-ness")
            continue
        if "decode_elisp_uni_escape" in names and len(cs) == 1:
            seen["uni"] += 1
            n = cs[0][4].e
            cnt = cs[0][2][1].e
            ok = (len(items) == 1 and items[0][0] == "utf8char")
            if not ok:
                res.violations.append({"what": "\\u escape does not append one encoded character: %r" % (items,), "replayed": None})
                continue
            res.must_be_unsat(pc + [z3.Not(z3.And(z3.Or(z3.And(ch == bv(ord("u")), cnt == 4), z3.And(ch == bv(ord("U")), cnt == 8)),
                                                  items[0][1].e == n, cls == EE.index("Multibyte")))],
                              "\\uNNNN / \\UNNNNNNNN: wrong digit count, value or not marked multibyte")
        elif "decode_elisp_octal_escape" in names and len(cs) == 1:
            n = cs[0][4].e
            first = cs[0][2][1].e
            if len(items) == 1 and items[0][0] == "byte":
                seen["octal_byte"] += 1
                res.must_be_unsat(pc + [z3.Not(z3.And(z3.UGE(ch, bv(48)), z3.ULE(ch, bv(55)), first == ch, z3.ULE(n, z3.BitVecVal(255, 32)),
                                                      z3.ZeroExt(24, items[0][1].e) == n, cls == EE.index("Unibyte")))],
                                  "octal escape <= 255: wrong byte or not marked unibyte")
            elif len(items) == 1 and items[0][0] == "utf8char":
                seen["octal_char"] += 1
                res.must_be_unsat(pc + [z3.Not(z3.And(z3.UGT(n, z3.BitVecVal(255, 32)), items[0][1].e == n, cls == EE.index("Multibyte")))],
                                  "octal escape > 255 must append the encoded character and mark the string multibyte")
    for k, n in seen.items():
        res.vacuity.append(("reaches " + k, n > 0))


def claim_r6rs_char(cx, res, kf):
    """parse_r6rs_char on what the default printer emits: `#\\c` for printable ASCII, `#\\x<hex>` otherwise."""
    eng, rd, fn, info, terms = run_kernel(cx, res, "parse_r6rs_char", exits=["decode_r6rs_char_hex_escape", "decode_utf8_sequence"])
    i0 = info["idx0"]
    ini = rd.at(i0)
    nxt = rd.at(i0 + 1)
    eof1 = z3.UGE(i0 + 1, rd.len)
    DELIM = char_delimiters(cx, res)
    delim1 = z3.Or(eof1, *[nxt == bv(c) for c in DELIM])
    seen = {"single": 0, "hex": 0, "x": 0}
    for t in terms:
        st = t.state
        pc = list(st.pc)
        if t.kind == "PANIC":
            res.must_be_unsat(pc, "reachable panic")
            continue
        kind, payload = K.classify_return(eng, t)
        cs = K.calls(st)
        if kind == "ok" and not cs and not st.notes["in"]:
            seen["single"] += 1
            res.must_be_unsat(pc + [z3.Not(z3.And(z3.ULE(ini, bv(127)), delim1, payload.e == z3.ZeroExt(24, ini), st.notes["idx"] == i0 + 1))],
                              "`#\\c` followed by a delimiter does not read as the character c (consuming exactly c)")
        elif kind == "err" and not cs and not st.notes["in"] and not (isinstance(payload, Opaque) and payload.attrs.get("kind") == "io"):
            # completeness: a single ASCII character before a delimiter or the end of input is never rejected (the printer writes
            # every printable ASCII character as `#\c`, whatever follows it is a delimiter or nothing)
            res.must_be_unsat(pc + [z3.ULT(i0, rd.len), i0 != rd.err_at, i0 + 1 != rd.err_at, z3.ULE(ini, bv(127)), ini != bv(ord("x")), delim1],
                              "`#\\c` before a delimiter / at the end of input is rejected")
        elif cs and cs[0][1] == "decode_r6rs_char_hex_escape" and kind == "ok":
            okv = cs[0][4]
            some = okv.discr == 1
            n = okv.variants[1][0].e
            r, _ = res.solve(pc + [some])
            if r == z3.sat:
                seen["hex"] += 1
                res.must_be_unsat(pc + [some, z3.Not(z3.And(ini == bv(ord("x")), payload.e == n, z3.ULE(n, z3.BitVecVal(0x10FFFF, 32)),
                                                            z3.Not(z3.And(z3.UGE(n, z3.BitVecVal(0xD800, 32)), z3.ULE(n, z3.BitVecVal(0xDFFF, 32))))))],
                                  "`#\\x<hex>` does not read as that scalar value")
            r, _ = res.solve(pc + [z3.Not(some)])
            if r == z3.sat:
                seen["x"] += 1
                res.must_be_unsat(pc + [z3.Not(some), z3.Not(payload.e == ord("x"))], "`#\\x` alone must be the character x")
    for k, n in seen.items():
        res.vacuity.append(("reaches " + k, n > 0))


CLAIMS = [
    Claim("c03_kernel_totality", "C03", "quick", claim_kernel_totality,
          "no overflow / index / unwrap panic is reachable in the 11 reader kernels (escape decoders, character scanners, "
          "UTF-8 sequence decoder) for any input of any length", "loops cut (arbitrary loop state); symbolic reader with EOF and I/O errors",
          configs=("fast",), also=("C17",)),
    Claim("c19_kernel_eof", "C19", "quick", claim_kernel_eof,
          "in the reader kernels an error decided on a read that hit the end of input is an EOF-category error",
          "all paths of the 11 kernels", configs=("fast",)),
    Claim("c01_r6rs_escape", "C01", "quick", claim_r6rs_escape,
          "R6RS string escapes: each mnemonic escape appends exactly its documented ASCII byte, \\x<hex>; appends the UTF-8 "
          "encoding of that scalar value and only for valid scalar values, hex digits accumulate as n*16+d under the 24-bit "
          "guard; nothing else is appended (so no ill-formed UTF-8 enters through escapes)",
          "every escape byte; any number of hex digits (loop induction)", configs=("fast",), also=("C17", "C13")),
    Claim("c02_elisp_escape", "C02", "quick", claim_elisp_escape,
          "Emacs Lisp string escapes the Emacs printer relies on: mnemonics, \\uNNNN (4 digits) / \\UNNNNNNNN (8 digits) "
          "append the encoded character and make the string multibyte, octal escapes <= 255 append that byte and mark "
          "unibyte, > 255 the encoded character",
          "every escape byte, arbitrary decoded values", configs=("fast",), also=("C17", "C13")),
    Claim("c01_r6rs_char", "C01", "quick", claim_r6rs_char,
          "`#\\c` followed by a delimiter reads as c, `#\\x<hex>` as that scalar value (valid ones only), `#\\x` alone as x",
          "every initial byte and lookahead byte", configs=("fast",), also=("C13", "C12", "C02", "C11")),
]


def claim_elisp_char(cx, res, kf):
    """parse_elisp_char on what the Emacs printer emits: `?c`, `?\\c` for c in ()[]\;|'`#., and `?\\x<hex>`."""
    eng, rd, fn, info, terms = run_kernel(cx, res, "parse_elisp_char", exits=["decode_elisp_hex_escape", "decode_elisp_uni_escape",
                                                                               "decode_elisp_octal_escape", "decode_utf8_sequence"])
    i0 = info["idx0"]
    ini = rd.at(i0)
    nxt = rd.at(i0 + 1)
    eof1 = z3.UGE(i0 + 1, rd.len)
    ESC = b"()[]\;|'`#.,"
    MN = b"abtnvfresd^NuUx01234567"
    seen = {"plain": 0, "escaped": 0, "hex": 0}
    for t in terms:
        st = t.state
        pc = list(st.pc)
        if t.kind == "PANIC":
            res.must_be_unsat(pc, "reachable panic")
            continue
        kind, payload = K.classify_return(eng, t)
        cs = K.calls(st)
        if kind == "ok" and not cs and isinstance(payload, Int):
            # C17: a byte above 0x7F - as the character itself or after the backslash - starts a UTF-8 sequence that has to be decoded
            # and validated (decode_utf8_sequence); it never becomes a character by itself (Latin-1 style)
            res.must_be_unsat(pc + [z3.ULT(i0, rd.len), z3.UGT(ini, bv(127))], "`?<byte above 0x7F>` becomes a character without UTF-8 decoding")
            res.must_be_unsat(pc + [z3.ULT(i0 + 1, rd.len), ini == bv(ord("\\")), z3.UGT(nxt, bv(127))],
                              "`?\\<byte above 0x7F>` becomes a character without UTF-8 decoding (a stray continuation byte is accepted)")
            r, _ = res.solve(pc + [ini != bv(ord("\\")), z3.ULE(ini, bv(127))])
            if r == z3.sat:
                seen["plain"] += 1
                res.must_be_unsat(pc + [ini != bv(ord("\\")), z3.ULE(ini, bv(127)),
                                        z3.Not(z3.And(payload.e == z3.ZeroExt(24, ini), st.notes["idx"] == i0 + 1,
                                                      z3.Not(z3.Or(*[ini == bv(c) for c in b"()[];"]))))],
                                  "`?c` does not read as c (or a delimiter is accepted unescaped)")
            r, _ = res.solve(pc + [ini == bv(ord("\\")), z3.Or(*[nxt == bv(c) for c in ESC])])
            if r == z3.sat:
                seen["escaped"] += 1
                res.must_be_unsat(pc + [ini == bv(ord("\\")), z3.Not(eof1), z3.Or(*[nxt == bv(c) for c in ESC]),
                                        z3.Not(z3.And(payload.e == z3.ZeroExt(24, nxt), st.notes["idx"] == i0 + 2))],
                                  "`?\\c` for c in ()[]\;|'`#., does not read as c")
        elif kind == "err" and not cs and not (isinstance(payload, Opaque) and payload.attrs.get("kind") == "io"):
            # completeness: `?c` for a plain ASCII character is rejected only for the five delimiters that must be written with a backslash
            res.must_be_unsat(pc + [z3.ULT(i0, rd.len), i0 != rd.err_at, ini != bv(ord("\\")), z3.ULE(ini, bv(127)),
                                    z3.Not(z3.Or(*[ini == bv(c) for c in b"()[];"]))],
                              "`?c` is rejected for a plain ASCII character other than ( ) [ ] ; (the printer writes such characters unescaped)")
        elif kind == "ok" and cs and cs[0][1] == "decode_elisp_hex_escape":
            seen["hex"] += 1
            n = cs[0][4].e
            res.must_be_unsat(pc + [z3.Not(z3.And(ini == bv(ord("\\")), z3.Or(nxt == bv(ord("x")), nxt == bv(ord("N"))), payload.e == n,
                                                  z3.ULE(n, z3.BitVecVal(0x10FFFF, 32)),
                                                  z3.Not(z3.And(z3.UGE(n, z3.BitVecVal(0xD800, 32)), z3.ULE(n, z3.BitVecVal(0xDFFF, 32))))))],
                              "`?\\x<hex>` does not read as that scalar value")
    for k, n in seen.items():
        res.vacuity.append(("reaches " + k, n > 0))
    # the hex digit loop: n*16+d under the 24-bit guard, stops (without consuming) at the first non-hex byte / EOF
    eng, rd, fn, info, terms = run_kernel(cx, res, "decode_elisp_hex_escape")
    nloc = fn.local_by_debug("n")
    steps = ends = 0
    for t in terms:
        st = t.state
        pc = list(st.pc)
        if t.kind == "PANIC" or not st.notes["in"]:
            continue
        hb, rec = st.notes["in"][-1]
        idx = rec["idx"]
        b = rd.at(idx)
        eof = z3.UGE(idx, rd.len)
        nin = rec["locals"].get(nloc)
        if nin is None:
            continue
        dv = z3.If(z3.And(z3.UGE(b, bv(48)), z3.ULE(b, bv(57))), b - bv(48),
                   z3.If(z3.And(z3.UGE(b, bv(97)), z3.ULE(b, bv(102))), b - bv(87),
                         z3.If(z3.And(z3.UGE(b, bv(65)), z3.ULE(b, bv(70))), b - bv(55), bv(255))))
        if t.kind == "LOOP_BACK":
            steps += 1
            nout = st.frames[-1].locals[nloc].e
            res.must_be_unsat(pc + [z3.Not(z3.And(z3.Not(eof), dv != bv(255), z3.ULT(nin.e, z3.BitVecVal(1 << 24, 32)),
                                                  nout == nin.e * 16 + z3.ZeroExt(24, dv), st.notes["idx"] == idx + 1))],
                              "Emacs hex escape digit step is not n*16+d")
        elif t.kind == "RETURN":
            kind, payload = K.classify_return(eng, t)
            if kind == "ok":
                ends += 1
                res.must_be_unsat(pc + [z3.Not(z3.And(z3.Or(eof, dv == bv(255)), payload.e == nin.e, st.notes["idx"] == idx))],
                                  "Emacs hex escape ends on a hex digit / consumes the terminating byte / returns another value")
    res.vacuity.append(("elisp hex steps", steps > 0 and ends > 0))


# what ends a character name / the hex digits of `#\\x`: the documented delimiter set (the spec is NOT read from the code)
CHAR_DELIMITERS = b'()[]";# \n\t\r\x0c'


def char_delimiters(cx, res):
    got = cx.statics.get("DELIMITER", {}).get("bytes")
    if got is None or set(got) != set(CHAR_DELIMITERS):
        from . import confirm as CF
        v = {"what": "the compiled character-delimiter table is %r, documented set is %r (a character directly before one of the missing "
             "bytes, e.g. the closing bracket of a vector, is misread)" % (sorted(set(got or b"")), sorted(set(CHAR_DELIMITERS))), "replayed": None}
        v.update(CF.confirm(("chars",), res)(None))
        if not any(x.get("what") == v["what"] for x in res.violations):
            res.violations.append(v)
    return CHAR_DELIMITERS


def hexval(b):
    return z3.If(z3.And(z3.UGE(b, bv(48)), z3.ULE(b, bv(57))), b - bv(48),
                 z3.If(z3.And(z3.UGE(b, bv(97)), z3.ULE(b, bv(102))), b - bv(87),
                       z3.If(z3.And(z3.UGE(b, bv(65)), z3.ULE(b, bv(70))), b - bv(55), bv(255))))


def claim_digit_loops(cx, res, kf):
    """The digit accumulators behind the escapes the printers emit: octal (Emacs byte strings), fixed-width hex u / U escapes
    (Emacs control characters), the hex character syntax of the default dialect, with their base cases; base cases of the
    two hex loops whose steps are claimed elsewhere."""
    from . import confirm as CF
    onm = CF.confirm(("strings", "chars"), res)
    u32 = lambda v: z3.BitVecVal(v, 32)  # noqa
    LIM = u32(1 << 24)
    # ---- octal: n0 = initial - '0'; n' = n*8+d for d in 0..7 below 2^24; stops before the first non-octal byte / EOF
    eng, rd, fn, info, terms = run_kernel(cx, res, "decode_elisp_octal_escape", extra_args=lambda e: [e.sym_int("u8", "initial")])
    nloc = fn.local_by_debug("n")
    ini = None
    for a in fn.args:
        if fn.local_ty.get(a, "").strip() == "u8":
            ini = a
    done = set()
    cnt = {"step": 0, "end": 0}
    for t in terms:
        st = t.state
        pc = list(st.pc)
        if t.kind == "PANIC":
            continue    # c03_kernel_totality
        if not st.notes["in"]:
            continue
        a0 = st.notes["arrivals"][0][1]
        init_v = a0["locals"][ini].e
        K.base_case(res, st, 0, done, lambda a: z3.And(a["locals"][nloc].e == z3.ZeroExt(24, init_v - bv(48)), a["idx"] == info["idx0"])
                    if nloc in a["locals"] else None, "octal escape: the accumulator does not start with the first digit's value", onm)
        hb, rec = st.notes["in"][-1]
        idx = rec["idx"]
        b = rd.at(idx)
        eof = z3.UGE(idx, rd.len)
        ioerr = idx == rd.err_at
        nin = rec["locals"][nloc].e
        isoct = z3.And(z3.Not(eof), z3.UGE(b, bv(48)), z3.ULE(b, bv(55)))
        if t.kind == "LOOP_BACK":
            cnt["step"] += 1
            nout = st.frames[-1].locals[nloc].e
            res.must_be_unsat(pc + [z3.Not(z3.And(z3.Not(ioerr), isoct, z3.ULT(nin, LIM), nout == nin * 8 + z3.ZeroExt(24, b - bv(48)),
                                                  st.notes["idx"] == idx + 1))], "octal escape digit step is not n*8+d (digits 0-7, 24-bit guard)", onm)
        elif t.kind == "RETURN":
            kind, payload = K.classify_return(eng, t)
            if kind == "ok":
                cnt["end"] += 1
                res.must_be_unsat(pc + [z3.Not(z3.And(z3.Not(ioerr), z3.Not(isoct), payload.e == nin, st.notes["idx"] == idx))],
                                  "octal escape ends on an octal digit / consumes the following byte / returns another value", onm)
    res.vacuity.append(("octal loop steps and ends", cnt["step"] > 0 and cnt["end"] > 0))
    # ---- \u / \U: exactly `count` hex digits
    eng, rd, fn, info, terms = run_kernel(cx, res, "decode_elisp_uni_escape", extra_args=lambda e: [e.sym_int("u8", "count")])
    nloc = fn.local_by_debug("n")
    cl = [a for a in fn.args if fn.local_ty.get(a, "").strip() == "u8"][0]
    done = set()
    cnt = {"step": 0, "end": 0}

    iter_l = fn.local_by_debug("iter")

    def range_of(locals_):
        v = locals_.get(iter_l)
        if isinstance(v, Agg) and len(v.fields) == 2 and all(isinstance(f, Int) for f in v.fields):
            return iter_l, v
        return None, None
    for t in terms:
        st = t.state
        pc = list(st.pc)
        if t.kind == "PANIC" or not st.notes["in"]:
            continue
        a0 = st.notes["arrivals"][0][1]
        count = a0["locals"][cl].e
        rk, r0 = range_of(a0["locals"])
        if rk is None:
            res.violations.append({"what": "\\u escape: no digit counter found", "replayed": None})
            break
        K.base_case(res, st, 0, done, lambda a: z3.And(a["locals"][nloc].e == 0, a["locals"][rk].fields[0].e == 0, a["locals"][rk].fields[1].e == count,
                                                        a["idx"] == info["idx0"]) if nloc in a["locals"] else None,
                    "\\u escape: does not start with n = 0 and `count` digits to go", onm)
        hb, rec = st.notes["in"][-1]
        idx = rec["idx"]
        b = rd.at(idx)
        eof = z3.UGE(idx, rd.len)
        ioerr = idx == rd.err_at
        nin = rec["locals"][nloc].e
        fr0 = st.frames[0] if st.frames else None
        # the loop state of the counter at the header: taken from the frame's havocked copy recorded in `in`
        rng = rec["locals"].get(rk)
        dv = hexval(b)
        if t.kind == "LOOP_BACK":
            cnt["step"] += 1
            fr = st.frames[-1]
            nout = fr.locals[nloc].e
            res.must_be_unsat(pc + [z3.Not(z3.And(z3.Not(ioerr), z3.Not(eof), dv != bv(255), z3.ULT(nin, LIM),
                                                  nout == nin * 16 + z3.ZeroExt(24, dv), st.notes["idx"] == idx + 1))],
                              "\\u escape digit step is not n*16+d on a hex digit", onm)
            if rng is not None:
                r2 = fr.locals[rk]
                res.must_be_unsat(pc + [z3.Not(z3.And(z3.ULT(rng.fields[0].e, rng.fields[1].e), r2.fields[0].e == rng.fields[0].e + 1,
                                                      r2.fields[1].e == rng.fields[1].e))], "\\u escape: a digit is not counted exactly once", onm)
        elif t.kind == "RETURN":
            kind, payload = K.classify_return(eng, t)
            if kind == "ok":
                cnt["end"] += 1
                if rng is not None:
                    # with the base case (0 of count) and the step (+1 while below count) the counter never passes count,
                    # so `not below` means exactly count digits were read
                    res.must_be_unsat(pc + [z3.Not(z3.And(z3.Not(z3.ULT(rng.fields[0].e, rng.fields[1].e)), payload.e == nin, st.notes["idx"] == idx))],
                                      "\\u escape returns before / after exactly `count` digits or another value", onm)
    res.vacuity.append(("\\u loop steps and ends", cnt["step"] > 0 and cnt["end"] > 0))
    # ---- #\x<hex>: n0 = 0, first = true; ends at a delimiter / EOF (not consumed) with None iff no digit was read
    eng, rd, fn, info, terms = run_kernel(cx, res, "decode_r6rs_char_hex_escape")
    nloc, floc = fn.local_by_debug("n"), fn.local_by_debug("first")
    DELIM = char_delimiters(cx, res)
    done = set()
    cnt = {"step": 0, "none": 0, "some": 0}
    for t in terms:
        st = t.state
        pc = list(st.pc)
        if t.kind == "PANIC" or not st.notes["in"]:
            continue
        K.base_case(res, st, 0, done, lambda a: z3.And(a["locals"][nloc].e == 0, a["locals"][floc].e, a["idx"] == info["idx0"])
                    if nloc in a["locals"] and floc in a["locals"] else None, "#\\x: does not start with n = 0, nothing read", onm)
        hb, rec = st.notes["in"][-1]
        idx = rec["idx"]
        b = rd.at(idx)
        eof = z3.UGE(idx, rd.len)
        ioerr = idx == rd.err_at
        nin, fin = rec["locals"][nloc].e, rec["locals"][floc].e
        delim = z3.Or(eof, *[b == bv(c) for c in DELIM])
        dv = hexval(b)
        if t.kind == "LOOP_BACK":
            cnt["step"] += 1
            fr = st.frames[-1]
            res.must_be_unsat(pc + [z3.Not(z3.And(z3.Not(ioerr), z3.Not(delim), dv != bv(255), z3.ULT(nin, LIM),
                                                  fr.locals[nloc].e == nin * 16 + z3.ZeroExt(24, dv), z3.Not(fr.locals[floc].e),
                                                  st.notes["idx"] == idx + 1))], "#\\x digit step is not n*16+d / does not record that a digit was read", onm)
        elif t.kind == "RETURN":
            kind, payload = K.classify_return(eng, t)
            if kind == "ok":
                d = K.concrete(payload.discr)
                if d == 0:
                    cnt["none"] += 1
                    res.must_be_unsat(pc + [z3.Not(z3.And(z3.Not(ioerr), delim, fin, st.notes["idx"] == idx))], "#\\x: `no digits` reported after a digit / not at a delimiter", onm)
                else:
                    cnt["some"] += 1
                    res.must_be_unsat(pc + [z3.Not(z3.And(z3.Not(ioerr), delim, z3.Not(fin), payload.variants[1][0].e == nin, st.notes["idx"] == idx))],
                                      "#\\x: value returned is not the accumulated one / the delimiter is consumed", onm)
    res.vacuity.append(("#\\x loop steps and both ends", cnt["step"] > 0 and cnt["none"] > 0 and cnt["some"] > 0))
    # ---- base cases of the hex loops whose steps are claimed in c01_r6rs_escape / c02_elisp_char
    for fname in ("decode_r6rs_hex_escape", "decode_elisp_hex_escape"):
        eng, rd, fn, info, terms = run_kernel(cx, res, fname)
        nloc = fn.local_by_debug("n")
        done = set()
        k = 0
        for t in terms:
            st = t.state
            if not st.notes.get("in"):
                continue
            k += 1
            K.base_case(res, st, 0, done, lambda a: z3.And(a["locals"][nloc].e == 0, a["idx"] == info["idx0"]) if nloc in a["locals"] else None,
                        "%s: the accumulator does not start at 0 / input is consumed before the first digit" % fname, onm)
        res.vacuity.append(("%s reaches its loop" % fname, k > 0))


def claim_escape_composition(cx, res, kf):
    """The escape spellings the printers emit (verified against the code by c07_escape_emissions / c07_char_emissions) are
    read back as the same byte / character by the escape semantics verified by c01_r6rs_escape / c02_elisp_escape /
    c01_r6rs_char / c02_elisp_char: composition of the two spec tables, decided per byte by z3."""
    b = z3.BitVec("b", 8)
    named = {7: "a", 8: "b", 9: "t", 10: "n", 13: "r", 0x22: '"', 0x5C: "\\"}
    # print spec: byte -> escape letter / hex form
    prt = z3.BitVecVal(0, 8)        # 0: printed raw
    for k, ch in named.items():
        prt = z3.If(b == k, z3.BitVecVal(ord(ch), 8), prt)
    is_ctl = z3.And(z3.Or(z3.ULT(b, 0x20), b == 0x7F), *[b != k for k in named])
    # parse spec (R6RS): escape letter -> byte
    def parse_r6rs(letter):
        out = z3.BitVecVal(0xFF, 8)
        for k, v in R6RS_MNEMONIC.items():
            out = z3.If(letter == k, z3.BitVecVal(v, 8), out)
        return out

    def parse_elisp(letter):
        out = z3.BitVecVal(0xFF, 8)
        for k, v in ELISP_MNEMONIC.items():
            out = z3.If(letter == k, z3.BitVecVal(v, 8), out)
        return out
    for nm, pf in (("R6RS", parse_r6rs), ("Emacs", parse_elisp)):
        res.must_be_unsat([prt != 0, pf(prt) != b], "%s: a mnemonic string escape emitted by the printer reads back as a different byte" % nm)
    # control bytes: \xHH; resp. \u00HH -> value HH == b (two upper-case hex digits), valid scalar value
    hi, lo = z3.LShR(b, 4), b & 15
    res.must_be_unsat([is_ctl, (z3.ZeroExt(24, hi) * 16 + z3.ZeroExt(24, lo)) != z3.ZeroExt(24, b)], "hex escape of a control byte denotes another value")
    res.must_be_unsat([is_ctl, z3.UGE(z3.ZeroExt(24, b), z3.BitVecVal(0xD800, 32))], "control byte escape is not a scalar value")
    # bytes printed raw must not be escape-significant for the reader: not '"' and not backslash
    res.must_be_unsat([prt == 0, z3.Not(is_ctl), z3.Or(b == 0x22, b == 0x5C)], "quote or backslash printed unescaped")
    # characters: printable -> literal (next byte is a delimiter written by the printer), else lower-case hex
    c = z3.BitVec("c", 32)
    res.must_be_sat([z3.UGE(c, 32), z3.ULT(c, 127)], "printable range non-empty")
    res.notes.append("composition decided on the shared spec tables: every byte 0..=255 and both string syntaxes")


CLAIMS += [
    Claim("c02_elisp_char", "C02", "quick", claim_elisp_char,
          "`?c` reads as c, `?\\c` for c in ()[]\;|'`#., reads as c, `?\\x<hex>` as that (valid) scalar value; the hex loop "
          "accumulates n*16+d and stops before the first non-hex byte",
          "every initial / lookahead byte; any number of hex digits (loop induction)", configs=("fast",), also=("C13", "C17", "C03", "C11")),
    Claim("c02_digit_loops", "C02", "quick", claim_digit_loops,
          "digit accumulators of `\\NNN` (n0 = first digit, n*8+d, stops before a non-octal byte), `\\uNNNN` / `\\UNNNNNNNN` "
          "(n0 = 0, exactly `count` hex digits, n*16+d) and `#\\x<hex>` (n0 = 0, n*16+d up to a delimiter / EOF, `no digits` "
          "reported only if none was read), all under the 24-bit guard; base cases of the two string / character hex loops",
          "any number of digits (one-step induction with base case)", configs=("fast",), also=("C01", "C13", "C17", "C12", "C11")),
    Claim("c01_escape_composition", "C01", "quick", claim_escape_composition,
          "what the string printers emit for a byte (spec checked against the printer code) is mapped back to the same byte "
          "by the escape semantics (spec checked against the reader code), for every byte, R6RS and Emacs string syntax",
          "all 256 bytes", configs=("fast",), also=("C02", "C13")),
]
