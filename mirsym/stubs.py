"""Stub contracts for calls the executor does not inline (part of every E2 claim; see DESIGN.md §0.3).

Reader model (`<R as Read>::*`): the input is a symbolic array `inp : BV64 -> BV8` of symbolic length `len`,
the cursor `idx` lives in state.notes['idx'].  A read at position `err_at` reports an I/O error (sticky at that
position).  peek/next at idx >= len report end of input.  discard advances by one and logs an event so that claims
can check it only happens after a successful peek.
"""
import re

import z3

from .symex import (Agg, Blob, BoolV, EnumV, F64, Int, Opaque, Ref, UnitV, Unsupported, INT_TY, UNINIT)


def rx(p):
    return re.compile(p)


def mk_result(engine, is_err, ok_val, err_val, name="Result"):
    d = z3.If(is_err, z3.BitVecVal(1, 64), z3.BitVecVal(0, 64)) if not isinstance(is_err, bool) else (1 if is_err else 0)
    return EnumV("Result", d, {0: [ok_val], 1: [err_val]})


def mk_option(present, val):
    d = z3.If(present, z3.BitVecVal(1, 64), z3.BitVecVal(0, 64)) if not isinstance(present, bool) else (1 if present else 0)
    return EnumV("Option", d, {1: [val], 0: []})


def io_error(tag="io"):
    return Opaque("Error", tag, {"kind": "io"})


class Reader:
    """Holds the per-exploration symbolic input."""

    def __init__(self, engine, with_io_errors=True):
        n = next(engine.fresh)
        self.inp = z3.Array("inp_%d" % n, z3.BitVecSort(64), z3.BitVecSort(8))
        self.len = z3.BitVec("len_%d" % n, 64)
        self.err_at = z3.BitVec("errat_%d" % n, 64)
        self.with_io = with_io_errors
        self.base = [z3.ULT(self.len, z3.BitVecVal(1 << 40, 64))]
        if not with_io_errors:
            self.base.append(self.err_at == z3.BitVecVal((1 << 64) - 1, 64))

    def at(self, i):
        return z3.Select(self.inp, i)


def reader_stubs(reader):
    def cur(st):
        return st.notes["idx"]

    def h_peek(engine, st, fr, callee, argv, m):
        i = cur(st)
        is_err = i == reader.err_at
        present = z3.ULT(i, reader.len)
        st.events.append(("peek", i))
        st.notes["pk"] = True
        return mk_result(engine, is_err, mk_option(present, Int(reader.at(i), "u8")), io_error())

    def h_next(engine, st, fr, callee, argv, m):
        i = cur(st)
        is_err = i == reader.err_at
        present = z3.ULT(i, reader.len)
        st.events.append(("next", i))
        st.notes["idx"] = z3.If(z3.And(z3.Not(is_err), present), i + 1, i)
        st.notes["pk"] = False
        return mk_result(engine, is_err, mk_option(present, Int(reader.at(i), "u8")), io_error())

    def h_discard(engine, st, fr, callee, argv, m):
        i = cur(st)
        st.events.append(("discard", i))
        st.notes["idx"] = i + 1
        # reader protocol: discard() drops the byte a preceding peek() looked at.  For a stream it is a no-op when nothing is
        # pending, for a slice it always advances: a discard that is KNOWN to follow a consuming read with no peek in between
        # makes the sources disagree (unknown = function entered / loop re-entered / sibling called since: not judged)
        if st.notes.get("pk") is False:
            return ("fork", [(z3.BoolVal(True), ("panic", "discard() without a pending peek(): the stream source ignores it, the slice and str sources skip a byte"), None)])
        st.notes["pk"] = False
        return UnitV()

    def h_position(engine, st, fr, callee, argv, m):
        st.events.append((m.group(1), cur(st)))
        return Agg("struct", "Position", [engine.sym_int("usize", "line"), engine.sym_int("usize", "col")])

    def h_offset(engine, st, fr, callee, argv, m):
        return Int(cur(st), "usize")

    return [
        (rx(r"^<R as (?:parse::)?(?:read::)?Read<'\w+>>::peek$"), h_peek),
        (rx(r"^<R as (?:parse::)?(?:read::)?Read<'\w+>>::next$"), h_next),
        (rx(r"^<R as (?:parse::)?(?:read::)?Read<'\w+>>::discard$"), h_discard),
        (rx(r"^<R as (?:parse::)?(?:read::)?Read<'\w+>>::(position|peek_position)$"), h_position),
        (rx(r"^<R as (?:parse::)?(?:read::)?Read<'\w+>>::byte_offset$"), h_offset),
    ]


# ----------------------------------------------------------------------------- core library contracts

def h_try_branch(engine, st, fr, callee, argv, m):
    r = argv[0]
    if isinstance(r, Blob):
        # result of an unmodelled call: either outcome, opaque payloads
        d = z3.BitVec("blobtry_%d" % next(engine.fresh), 64)
        c = z3.ULT(d, z3.BitVecVal(2, 64))
        engine.solver.add(c)
        st.pc.append(c)
        return EnumV("ControlFlow", d, {0: [Blob("ok of " + r.label)], 1: [EnumV("Result", 1, {1: [Blob("err of " + r.label)]})]})
    if not isinstance(r, EnumV):
        raise Unsupported("Try::branch on %r" % (r,))
    if "Option" in m.group(1)[:30] and r.name == "Option":
        # Option: Some(x) -> Continue(x), None -> Break(None)
        d = z3.If(r.discr == 1, z3.BitVecVal(0, 64), z3.BitVecVal(1, 64))
        return EnumV("ControlFlow", d, {0: list(r.variants.get(1, [UNINIT])), 1: [EnumV("Option", 0, {})]})
    ok = r.variants.get(0, [UNINIT])
    err = r.variants.get(1, [UNINIT])
    return EnumV("ControlFlow", r.discr, {0: list(ok), 1: [EnumV("Result", 1, {1: list(err)})]})


def h_from_residual(engine, st, fr, callee, argv, m):
    r = argv[0]
    if isinstance(r, EnumV) and r.name == "Result":
        return EnumV("Result", 1, {1: list(r.variants.get(1, [UNINIT]))})
    if isinstance(r, EnumV) and r.name == "Option":
        return EnumV("Option", 0, {})
    if isinstance(r, Opaque) and r.ty == "const" and "Option::<" in r.label and r.label.endswith("::None") and "Option<" in callee.split(" as ")[0]:
        # `?` on an Option: the residual is the constant None
        return EnumV("Option", 0, {})
    raise Unsupported("from_residual on %r" % (r,))


def h_int_from(engine, st, fr, callee, argv, m):
    dst, src = m.group(1), m.group(2)
    v = argv[0]
    if isinstance(v, BoolV):
        w = INT_TY[dst][0]
        return Int(z3.If(v.e, z3.BitVecVal(1, w), z3.BitVecVal(0, w)), dst)
    return engine.cast(v, dst, "IntToInt")


def h_char_from_u8(engine, st, fr, callee, argv, m):
    return engine.cast(argv[0], "char", "IntToInt")


def h_unwrap_or(engine, st, fr, callee, argv, m):
    o, d = argv
    if 1 not in o.variants or not o.variants[1]:
        return d
    p = o.variants[1][0]
    if isinstance(p, Int):
        return Int(z3.If(o.discr == 1, p.e, d.e), p.ty)
    raise Unsupported("unwrap_or payload %r" % (p,))


def h_unsigned_abs(engine, st, fr, callee, argv, m):
    v = argv[0]
    ty = {"i8": "u8", "i16": "u16", "i32": "u32", "i64": "u64", "isize": "usize"}[m.group(1)]
    return Int(z3.If(v.e < 0, -v.e, v.e), ty)


def h_saturating(engine, st, fr, callee, argv, m):
    ty, op = m.group(1), m.group(2)
    a, b = argv
    w, sg = INT_TY[ty]
    if not sg:
        raise Unsupported("unsigned saturating")
    A, B = z3.SignExt(w, a.e), z3.SignExt(w, b.e)
    wide = A + B if op == "add" else A - B
    mx = z3.BitVecVal((1 << (w - 1)) - 1, 2 * w)
    mn = z3.BitVecVal(-(1 << (w - 1)), 2 * w)
    sat = z3.If(wide > mx, mx, z3.If(wide < mn, mn, wide))
    return Int(z3.Extract(w - 1, 0, sat), ty)


def h_wrapping_neg(engine, st, fr, callee, argv, m):
    return Int(-argv[0].e, argv[0].ty)


def h_is_infinite(engine, st, fr, callee, argv, m):
    if getattr(engine, "fp_abstract", False):
        from .symex import FP_ISINF
        return BoolV(FP_ISINF(argv[0].e))
    return BoolV(z3.fpIsInf(argv[0].e))


def h_is_nan(engine, st, fr, callee, argv, m):
    return BoolV(z3.fpIsNaN(argv[0].e))


def table_f64(engine, name):
    key = "_tbl_" + name
    if not hasattr(engine, key):
        raw = engine.statics[name]["bytes"]
        n = len(raw) // 8
        arr = z3.K(z3.BitVecSort(64), z3.BitVecVal(0, 64))
        for i in range(n):
            arr = z3.Store(arr, z3.BitVecVal(i, 64), z3.BitVecVal(int.from_bytes(raw[8 * i:8 * i + 8], "little"), 64))
        setattr(engine, key, (arr, n))
    return getattr(engine, key)


def h_slice_get_f64(engine, st, fr, callee, argv, m):
    s, i = argv
    if not (isinstance(s, Ref) and s.addr[0] == "S"):
        raise Unsupported("slice::get on %r" % (s,))
    arr, n = table_f64(engine, s.addr[1])
    bits = z3.Select(arr, i.e)
    val = F64(z3.fpBVToFP(bits, z3.Float64()))
    st.events.append(("table_get", s.addr[1], i.e))
    return mk_option(z3.ULT(i.e, z3.BitVecVal(n, 64)), Ref(("V", val)))


def table_u8(engine, name):
    key = "_tblu8_" + name
    if not hasattr(engine, key):
        raw = engine.statics[name]["bytes"]
        arr = z3.K(z3.BitVecSort(64), z3.BitVecVal(0, 8))
        for i, b in enumerate(raw):
            arr = z3.Store(arr, z3.BitVecVal(i, 64), z3.BitVecVal(b, 8))
        setattr(engine, key, (arr, len(raw)))
    return getattr(engine, key)


def table_u8_select(engine, name, idx):
    """value of the compiled u8 table `name` at a 64-bit index term, as a run-length If-chain (equal consecutive entries
    are one range test): far cheaper for the solver than a 256-store array"""
    raw = engine.statics[name]["bytes"]
    runs = []
    for i, b in enumerate(raw):
        if runs and runs[-1][2] == b and runs[-1][1] == i - 1:
            runs[-1][1] = i
        else:
            runs.append([i, i, b])
    # most frequent value as the default
    from collections import Counter
    default = Counter(raw).most_common(1)[0][0]
    out = z3.BitVecVal(default, 8)
    for lo, hi, b in reversed(runs):
        if b == default:
            continue
        cond = idx == z3.BitVecVal(lo, 64) if lo == hi else z3.And(z3.UGE(idx, z3.BitVecVal(lo, 64)), z3.ULE(idx, z3.BitVecVal(hi, 64)))
        out = z3.If(cond, z3.BitVecVal(b, 8), out)
    return out


def bytes_of(engine, v):
    """Concrete byte content behind a &[u8]/&str operand, or None."""
    if isinstance(v, Opaque) and v.ty == "strlit":
        return v.attrs["lit"]
    if isinstance(v, Ref) and v.addr[0] == "S":
        s = engine.statics.get(v.addr[1])
        if s and s.get("bytes") is not None:
            return s["bytes"]
    if isinstance(v, Ref) and v.addr[0] == "V":
        return bytes_of(engine, v.addr[1])
    return None


def h_slice_contains(engine, st, fr, callee, argv, m):
    s, x = argv
    bs = bytes_of(engine, s)
    if bs is None:
        raise Unsupported("contains on %r" % (s,))
    xv = x
    if isinstance(x, Ref):
        xv = engine.load(st, x.addr)
    return BoolV(z3.Or(*[xv.e == z3.BitVecVal(b, 8) for b in bs]) if bs else z3.BoolVal(False))


def h_ascii_pred(engine, st, fr, callee, argv, m):
    v = argv[0]
    if isinstance(v, Ref):
        v = engine.load(st, v.addr)
    c = v.e
    name = m.group(1)
    rng = lambda lo, hi: z3.And(z3.UGE(c, z3.BitVecVal(lo, v.width)), z3.ULE(c, z3.BitVecVal(hi, v.width)))  # noqa
    if name == "is_ascii_whitespace":
        return BoolV(z3.Or(*[c == z3.BitVecVal(b, v.width) for b in (0x20, 0x09, 0x0A, 0x0C, 0x0D)]))
    if name == "is_ascii_alphabetic":
        return BoolV(z3.Or(rng(65, 90), rng(97, 122)))
    if name == "is_ascii_digit":
        return BoolV(rng(48, 57))
    if name == "is_ascii_lowercase":
        return BoolV(rng(97, 122))
    if name == "is_ascii_uppercase":
        return BoolV(rng(65, 90))
    if name == "is_ascii_alphanumeric":
        return BoolV(z3.Or(rng(48, 57), rng(65, 90), rng(97, 122)))
    if name == "is_ascii_hexdigit":
        return BoolV(z3.Or(rng(48, 57), rng(65, 70), rng(97, 102)))
    if name == "is_ascii_punctuation":
        return BoolV(z3.Or(rng(33, 47), rng(58, 64), rng(91, 96), rng(123, 126)))
    if name == "is_ascii_graphic":
        return BoolV(rng(33, 126))
    if name == "is_ascii_control":
        return BoolV(z3.Or(rng(0, 31), c == z3.BitVecVal(127, v.width)))
    if name == "is_ascii":
        return BoolV(z3.ULE(c, z3.BitVecVal(127, v.width)))
    raise Unsupported(name)


def h_to_ascii_lowercase(engine, st, fr, callee, argv, m):
    v = argv[0]
    if isinstance(v, Ref):
        v = engine.load(st, v.addr)
    c = v.e
    up = z3.And(z3.UGE(c, z3.BitVecVal(65, 8)), z3.ULE(c, z3.BitVecVal(90, 8)))
    return Int(z3.If(up, c | z3.BitVecVal(0x20, 8), c), "u8")


def h_error_syntax(engine, st, fr, callee, argv, m):
    code = argv[0]
    st.events.append(("error", code))
    return Opaque("Error", "syntax", {"kind": "syntax", "code": code, "line": argv[1], "col": argv[2],
                                     "at": st.notes.get("idx")})


def h_error_io(engine, st, fr, callee, argv, m):
    return Opaque("Error", "io", {"kind": "io"})


def h_position_field(engine, st, fr, callee, argv, m):
    p = argv[0]
    if isinstance(p, Ref):
        p = engine.load(st, p.addr)
    return p.fields[0 if m.group(1) == "line" else 1]


POWI = z3.Function("powi", z3.Float64(), z3.BitVecSort(32), z3.Float64())


def h_powi(engine, st, fr, callee, argv, m):
    st.events.append(("powi", argv[0].e, argv[1].e))
    return F64(POWI(argv[0].e, argv[1].e))


def h_f64_from_int(engine, st, fr, callee, argv, m):
    v = argv[0]
    if v.signed:
        return F64(z3.fpSignedToFP(z3.RNE(), v.e, z3.Float64()))
    return F64(z3.fpUnsignedToFP(z3.RNE(), v.e, z3.Float64()))


# ---- scratch buffer as a symbolic text log (used by the std float path)

def h_vec_clear(engine, st, fr, callee, argv, m):
    st.notes["scratch"] = ()
    return UnitV()


def h_itoa_new(engine, st, fr, callee, argv, m):
    return Opaque("itoa::Buffer", "buf", {})


def h_itoa_format(engine, st, fr, callee, argv, m):
    return Opaque("str", "itoa", {"val": argv[1]})


def h_passthrough(engine, st, fr, callee, argv, m):
    return argv[0]


def h_vec_extend(engine, st, fr, callee, argv, m):
    src = argv[1]
    while isinstance(src, Ref) and src.addr[0] == "V":
        src = src.addr[1]
    if isinstance(src, Opaque) and src.label == "itoa":
        item = ("itoa", src.attrs["val"])
    elif isinstance(src, Opaque) and src.label == "utf8char":
        item = ("utf8char", src.attrs["char"])
    else:
        bs = bytes_of(engine, src)
        if bs is None:
            raise Unsupported("extend_from_slice of %r" % (src,))
        item = ("lit", bs)
    st.notes["scratch"] = st.notes.get("scratch", ()) + (item,)
    return UnitV()


def h_vec_push(engine, st, fr, callee, argv, m):
    st.notes["scratch"] = st.notes.get("scratch", ()) + (("byte", argv[1]),)
    return UnitV()


def h_vec_deref(engine, st, fr, callee, argv, m):
    return Opaque("bytes", "scratch", {"content": st.notes.get("scratch", ())})


def h_str_parse_f64(engine, st, fr, callee, argv, m):
    f = engine.sym_f64("stdparse")
    is_err = z3.Bool("stdparse_err_%d" % next(engine.fresh))
    st.events.append(("std_parse", argv[0].attrs.get("content") if isinstance(argv[0], Opaque) else None, f.e))
    st.pc.append(z3.Not(z3.fpIsNaN(f.e)))
    engine.solver.add(z3.Not(z3.fpIsNaN(f.e)))
    return mk_result(engine, is_err, f, Opaque("ParseFloatError", "pfe", {}))


def h_map_err_range(engine, st, fr, callee, argv, m):
    r = argv[0]
    code = EnumV("ErrorCode", engine.enums["ErrorCode"].index("NumberOutOfRange"), {})
    err = Opaque("Error", "syntax", {"kind": "syntax", "code": code, "via": "map_err closure"})
    return EnumV("Result", r.discr, {0: list(r.variants.get(0, [UNINIT])), 1: [err]})


def h_vec_as_slice(engine, st, fr, callee, argv, m):
    n = next(engine.fresh)
    sl = Opaque("symslice", "scratch", {"len": z3.BitVec("sl_len_%d" % n, 64), "arr": z3.Array("sl_arr_%d" % n, z3.BitVecSort(64), z3.BitVecSort(8)),
                                        "content": st.notes.get("scratch", ())})
    st.notes["symslice"] = sl
    return Ref(("V", sl))


def h_vec_index(engine, st, fr, callee, argv, m):
    """scratch[i]: the i-th pushed byte when the claim tracks the buffer item by item and i is concrete, else an arbitrary byte"""
    items = st.notes.get("scratch", ())
    i = argv[1]
    c = z3.simplify(i.e) if isinstance(i, Int) else None
    if c is not None and z3.is_bv_value(c) and c.as_long() < len(items) and items[c.as_long()][0] == "byte":
        return Ref(("V", items[c.as_long()][1]))
    return Ref(("V", engine.sym_int("u8", "scratch_at")))


SCRATCH_STUBS = [
    (rx(r"^<Vec<u8> as (?:std::ops::)?Index<usize>>::index$"), h_vec_index),
    (rx(r"^Vec::<u8>::as_slice$"), h_vec_as_slice),
    (rx(r"^Vec::<u8>::clear$"), h_vec_clear),
    (rx(r"^itoa::Buffer::new$"), h_itoa_new),
    (rx(r"^itoa::Buffer::format::<\w+>$"), h_itoa_format),
    (rx(r"^core::str::<impl str>::as_bytes$"), h_passthrough),
    (rx(r"^Vec::<u8>::extend_from_slice$"), h_vec_extend),
    (rx(r"^Vec::<u8>::push$"), h_vec_push),
    (rx(r"^<Vec<u8> as Deref>::deref$"), h_vec_deref),
    (rx(r"^(?:core::str::|std::str::)?from_utf8_unchecked$"), h_passthrough),
    (rx(r"^core::str::<impl str>::parse::<f64>$"), h_str_parse_f64),
    (rx(r"^std::result::Result::<f64, ParseFloatError>::map_err::"), h_map_err_range),
]


def h_from_u32(engine, st, fr, callee, argv, m):
    n = argv[0].e
    valid = z3.And(z3.ULE(n, z3.BitVecVal(0x10FFFF, 32)),
                   z3.Not(z3.And(z3.UGE(n, z3.BitVecVal(0xD800, 32)), z3.ULE(n, z3.BitVecVal(0xDFFF, 32)))))
    st.events.append(("from_u32", n))
    return mk_option(valid, Int(n, "char"))


def h_encode_utf8(engine, st, fr, callee, argv, m):
    return Ref(("V", Opaque("str", "utf8char", {"char": argv[0]})))


def h_range_into_iter(engine, st, fr, callee, argv, m):
    return argv[0]


def h_range_next(engine, st, fr, callee, argv, m):
    r = argv[0]
    rng = engine.load(st, r.addr)
    lo, hi = rng.fields[0], rng.fields[1]
    more = z3.ULT(lo.e, hi.e)
    return ("fork", [
        (more, mk_option(True, Int(lo.e, lo.ty)), lambda s2: engine.store(s2, r.addr, Agg(rng.kind, rng.name, [Int(lo.e + 1, lo.ty), hi]))),
        (z3.Not(more), mk_option(False, Int(lo.e, lo.ty)), None),
    ])


def h_range_incl_contains(engine, st, fr, callee, argv, m):
    r, x = argv
    if isinstance(r, Ref):
        r = engine.load(st, r.addr)
    if isinstance(x, Ref):
        x = engine.load(st, x.addr)
    lo, hi = r.fields[0], r.fields[1]
    return BoolV(z3.And(z3.UGE(x.e, lo.e), z3.ULE(x.e, hi.e)))


def h_call_once(engine, st, fr, callee, argv, m):
    f, args = argv[0], argv[1]
    fargs = list(args.fields) if isinstance(args, Agg) else [args]
    if isinstance(f, Opaque) and f.ty == "fnitem":
        target = engine.find_fn(f.label)
        if target is None:
            raise Unsupported("call_once of %r" % (f,))
        return ("fork", [(z3.BoolVal(True), ("frame", target, fargs, None), None)])
    target = closure_fn(engine, f)
    if "{closure" not in target.name:
        return ("fork", [(z3.BoolVal(True), ("frame", target, fargs, None), None)])
    return ("fork", [(z3.BoolVal(True), ("frame", target, [f] + fargs, None), None)])


def h_from_utf8(engine, st, fr, callee, argv, m):
    ok = z3.Bool("utf8ok_%d" % next(engine.fresh))
    st.events.append(("from_utf8", argv[0].attrs.get("content") if isinstance(argv[0], Opaque) else None, ok))
    return mk_result(engine, z3.Not(ok), Opaque("str", "validated", {"content": argv[0].attrs.get("content") if isinstance(argv[0], Opaque) else None}),
                     Opaque("Utf8Error", "e", {}))


def h_chars(engine, st, fr, callee, argv, m):
    return Opaque("Chars", "chars", {"of": argv[0]})


def h_chars_next(engine, st, fr, callee, argv, m):
    return mk_option(True, engine.sym_int("char", "decoded"))


def h_option_unwrap(engine, st, fr, callee, argv, m):
    o = argv[0]
    if isinstance(o, EnumV):
        return ("fork", [(o.discr == 1, o.variants.get(1, [UNINIT])[0], None),
                         (o.discr != 1, ("diverge_marker",), None)])
    raise Unsupported("unwrap of %r" % (o,))


def h_panic(engine, st, fr, callee, argv, m):
    msg = argv[0].label if argv and isinstance(argv[0], Opaque) else callee
    return ("diverge", "PANIC", {"msg": "explicit panic: %s" % msg, "fn": fr.fn.name, "bb": fr.bb})


CORE_STUBS = [
    (rx(r"^core::panicking::(panic|panic_fmt|unreachable_display|panic_explicit)"), h_panic),
    (rx(r"^std::rt::(panic_fmt|begin_panic)"), h_panic),
    (rx(r"^(?:core::fmt::)?Arguments::<'_>::from_str$"), lambda e, st, fr, c, a, m: Opaque("fmtargs", "literal", {"template": bytes_of(e, a[0])})),
    (rx(r"^(?:char::methods::<impl char>::|core::char::|char::)?from_u32$"), h_from_u32),
    (rx(r"^char::methods::<impl char>::encode_utf8$"), h_encode_utf8),
    (rx(r"^<std::ops::Range<(?:u8|u16|u32|u64|usize)> as IntoIterator>::into_iter$"), h_range_into_iter),
    (rx(r"^<std::ops::Range<(?:u8|u16|u32|u64|usize)> as Iterator>::next$"), h_range_next),
    (rx(r"^std::ops::RangeInclusive::<u8>::contains::<u8>$"), h_range_incl_contains),
    (rx(r"^<F as FnOnce<.*>>::call_once$"), h_call_once),
    (rx(r"^(?:core::str::|std::str::)?from_utf8$"), h_from_utf8),
    (rx(r"^core::str::<impl str>::chars$"), h_chars),
    (rx(r"^<Chars<'_> as Iterator>::next$"), h_chars_next),
    (rx(r"^(?:(?:std|core)::)?f64::<impl f64>::powi$"), h_powi),
    (rx(r"^<f64 as From<(u8|u16|u32|i8|i16|i32)>>::from$"), h_f64_from_int),
    (rx(r"^<(.*) as Try>::branch$"), h_try_branch),
    (rx(r" as FromResidual<.*>>::from_residual$"), h_from_residual),
    (rx(r"^<(u8|u16|u32|u64|usize|i8|i16|i32|i64|isize) as From<(u8|u16|u32|u64|i8|i16|i32|i64|bool)>>::from$"), h_int_from),
    (rx(r"^<char as From<u8>>::from$"), h_char_from_u8),
    (rx(r"^Option::<u8>::unwrap_or$"), h_unwrap_or),
    (rx(r"^core::num::<impl (i8|i16|i32|i64|isize)>::unsigned_abs$"), h_unsigned_abs),
    (rx(r"^core::num::<impl (i8|i16|i32|i64|isize)>::saturating_(add|sub)$"), h_saturating),
    (rx(r"^core::num::<impl (?:i8|i16|i32|i64|isize|u8|u16|u32|u64|usize)>::wrapping_neg$"), h_wrapping_neg),
    (rx(r"^core::f64::<impl f64>::is_infinite$"), h_is_infinite),
    (rx(r"^core::f64::<impl f64>::is_nan$"), h_is_nan),
    (rx(r"^core::slice::<impl \[f64\]>::get::<usize>$"), h_slice_get_f64),
    (rx(r"^core::slice::<impl \[u8\]>::contains$"), h_slice_contains),
    (rx(r"^core::num::<impl u8>::(is_ascii(?:_\w+)?)$"), h_ascii_pred),
    (rx(r"^(?:core::)?char::methods::<impl char>::(is_ascii(?:_\w+)?)$"), h_ascii_pred),
    (rx(r"^core::num::<impl u8>::to_ascii_lowercase$"), h_to_ascii_lowercase),
    (rx(r"^(?:parse::error::)?Error::syntax$"), h_error_syntax),
    (rx(r"^(?:parse::error::)?Error::io$"), h_error_io),
    (rx(r"^(?:parse::read::|read::)?Position::(line|column)$"), h_position_field),
]


# ----------------------------------------------------------------------------- combinators taking closures

def closure_fn(engine, cl):
    if isinstance(cl, Agg) and cl.kind == "closure":
        f = engine.ctx.index.get(cl.name)
        if f is not None:
            return f
    if isinstance(cl, Opaque) and cl.ty == "fnitem":
        f = engine.find_fn(cl.label) or engine.find_fn(cl.label.replace("lexpr::", "")) or engine.find_fn(cl.label.replace("serde_lexpr::", ""))
        if f is not None:
            return f
    if isinstance(cl, Opaque) and cl.ty == "const":
        # capture-less closure / fn item constant:  `ZeroSized: {closure@file:l:c: l:c}`  or  `ZeroSized: path::<..>`
        mm = re.search(r"(\{closure@[^}]*\})", cl.label)
        if mm:
            f = engine.ctx.index.get(mm.group(1))
            if f is not None:
                return f
        mm = re.match(r"ZeroSized: (.*)$", cl.label)
        if mm:
            f = engine.find_fn(mm.group(1))
            if f is not None:
                return f
    raise Unsupported("cannot resolve closure %r" % (cl,))


def h_ok_or_else(engine, st, fr, callee, argv, m):
    opt, cl = argv
    f = closure_fn(engine, cl)
    some = list(opt.variants.get(1, [UNINIT]))
    return ("fork", [
        (opt.discr == 1, EnumV("Result", 0, {0: some}), None),
        (opt.discr != 1, ("frame", f, [cl], lambda v: EnumV("Result", 1, {1: [v]})), None),
    ])


def h_and_then(engine, st, fr, callee, argv, m):
    r, cl = argv
    f = closure_fn(engine, cl)
    okp = list(r.variants.get(0, [UNINIT]))
    errp = list(r.variants.get(1, [UNINIT]))
    return ("fork", [
        (r.discr == 0, ("frame", f, [cl] + okp, None), None),
        (r.discr != 0, EnumV("Result", 1, {1: errp}), None),
    ])


def h_map_err(engine, st, fr, callee, argv, m):
    r, cl = argv
    f = closure_fn(engine, cl)
    okp = list(r.variants.get(0, [UNINIT]))
    errp = list(r.variants.get(1, [UNINIT]))
    return ("fork", [
        (r.discr == 0, EnumV("Result", 0, {0: okp}), None),
        (r.discr != 0, ("frame", f, [cl] + errp, lambda v: EnumV("Result", 1, {1: [v]})), None),
    ])


def h_or_else(engine, st, fr, callee, argv, m):
    r, cl = argv
    f = closure_fn(engine, cl)
    okp = list(r.variants.get(0, [UNINIT]))
    errp = list(r.variants.get(1, [UNINIT]))
    return ("fork", [
        (r.discr == 0, EnumV("Result", 0, {0: okp}), None),
        (r.discr != 0, ("frame", f, [cl] + errp, None), None),
    ])


def h_transpose(engine, st, fr, callee, argv, m):
    # Result<Option<T>,E> -> Option<Result<T,E>>
    r = argv[0]
    okp = r.variants.get(0, [UNINIT])
    o = okp[0] if okp else UNINIT
    errp = list(r.variants.get(1, [UNINIT]))
    alts = [(r.discr != 0, EnumV("Option", 1, {1: [EnumV("Result", 1, {1: errp})]}), None)]
    if isinstance(o, EnumV):
        alts.append((z3.And(r.discr == 0, o.discr == 1), EnumV("Option", 1, {1: [EnumV("Result", 0, {0: list(o.variants.get(1, [UNINIT]))})]}), None))
        alts.append((z3.And(r.discr == 0, o.discr != 1), EnumV("Option", 0, {}), None))
    else:
        raise Unsupported("transpose payload %r" % (o,))
    return ("fork", alts)


def _unref(engine, st, v):
    while isinstance(v, Ref):
        v = engine.load(st, v.addr)
    return v


def h_is_some(engine, st, argv, m):
    o = _unref(engine, st, argv[0])
    return BoolV((o.discr == 1) if m.group(1) == "is_some" else (o.discr != 1))


def h_expect(engine, st, argv, m):
    o = _unref(engine, st, argv[0])
    msg = bytes_of(engine, argv[1]) if len(argv) > 1 else b"unwrap on None"
    return ("fork", [(o.discr == 1, o.variants.get(1, [UNINIT])[0], None),
                     (o.discr != 1, ("panic", "Option::%s on None: %s" % (m.group(1), (msg or b"").decode("latin-1"))), None)])


def h_map_drop(engine, st, fr, callee, argv, m):
    r = argv[0]
    return EnumV("Result", r.discr, {0: [UnitV()], 1: list(r.variants.get(1, [UNINIT]))})


def fargs(f, cl, payload):
    """argument list for calling `cl` (closure: environment first; fn item: just the arguments)"""
    return ([cl] + list(payload)) if "{closure" in f.name else list(payload)


def h_opt_map_or(engine, st, fr, callee, argv, m):
    opt, default, cl = argv
    try:
        f = closure_fn(engine, cl)
    except Unsupported:
        # a library predicate passed as a function item (`char::is_alphabetic`, ...): an arbitrary answer for a present value
        if isinstance(default, BoolV) and isinstance(cl, Opaque) and cl.ty in ("fnitem", "const"):
            engine.unmodelled.add("fn item " + cl.label)
            return ("fork", [(opt.discr == 1, BoolV(z3.Bool("fnitem_%d" % next(engine.fresh))), None), (opt.discr != 1, default, None)])
        raise
    some = list(opt.variants.get(1, [UNINIT]))
    return ("fork", [(opt.discr == 1, ("frame", f, fargs(f, cl, some), None), None), (opt.discr != 1, default, None)])


def h_opt_map(engine, st, fr, callee, argv, m):
    opt, cl = argv
    f = closure_fn(engine, cl)
    some = list(opt.variants.get(1, [UNINIT]))
    wrap = (lambda v: v) if m.group(1) == "and_then" else (lambda v: EnumV("Option", 1, {1: [v]}))
    return ("fork", [(opt.discr == 1, ("frame", f, fargs(f, cl, some), wrap), None), (opt.discr != 1, EnumV("Option", 0, {}), None)])


def h_opt_is_some_and(engine, st, fr, callee, argv, m):
    opt, cl = argv
    f = closure_fn(engine, cl)
    some = list(opt.variants.get(1, [UNINIT]))
    return ("fork", [(opt.discr == 1, ("frame", f, fargs(f, cl, some), None), None), (opt.discr != 1, BoolV(z3.BoolVal(False)), None)])


def h_opt_unwrap_or(engine, st, fr, callee, argv, m):
    opt, default = argv
    some = list(opt.variants.get(1, [UNINIT]))
    return ("fork", [(opt.discr == 1, some[0], None), (opt.discr != 1, default, None)])


def h_identity(engine, st, fr, callee, argv, m):
    return argv[0]


def h_res_map(engine, st, fr, callee, argv, m):
    r, cl = argv
    f = closure_fn(engine, cl)
    okp = list(r.variants.get(0, [UNINIT]))
    errp = list(r.variants.get(1, [UNINIT]))
    return ("fork", [(r.discr == 0, ("frame", f, fargs(f, cl, okp), lambda v: EnumV("Result", 0, {0: [v]})), None),
                     (r.discr != 0, EnumV("Result", 1, {1: errp}), None)])


def h_res_is(engine, st, fr, callee, argv, m):
    r = argv[0]
    if isinstance(r, Ref):
        r = engine.load(st, r.addr)
    return BoolV((r.discr == 0) if m.group(1) == "is_ok" else (r.discr != 0))


def h_res_ok_err(engine, st, fr, callee, argv, m):
    r = argv[0]
    which = 0 if m.group(1) == "ok" else 1
    return EnumV("Option", z3.If(r.discr == which, z3.BitVecVal(1, 64), z3.BitVecVal(0, 64)), {1: list(r.variants.get(which, [UNINIT]))})


def h_opt_or_else(engine, st, fr, callee, argv, m):
    opt, cl = argv
    f = closure_fn(engine, cl)
    return ("fork", [(opt.discr == 1, opt, None), (opt.discr != 1, ("frame", f, fargs(f, cl, []), None), None)])


def h_unwrap_or_default(engine, st, fr, callee, argv, m):
    """Result<T, E>::unwrap_or_default / Option<T>::unwrap_or_default for T = Option<_> (None), an integer (0) or bool (false)"""
    v = argv[0]
    ty = m.group(2).strip()
    if ty.startswith("Option<") or ty.startswith("std::option::Option<"):
        dflt = EnumV("Option", 0, {})
    elif ty in INT_TY:
        dflt = Int(z3.BitVecVal(0, INT_TY[ty][0]), ty)
    elif ty == "bool":
        dflt = BoolV(z3.BoolVal(False))
    else:
        raise Unsupported("unwrap_or_default for %s" % ty)
    if not isinstance(v, EnumV):
        raise Unsupported("unwrap_or_default of %r" % (v,))
    good = 0 if m.group(1) == "Result" else 1
    return ("fork", [(v.discr == good, v.variants.get(good, [UNINIT])[0], None), (v.discr != good, dflt, None)])


GENERIC_COMBINATORS = [
    (rx(r"^(?:std::result::|std::option::)?(Result|Option)::<(.*?)(?:, [^<>]*(?:<[^<>]*>)?)?>::unwrap_or_default$"), h_unwrap_or_default),
    (rx(r"^(?:std::option::)?Option::<.*>::or_else::<"), h_opt_or_else),
    (rx(r"^(?:std::option::)?Option::<.*>::map_or::<"), h_opt_map_or),
    (rx(r"^(?:std::option::)?Option::<.*>::(map|and_then)::<"), h_opt_map),
    (rx(r"^(?:std::option::)?Option::<.*>::is_some_and::<"), h_opt_is_some_and),
    (rx(r"^(?:std::option::)?Option::<.*>::unwrap_or$"), h_opt_unwrap_or),
    (rx(r"^(?:std::option::)?Option::<&.*>::(copied|cloned)$"), h_identity),
    (rx(r"^std::result::Result::<.*>::map::<.*\{closure@"), h_res_map),
    (rx(r"^std::result::Result::<.*>::(is_ok|is_err)$"), h_res_is),
    (rx(r"^std::result::Result::<.*>::(ok|err)$"), h_res_ok_err),
]
CORE_STUBS = CORE_STUBS + GENERIC_COMBINATORS

COMBINATOR_STUBS = [
    (rx(r"^std::result::Result::<.*>::map::<\(\), fn\(\w+\) \{std::mem::drop::<\w+>\}>$"), h_map_drop),
    (rx(r"^(?:std::option::)?Option::<.*>::ok_or_else::<"), h_ok_or_else),
    (rx(r"^(?:std::option::)?Option::<.*>::(is_some|is_none)$"), lambda e, st, fr, c, a, m: h_is_some(e, st, a, m)),
    (rx(r"^(?:std::option::)?Option::<.*>::(expect|unwrap)$"), lambda e, st, fr, c, a, m: h_expect(e, st, a, m)),
    (rx(r"^std::result::Result::<.*>::and_then::<"), h_and_then),
    (rx(r"^std::result::Result::<.*>::map_err::<"), h_map_err),
    (rx(r"^std::result::Result::<.*>::or_else::<"), h_or_else),
    (rx(r"^std::result::Result::<Option<.*>::transpose$"), h_transpose),
]


# ----------------------------------------------------------------------------- opaque constructors (value building)

def opaque_builder(names):
    """Calls that only build heap values: return an Opaque recording name and arguments."""
    out = []
    for pat in names:
        def h(engine, st, fr, callee, argv, m, pat=pat):
            st.events.append(("build", callee.split("::<")[0], tuple(argv)))
            return Blob(callee.split("::<")[0])
        out.append((rx(pat), h))
    return out


BUILDER_STUBS = opaque_builder([
    r"^Value::(symbol|list|string|keyword|bytes|cons|vector)::<", r"^Vec::<.*>::into_boxed_slice$",
    r"^<.* as Into<Box<.*>>>::into$", r"^Box::<.*>::new_uninit$", r"box_assume_init_into_vec_unsafe",
    r"^(?:datum::)?Datum::(vec|cons|primitive|quotation)$", r"^(?:datum::)?Span::(new|empty)$",
    r"^<\{closure@.*\} as Fn<.*>>::call$", r"^<Value as From<.*>>::from$", r"^<String as Into<Box<str>>>::into$",
    r"^<&str as Into<Box<str>>>::into$", r"^Box::<.*>::new$", r"^<.* as Clone>::clone$",
])
