"""E2 over serde-lexpr's value (de)serializer: scalar leaves (C04), kind-dispatch / accept-reject tables (C14), totality and
error category (C18). The structural collectors (SerializeSeq::end etc. building Value trees) are outside."""
import re

import z3

from . import common as K
from . import ctx as C
from . import stubs as S
from .claims import Claim
from .symex import Agg, Blob, BoolV, EnumV, F64, Int, Opaque, Ref, UnitV, Unsupported, INT_TY


def bv(v, w=64):
    return z3.BitVecVal(v, w)


def merged_ctx(fast=True):
    key = ("merged", fast)
    if key in C._CACHE:
        return C._CACHE[key]
    a = C.load("lexpr", fast)
    b = C.load("serde-lexpr", True)
    m = C.Context("serde-lexpr+lexpr", fast)
    m.fns = dict(a.fns)
    for k, v in b.fns.items():
        m.fns["serde::" + k if k in m.fns else k] = v
    m.statics = dict(a.statics)
    m.statics.update(b.statics)
    m.enums = dict(a.enums)
    m.enums.update(b.enums)
    m.structs = dict(a.structs)
    m.structs.update({k: v for k, v in b.structs.items() if k not in m.structs})
    m.dump_s = a.dump_s + b.dump_s
    C.build_index(m)
    C._CACHE[key] = m
    return m


def sym_value(cx, engine, st, label="v", depth=1):
    """An arbitrary lexpr Value: symbolic kind; payloads symbolic / abstract; a Cons cell's car and cdr are again arbitrary
    values (one level)."""
    VAL = cx.enums["Value"]
    NN = cx.enums["N"]
    d = z3.BitVec("%s_kind_%d" % (label, next(engine.fresh)), 64)
    nd = z3.BitVec("%s_numk_%d" % (label, next(engine.fresh)), 64)
    for c in (z3.ULT(d, bv(len(VAL))), z3.ULT(nd, bv(len(NN)))):
        engine.solver.add(c)
        st.pc.append(c)
    num = Agg("struct", "Number", [EnumV("N", nd, {NN.index("PosInt"): [engine.sym_int("u64", label + "_u")],
                                                  NN.index("NegInt"): [engine.sym_int("i64", label + "_i")],
                                                  NN.index("Float"): [engine.sym_f64(label + "_f")]})])
    variants = {}
    for i, n in enumerate(VAL):
        if n == "Bool":
            variants[i] = [engine.sym_bool(label + "_b")]
        elif n == "Number":
            variants[i] = [num]
        elif n == "Char":
            variants[i] = [engine.sym_int("char", label + "_c")]
        elif n == "Cons":
            if depth > 0:
                car = sym_value(cx, engine, st, label + "_car", depth - 1)
                cdr = sym_value(cx, engine, st, label + "_cdr", depth - 1)
                variants[i] = [Opaque("Cons", label + "_cell", {"car": car, "cdr": cdr})]
            else:
                variants[i] = [Blob(label + "_cell")]
        elif n in ("Nil", "Null"):
            variants[i] = []
        else:
            variants[i] = [Blob("%s_%s" % (label, n))]
    return EnumV("Value", d, variants)


def serde_stubs(cx, engine):
    def seq(st, kind):
        n = st.notes.get("nseq", 0) + 1
        st.notes["nseq"] = n
        return "%s_%d" % (kind, n)

    def unref(st, v):
        while isinstance(v, Ref):
            v = engine.load(st, v.addr)
        return v

    def h_visit(engine, st, fr, callee, argv, m):
        recv = argv[0]
        if isinstance(recv, Agg) and recv.name == "Proxy":
            # lexpr's Number::visit calling back into serde-lexpr's adapter: run the adapter's own method
            f = find_method(cx, "serde-lexpr/src/value/de.rs", m.group(1), "Proxy<")
            if f is not None:
                return ("fork", [(z3.BoolVal(True), ("frame", f, list(argv), None), None)])
        nm = seq(st, "visit")
        err = z3.Bool(nm + "_err")
        st.events.append(("visit", m.group(1), tuple(argv[1:]), err))
        return S.mk_result(engine, err, Blob("visited"), Opaque("Error", "visitor", {"kind": "visitor"}))

    def h_seed(engine, st, fr, callee, argv, m):
        nm = seq(st, "seed")
        err = z3.Bool(nm + "_err")
        de = unref(st, argv[1])
        inp = de.fields[0] if isinstance(de, Agg) else None
        st.events.append(("seed", unref(st, inp) if inp is not None else None, err))
        return S.mk_result(engine, err, Blob("seeded"), Opaque("Error", "seed", {"kind": "visitor"}))

    def h_car(engine, st, fr, callee, argv, m):
        c = unref(st, argv[0])
        if isinstance(c, Opaque) and "car" in c.attrs:
            return Ref(("V", c.attrs["car" if m.group(1) == "car" else "cdr"]))
        return Ref(("V", Blob("field-of-abstract-cell")))

    def h_invalid_type(engine, st, fr, callee, argv, m):
        st.events.append(("invalid_type",))
        return Opaque("Error", "data", {"kind": "data"})

    def h_blob(engine, st, fr, callee, argv, m):
        return Blob(callee.split("::<")[0])

    def h_f64_from_f32(engine, st, fr, callee, argv, m):
        return F64(z3.fpFPToFP(z3.RNE(), argv[0].e, z3.Float64()))

    def h_slice_range(engine, st, fr, callee, argv, m):
        # sub-slicing a sequence payload of unknown length: in range or the standard out-of-range panic
        ok = z3.Bool(seq(st, "slice_in_range"))
        st.events.append(("slice_range", m.group(1), ok))
        return ("fork", [(ok, Ref(("V", Blob("subslice"))), None), (z3.Not(ok), ("panic", "slice range out of bounds"), None)])

    def h_expect(engine, st, fr, callee, argv, m):
        o = argv[0]
        return ("fork", [(o.discr == 1, o.variants.get(1, [Blob("x")])[0], None),
                         (o.discr != 1, ("frame_panic",), None)])
    return [
        (re.compile(r"^<V as (?:serde::de::)?Visitor(?:<'_>)?>::(visit_\w+)(?:::<.*>)?$"), h_visit),
        (re.compile(r"^<[TKV] as DeserializeSeed<'_>>::deserialize::<"), h_seed),
        (re.compile(r"^(?:lexpr::)?Cons::(car|cdr)$"), h_car),
        (re.compile(r"^<error::Error as serde::(?:de|ser)::Error>::(invalid_type|invalid_value|invalid_length|custom)"), h_invalid_type),
        (re.compile(r"^<f64 as From<f32>>::from$"), h_f64_from_f32),
        (re.compile(r"^<\[\w+\] as (?:std::ops::)?Index(?:Mut)?<(?:std::ops::)?(Range\w*)<usize>>>::index(?:_mut)?$"), h_slice_range),
        (re.compile(r"^(Vec::<Value>::|<&str as Into|<&\[u8\] as Into|Value::(cons|symbol|list)::<|<Vec<Value> as Into)"), h_blob),
    ]


def find_method(cx, file_part, method, self_part):
    """function of `file_part` named `method` whose first parameter's type mentions `self_part` (no line numbers: edits
    above an impl must not make the lookup fail)"""
    for name, f in cx.fns.items():
        if file_part in name and name.endswith("::" + method) and f.args and self_part in f.local_ty.get(f.args[0], ""):
            return f
    return None


def explore_de(cx, res, method, extra_args=0, self_kind="Deserializer"):
    eng = C.make_engine(cx, [], loop_mode="unroll", unroll=2, timeout_s=120, max_paths=20000)
    eng.stubs = serde_stubs(cx, eng) + S.COMBINATOR_STUBS + S.CORE_STUBS
    fn = find_method(cx, "serde-lexpr/src/value/de.rs", method, "Deserializer")
    if fn is None:
        raise Unsupported("deserializer method %s not found" % method)
    info = {}

    def init(e, st, fr):
        v = sym_value(cx, e, st, "in")
        info["v"] = v
        st.heap["input"] = v
        st.heap["de"] = Agg("struct", "Deserializer", [Ref(("H", "input"))])
        args = list(fn.args)
        fr.locals[args[0]] = Ref(("H", "de"))
        for a in args[1:]:
            ty = fn.local_ty.get(a, "").strip()
            if ty == "V":
                fr.locals[a] = Opaque("V", "visitor", {})
            elif ty == "usize":
                fr.locals[a] = e.sym_int("usize", "len")
            else:
                fr.locals[a] = Blob("arg:" + ty)
        return []
    terms = eng.explore(fn.name, init)
    res.absorb(eng)
    return eng, fn, info, terms


# documented acceptance table: method -> {Value kind -> visitor method}
ACCEPT = {
    "deserialize_bool": {"Bool": "visit_bool"},
    "deserialize_char": {"Char": "visit_char"},
    "deserialize_str": {"String": "visit_borrowed_str"},
    "deserialize_string": {"String": "visit_borrowed_str"},
    "deserialize_bytes": {"Bytes": "visit_borrowed_bytes"},
    "deserialize_byte_buf": {"Bytes": "visit_borrowed_bytes"},
    "deserialize_unit": {"Nil": "visit_unit", "Null": "visit_unit"},
    "deserialize_unit_struct": {"Nil": "visit_unit", "Null": "visit_unit"},
    "deserialize_seq": {"Null": "visit_seq", "Vector": "visit_seq", "Cons": "visit_seq"},
    "deserialize_tuple": {"Vector": "visit_seq", "Cons": "visit_seq"},
    "deserialize_tuple_struct": {"Vector": "visit_seq", "Cons": "visit_seq"},
    "deserialize_map": {"Null": "visit_map", "Cons": "visit_map"},
    "deserialize_struct": {"Null": "visit_map", "Cons": "visit_map"},
    "deserialize_enum": {"Symbol": "visit_enum", "Cons": "visit_enum"},
    "deserialize_identifier": {"Symbol": "visit_borrowed_str"},
    "deserialize_any": {"Nil": "visit_unit", "Null": "visit_seq", "Bool": "visit_bool", "Cons": "visit_seq", "Number": "visit_number",
                        "Char": "visit_char", "String": "visit_borrowed_str", "Vector": "visit_seq", "Bytes": "visit_borrowed_bytes"},
}
for _w in ("i8", "i16", "i32", "i64", "u8", "u16", "u32", "u64", "f32", "f64"):
    ACCEPT["deserialize_" + _w] = {"Number": "visit_number"}


def claim_de_tables(cx0, res, kf):
    cx = merged_ctx()
    VAL = cx.enums["Value"]
    NN = cx.enums["N"]
    total = 0
    for method, table in sorted(ACCEPT.items()):
        eng, fn, info, terms = explore_de(cx, res, method)
        v = info["v"]
        seen_kinds = set()
        for t in terms:
            pc = list(t.state.pc)
            if t.kind == "PANIC":
                res.must_be_unsat(pc, "%s: reachable panic `%s` for some input value" % (method, t.info.get("msg")))
                continue
            if t.kind != "RETURN":
                continue
            visits = [e for e in t.state.events if e[0] == "visit"]
            inval = [e for e in t.state.events if e[0] == "invalid_type"]
            for i, kn in enumerate(VAL):
                r, _ = res.solve(pc + [v.discr == i])
                if r != z3.sat:
                    continue
                total += 1
                seen_kinds.add(kn)
                want = table.get(kn)
                if want is None:
                    # must be rejected with a data error, without consulting the visitor
                    if visits or not inval:
                        res.violations.append({"what": "%s accepts a %s value (visitor calls %r); documented: rejected with a data error"
                                               % (method, kn, [e[1] for e in visits]), "replayed": None})
                elif want == "visit_number":
                    nd = v.variants[VAL.index("Number")][0].fields[0]
                    for j, nk in enumerate(NN):
                        r2, _ = res.solve(pc + [v.discr == i, nd.discr == j])
                        if r2 != z3.sat:
                            continue
                        wantv = {"PosInt": "visit_u64", "NegInt": "visit_i64", "Float": "visit_f64"}[nk]
                        ok = len(visits) == 1 and visits[0][1] == wantv
                        if not ok:
                            res.violations.append({"what": "%s on a %s number calls %r, expected %s" % (method, nk, [e[1] for e in visits], wantv), "replayed": None})
                            continue
                        arg = visits[0][2][0]
                        payload = nd.variants[j][0]
                        same = (arg.e == payload.e)
                        res.must_be_unsat(pc + [v.discr == i, nd.discr == j, z3.Not(same)], "%s passes a different number to the visitor than the value holds" % method)
                else:
                    if inval or len(visits) != 1 or visits[0][1] != want:
                        res.violations.append({"what": "%s on a %s value: visitor calls %r / rejected=%s; documented: %s"
                                               % (method, kn, [e[1] for e in visits], bool(inval), want), "replayed": None})
        res.vacuity.append(("%s explored all 11 kinds" % method, len(seen_kinds) == len(VAL)))
    res.notes.append("%d (method, kind) cases decided" % total)


def claim_option(cx0, res, kf):
    cx = merged_ctx()
    VAL = cx.enums["Value"]
    eng, fn, info, terms = explore_de(cx, res, "deserialize_option")
    v = info["v"]
    cell = v.variants[VAL.index("Cons")][0]
    cdr = cell.attrs["cdr"]
    n = 0
    for t in terms:
        pc = list(t.state.pc)
        if t.kind == "PANIC":
            res.must_be_unsat(pc, "deserialize_option: reachable panic")
            continue
        visits = [e for e in t.state.events if e[0] == "visit"]
        inval = [e for e in t.state.events if e[0] == "invalid_type"]
        isnull = v.discr == VAL.index("Null")
        one = z3.And(v.discr == VAL.index("Cons"), cdr.discr == VAL.index("Null"))
        n += 1
        if visits and visits[0][1] == "visit_none":
            res.must_be_unsat(pc + [z3.Not(isnull)], "None produced for something other than the empty list")
        elif visits and visits[0][1] == "visit_some":
            res.must_be_unsat(pc + [z3.Not(one)], "Some(x) produced for something other than a one-element list")
        elif inval:
            res.must_be_unsat(pc + [z3.Or(isnull, one)], "a documented Option encoding is rejected")
    res.vacuity.append(("deserialize_option paths", n >= 3))


def claim_access(cx0, res, kf):
    """ListAccess / MapAccess: element stepping, improper tails are data errors, the only panic is the documented
    protocol violation (next_value_seed after the end)."""
    cx = merged_ctx()
    VAL = cx.enums["Value"]
    for what, method in (("ListAccess", "next_element_seed"), ("MapAccess", "next_key_seed"), ("MapAccess", "next_value_seed")):
        fn = find_method(cx, "serde-lexpr/src/value/de.rs", method, what + "<")
        if fn is None:
            res.error = "%s::%s not found" % (what, method)
            return
        eng = C.make_engine(cx, [], loop_mode="unroll", unroll=2, timeout_s=120)
        eng.stubs = serde_stubs(cx, eng) + S.COMBINATOR_STUBS + S.CORE_STUBS
        info = {}

        def init(e, st, fr):
            has = z3.Bool("cursor_some")
            car = sym_value(cx, e, st, "car", 1)
            cdr = sym_value(cx, e, st, "cdr", 0)
            cell = Opaque("Cons", "cell", {"car": car, "cdr": cdr})
            info.update(has=has, car=car, cdr=cdr)
            st.heap["acc"] = Agg("struct", what, [S.mk_option(has, Ref(("V", cell)))])
            fr.locals[fn.args[0]] = Ref(("H", "acc"))
            fr.locals[fn.args[1]] = Opaque("Seed", "seed", {})
            return []
        terms = eng.explore(fn.name, init)
        res.absorb(eng)
        has, car, cdr = info["has"], info["car"], info["cdr"]
        n = 0
        for t in terms:
            pc = list(t.state.pc)
            n += 1
            if t.kind == "PANIC":
                if method == "next_value_seed":
                    res.must_be_unsat(pc + [has], "%s::%s panics although an entry is pending" % (what, method))
                    res.notes.append("next_value_seed panics only when called after the end of the map (visitor protocol violation; documented expect)")
                else:
                    res.must_be_unsat(pc, "%s::%s: reachable panic" % (what, method))
                continue
            if t.kind != "RETURN":
                continue
            kind, payload = K.classify_return(eng, t)
            inval = [e for e in t.state.events if e[0] == "invalid_type"]
            seeds = [e for e in t.state.events if e[0] == "seed"]
            cursor = eng.load(t.state, ("H", "acc")).fields[0]
            if method == "next_element_seed":
                if kind == "ok" and isinstance(payload, EnumV):
                    # Ok(None) only at the end; Ok(Some) advances to the cdr cell or ends at the empty list
                    r, _ = res.solve(pc + [payload.discr == 0])
                    if r == z3.sat:
                        res.must_be_unsat(pc + [payload.discr == 0, has], "ListAccess reports the end although a cell is pending")
                    r, _ = res.solve(pc + [payload.discr == 1])
                    if r == z3.sat:
                        res.must_be_unsat(pc + [payload.discr == 1, z3.Not(z3.And(has, z3.Or(cdr.discr == VAL.index("Cons"), cdr.discr == VAL.index("Null"))))],
                                          "ListAccess yields an element of a list whose tail is neither a cell nor the empty list")
                        if len(seeds) != 1:
                            res.violations.append({"what": "ListAccess element without exactly one seed call", "replayed": None})
                if inval:
                    res.must_be_unsat(pc + [z3.Or(z3.Not(has), cdr.discr == VAL.index("Cons"), cdr.discr == VAL.index("Null"))],
                                      "ListAccess rejects a proper list")
            if method == "next_key_seed" and inval:
                res.must_be_unsat(pc + [z3.Or(z3.Not(has), car.discr == VAL.index("Cons"))], "MapAccess rejects an entry that is a pair")
            if method == "next_value_seed" and inval:
                res.must_be_unsat(pc + [has, car.discr == VAL.index("Cons"), z3.Or(cdr.discr == VAL.index("Cons"), cdr.discr == VAL.index("Null"))],
                                  "MapAccess rejects a well-formed association list")
        res.vacuity.append(("%s::%s paths" % (what, method), n >= 3))


def claim_ser_scalars(cx0, res, kf):
    cx = merged_ctx()
    VAL = cx.enums["Value"]
    NN = cx.enums["N"]
    n_ok = 0
    for ty in ("i8", "i16", "i32", "i64", "u8", "u16", "u32", "u64", "f32", "f64", "bool", "char"):
        fn = find_method(cx, "serde-lexpr/src/value/ser.rs", "serialize_" + ty, "Serializer")
        if fn is None:
            res.error = "serialize_%s not found" % ty
            return
        eng = C.make_engine(cx, [], loop_mode="unroll", unroll=2, timeout_s=120)
        eng.stubs = serde_stubs(cx, eng) + S.COMBINATOR_STUBS + S.CORE_STUBS
        info = {}

        def init(e, st, fr, ty=ty):
            if ty == "bool":
                x = e.sym_bool("x")
            elif ty == "f64":
                x = e.sym_f64("x")
            elif ty == "f32":
                x = F64(z3.FP("x32_%d" % next(e.fresh), z3.Float32()))
            else:
                x = e.sym_int(ty, "x")
            info["x"] = x
            fr.locals[fn.args[0]] = Agg("struct", "Serializer", [])
            fr.locals[fn.args[1]] = x
            return []
        terms = eng.explore(fn.name, init)
        res.absorb(eng)
        x = info["x"]
        for t in terms:
            pc = list(t.state.pc)
            if t.kind == "PANIC":
                res.must_be_unsat(pc, "serialize_%s: reachable panic" % ty)
                continue
            kind, payload = K.classify_return(eng, t)
            if kind != "ok" or not isinstance(payload, EnumV) or payload.name != "Value":
                res.violations.append({"what": "serialize_%s does not return Ok(Value): %r" % (ty, t), "replayed": None})
                continue
            n_ok += 1
            d = K.concrete(payload.discr)
            if ty == "bool":
                res.must_be_unsat(pc + [z3.Not(z3.And(payload.discr == VAL.index("Bool"), payload.variants[d][0].e == x.e))], "serialize_bool changes the value")
            elif ty == "char":
                res.must_be_unsat(pc + [z3.Not(z3.And(payload.discr == VAL.index("Char"), payload.variants[d][0].e == x.e))], "serialize_char changes the value")
            else:
                if d != VAL.index("Number"):
                    res.violations.append({"what": "serialize_%s does not produce a number" % ty, "replayed": None})
                    continue
                nenum = payload.variants[d][0].fields[0]
                nd = K.concrete(nenum.discr)
                pv = nenum.variants[nd][0]
                if ty in ("f32", "f64"):
                    want = x.e if ty == "f64" else z3.fpFPToFP(z3.RNE(), x.e, z3.Float64())
                    res.must_be_unsat(pc + [z3.Not(z3.And(nd == NN.index("Float"), z3.Or(pv.e == want, z3.And(z3.fpIsNaN(pv.e), z3.fpIsNaN(want)))))],
                                      "serialize_%s does not keep the float bits" % ty)
                else:
                    w, sg = INT_TY[ty]
                    xe = z3.SignExt(64 - w, x.e) if (sg and w < 64) else (z3.ZeroExt(64 - w, x.e) if w < 64 else x.e)
                    if sg:
                        good = z3.If(x.e >= 0, z3.And(nd == NN.index("PosInt"), pv.e == xe), z3.And(nd == NN.index("NegInt"), pv.e == xe))
                    else:
                        good = z3.And(nd == NN.index("PosInt"), pv.e == xe)
                    res.must_be_unsat(pc + [z3.Not(good)], "serialize_%s yields an integer of a different mathematical value" % ty)
    res.vacuity.append(("scalar serializer paths", n_ok >= 12))


def claim_error_category(cx0, res, kf):
    """serde_lexpr::Error::classify: Message -> Data; the deserializer only builds Message errors (invalid_type -> custom)."""
    cx = merged_ctx()
    fn = None
    for name, f in cx.fns.items():
        if "serde-lexpr/src/error.rs" in name and name.endswith("::classify"):
            fn = f
    if fn is None:
        res.error = "serde_lexpr::Error::classify not found"
        return
    EI = cx.enums["ErrorImpl"]
    eng = C.make_engine(cx, [], loop_mode="unroll", unroll=1, timeout_s=60)
    eng.stubs = S.CORE_STUBS
    info = {}

    def init(e, st, fr):
        d = z3.BitVec("impl", 64)
        pcat = z3.BitVec("pcat", 64)
        info.update(d=d, pcat=pcat)
        perr = Agg("struct", "Error", [Agg("struct", "Box", [Agg("struct", "Unique", [Ref(("H", "pimpl"))]), Blob("a")])])
        st.heap["pimpl"] = Agg("struct", "ErrorImpl", [EnumV("ErrorCode", z3.BitVec("pcode", 64), {0: [Blob("io")]}), Blob("loc")])
        st.heap["eimpl"] = EnumV("ErrorImpl", d, {EI.index("Message"): [Blob("msg"), Blob("loc")], EI.index("Io"): [Blob("io")],
                                                  EI.index("Parse"): [perr]})
        st.heap["err"] = Agg("struct", "Error", [Agg("struct", "Box", [Agg("struct", "Unique", [Ref(("H", "eimpl"))]), Blob("a")])])
        fr.locals[fn.args[0]] = Ref(("H", "err"))
        return [z3.ULT(d, bv(len(EI))), z3.ULT(z3.BitVec("pcode", 64), bv(len(cx.enums["ErrorCode"])))]
    terms = eng.explore(fn.name, init)
    res.absorb(eng)
    n = 0
    for t in terms:
        pc = list(t.state.pc)
        if t.kind != "RETURN" or not isinstance(t.value, EnumV):
            continue
        got = eng.enums[t.value.name][K.concrete(t.value.discr)]
        r, _ = res.solve(pc + [info["d"] == EI.index("Message")])
        if r == z3.sat:
            n += 1
            if got != "Data":
                res.violations.append({"what": "a data (Message) error is classified as %s" % got, "replayed": None})
        r, _ = res.solve(pc + [info["d"] == EI.index("Io")])
        if r == z3.sat and got != "Io":
            res.violations.append({"what": "an I/O error is classified as %s" % got, "replayed": None})
    res.vacuity.append(("Message classification path", n >= 1))


# ----------------------------------------------------------------------------- serializer shapes (C14 / C04)

class Term:
    """symbolic S-expression term built by the (stubbed) Value constructors"""
    __slots__ = ("op", "args")

    def __init__(self, op, *args):
        self.op, self.args = op, args

    def __repr__(self):
        return "%s(%s)" % (self.op, ", ".join(repr(a) for a in self.args))


def term_eq(a, b):
    if isinstance(a, Term) and isinstance(b, Term):
        return a.op == b.op and len(a.args) == len(b.args) and all(term_eq(x, y) for x, y in zip(a.args, b.args))
    if isinstance(a, tuple) and isinstance(b, tuple):
        return len(a) == len(b) and all(term_eq(x, y) for x, y in zip(a, b))
    if isinstance(a, Opaque) and isinstance(b, Opaque):
        # operands are copied when passed: abstract arguments are identified by type and label
        if "term" in a.attrs or "term" in b.attrs:
            return term_eq(a.attrs.get("term"), b.attrs.get("term"))
        return a.ty == b.ty and a.label == b.label
    return a is b


def ser_stubs(cx, engine):
    VAL = cx.enums["Value"]

    def unref(st, v):
        while isinstance(v, Ref):
            v = engine.load(st, v.addr)
        return v

    def T(term):
        return Opaque("Value", "term", {"term": term})

    def term_of(st, v):
        v = unref(st, v)
        if isinstance(v, Opaque) and "term" in v.attrs:
            return v.attrs["term"]
        if isinstance(v, EnumV) and v.name == "Value":
            d = K.concrete(v.discr)
            if d is not None:
                pay = v.variants.get(d, [])
                return Term(VAL[d], *[term_of(st, x) if isinstance(unref(st, x), (Opaque, EnumV)) else unref(st, x) for x in pay])
        return v

    def h_cons(engine, st, fr, callee, argv, m):
        return T(Term("cons", term_of(st, argv[0]), term_of(st, argv[1])))

    def h_symbol(engine, st, fr, callee, argv, m):
        return T(Term("symbol", unref(st, argv[0])))

    def h_other_ctor(engine, st, fr, callee, argv, m):
        return T(Term(m.group(1), *[term_of(st, a) if isinstance(unref(st, a), (Opaque, EnumV)) else unref(st, a) for a in argv]))

    def h_list(engine, st, fr, callee, argv, m):
        v = unref(st, argv[0])
        return T(Term("list", tuple(v.attrs.get("items", ("?",))) if isinstance(v, Opaque) else ("?",)))

    def h_into_box(engine, st, fr, callee, argv, m):
        v = unref(st, argv[0])
        return Opaque("Box<[Value]>", "boxed", {"term": Term("items", tuple(v.attrs.get("items", ("?",))) if isinstance(v, Opaque) else ("?",))})

    def h_ser(engine, st, fr, callee, argv, m):
        n = st.notes.get("nser", 0) + 1
        st.notes["nser"] = n
        err = z3.Bool("ser_%d_err" % n)
        what = unref(st, argv[0])
        st.events.append(("ser", what, err))
        return S.mk_result(engine, err, T(Term("ser", what)), Opaque("Error", "ser", {"kind": "ser"}))

    def h_push(engine, st, fr, callee, argv, m):
        v = unref(st, argv[0])
        if not (isinstance(v, Opaque) and "items" in v.attrs):
            raise Unsupported("push onto %r" % (v,))
        nv = Opaque(v.ty, v.label, {"items": tuple(v.attrs["items"]) + (term_of(st, argv[1]),)})
        engine.store(st, argv[0].addr, nv)
        return UnitV()

    def h_newvec(engine, st, fr, callee, argv, m):
        return Opaque("Vec<Value>", "fresh", {"items": ()})

    def h_veclen(engine, st, fr, callee, argv, m):
        # the number of collected items is arbitrary (the prefix is abstract)
        n = z3.BitVec("veclen_%d" % next(engine.fresh), 64)
        if m.group(1) == "is_empty":
            return BoolV(n == 0)
        return Int(n, "usize")

    def h_vectake(engine, st, fr, callee, argv, m):
        # an item taken OUT of the collection (remove / pop / swap_remove): an abstract element of it; what remains is not the collection
        v = unref(st, argv[0])
        if not (isinstance(v, Opaque) and "items" in v.attrs):
            raise Unsupported("%s on %r" % (m.group(1), v))
        items = tuple(v.attrs["items"])
        engine.store(st, argv[0].addr, Opaque(v.ty, v.label, {"items": (Term("rest-after-" + m.group(1), items),)}))
        item = T(Term("item-taken-by-" + m.group(1), items))
        if m.group(1) == "pop":
            return EnumV("Option", z3.BitVec("pop_%d" % next(engine.fresh), 64), {0: [], 1: [item]})
        return item

    def h_box_uninit(engine, st, fr, callee, argv, m):
        # first half of the `vec![a, b, ..]` expansion: an uninitialised boxed array (a heap object of the engine)
        n = st.notes.get("nbox", 0) + 1
        st.notes["nbox"] = n
        key = "vecmacro_%d" % n
        st.heap[key] = Agg("tuple", None, [])
        return Agg("struct", "Box", [Agg("struct", "Unique", [Ref(("H", key))])])

    def h_box_into_vec(engine, st, fr, callee, argv, m):
        # second half: the initialised array becomes the vector's contents, in order
        b = unref(st, argv[0]) if not isinstance(argv[0], Agg) else argv[0]
        try:
            r = b.fields[0].fields[0]
            arr = engine.load(st, r.addr + (("f", 1), ("f", 0), ("f", 0)))
        except Exception:  # noqa
            raise Unsupported("vec! expansion of unexpected shape: %r" % (b,))
        if not isinstance(arr, Agg):
            raise Unsupported("vec! expansion without array contents: %r" % (arr,))
        return Opaque("Vec<Value>", "vec!", {"items": tuple(term_of(st, x) for x in arr.fields)})

    def h_take(engine, st, fr, callee, argv, m):
        cur = engine.load(st, argv[0].addr)
        engine.store(st, argv[0].addr, EnumV("Option", 0, {}))
        return cur

    def h_keep(engine, st, fr, callee, argv, m):
        return argv[0]
    return [
        (re.compile(r"^Value::cons::<"), h_cons),
        (re.compile(r"^Value::symbol::<"), h_symbol),
        (re.compile(r"^Value::list::<"), h_list),
        (re.compile(r"^Value::(keyword|string|bytes|vector|append)::<"), h_other_ctor),
        (re.compile(r"^<Vec<Value> as Into<Box<\[Value\]>>>::into$"), h_into_box),
        (re.compile(r"^(to_value::<|<\w+ as Serialize>::serialize::<)"), h_ser),
        (re.compile(r"^Vec::<Value>::push$"), h_push),
        (re.compile(r"^Vec::<Value>::(with_capacity|new)$"), h_newvec),
        (re.compile(r"^Vec::<Value>::(len|is_empty)$"), h_veclen),
        (re.compile(r"^Vec::<Value>::(remove|swap_remove|pop)$"), h_vectake),
        (re.compile(r"^Box::<\[Value; \d+\]>::new_uninit$"), h_box_uninit),
        (re.compile(r"^(?:std::boxed::)?box_assume_init_into_vec_unsafe::<Value, \d+>$"), h_box_into_vec),
        (re.compile(r"^(?:std::option::)?Option::<usize>::map_or_else::<Vec<Value>"), h_newvec),
        (re.compile(r"^(?:std::option::)?Option::<Value>::take$"), h_take),
        (re.compile(r"^<&(str|\[u8\]) as Into<Box<(str|\[u8\])>>>::into$"), h_keep),
    ]


def claim_ser_shapes(cx0, res, kf):
    """Every structural serializer method builds exactly the documented S-expression term from its arguments and the
    already collected items (arbitrary prefix)."""
    cx = merged_ctx()
    VAL = cx.enums["Value"]
    NULL = Term("Null")
    confirm = None

    def run(self_ty, method, nargs, self_fields, spec, what):
        """self_fields: None (unit Serializer by value) or list of (field name, initial value factory)"""
        fn = find_method(cx, "serde-lexpr/src/value/ser.rs", method, self_ty)
        if fn is None:
            res.error = "%s::%s not found" % (self_ty, method)
            return
        eng = C.make_engine(cx, [], loop_mode="cut", timeout_s=60, max_paths=2000)
        eng.stubs = ser_stubs(cx, eng) + S.COMBINATOR_STUBS + S.CORE_STUBS
        info = {}

        def init(e, st, fr):
            args = []
            if self_fields is None:
                fr.locals[fn.args[0]] = UnitV()
            else:
                order = cx.structs.get(self_ty) or [f for f, _ in self_fields]
                vals = dict((f, mk()) for f, mk in self_fields)
                agg = Agg("struct", self_ty, [vals[f] for f in order])
                by_ref = fn.local_ty.get(fn.args[0], "").strip().startswith("&")
                if by_ref:
                    st.heap["self"] = agg
                    fr.locals[fn.args[0]] = Ref(("H", "self"))
                else:
                    fr.locals[fn.args[0]] = agg
                info["order"] = order
            for i, a in enumerate(fn.args[1:]):
                ty = fn.local_ty.get(a, "").strip()
                if ty in INT_TY:
                    v = e.sym_int(ty, "arg%d" % i)
                elif ty.startswith("std::option::Option<usize>") or ty.startswith("Option<usize>"):
                    v = S.mk_option(z3.Bool("len_some"), e.sym_int("usize", "len"))
                else:
                    v = Opaque(ty, "arg%d" % (i + 1), {})
                fr.locals[a] = v
                args.append(v)
            info["args"] = args
            return []
        terms = eng.explore(fn.name, init)
        res.absorb(eng)
        n_ok = 0
        for t in terms:
            st = t.state
            pc = list(st.pc)
            if t.kind == "PANIC":
                allowed = info.get("panic_ok")
                res.must_be_unsat(pc + ([z3.Not(allowed(st))] if allowed else []), "%s: reachable panic `%s`" % (what, t.info.get("msg")), confirm)
                continue
            if t.kind != "RETURN":
                continue
            kind, payload = K.classify_return(eng, t)
            sers = [e for e in st.events if e[0] == "ser"]
            if kind == "sym":
                # the nested result is returned as it is: look at its Ok side
                r, _ = res.solve(pc + [payload.discr == 0])
                if r == z3.sat and payload.variants.get(0):
                    pc = pc + [payload.discr == 0]
                    kind, payload = "ok", payload.variants[0][0]
            if kind == "err" or (kind == "sym"):
                # an error must be the error of a nested serialization
                if not sers:
                    res.violations.append({"what": "%s: fails although no nested serialization failed" % what, "replayed": None})
                continue
            n_ok += 1
            res.must_be_unsat(pc + [z3.Or(*[e[2] for e in sers])] if sers else pc + [z3.BoolVal(False)], "%s: succeeds although a nested serialization failed" % what, confirm)
            problem = spec(eng, st, info, payload)
            if problem:
                res.violations.append({"what": "%s: %s" % (what, problem), "replayed": None})
        res.vacuity.append(("%s returns Ok" % what, n_ok > 0))

    def vterm(eng, st, v):
        while isinstance(v, Ref):
            v = eng.load(st, v.addr)
        if isinstance(v, Opaque) and "term" in v.attrs:
            return v.attrs["term"]
        if isinstance(v, EnumV) and v.name == "Value":
            d = K.concrete(v.discr)
            pay = v.variants.get(d, [])
            out = []
            for x in pay:
                while isinstance(x, Ref):
                    x = eng.load(st, x.addr)
                out.append(x.attrs["term"] if isinstance(x, Opaque) and "term" in x.attrs else x)
            return Term(VAL[d], *out)
        return v

    def expect(want_fn):
        def spec(eng, st, info, payload):
            got = vterm(eng, st, payload)
            want = want_fn(info["args"])
            return None if term_eq(got, want) else "builds %r, documented shape is %r" % (got, want)
        return spec
    ser = lambda x: Term("ser", x)  # noqa
    # ---- Serializer (unit struct, by value)
    run("Serializer", "serialize_none", 0, None, expect(lambda a: NULL), "serialize_none")
    run("Serializer", "serialize_unit", 0, None, expect(lambda a: NULL), "serialize_unit")
    run("Serializer", "serialize_unit_struct", 1, None, expect(lambda a: NULL), "serialize_unit_struct")
    run("Serializer", "serialize_some", 1, None, expect(lambda a: Term("cons", ser(a[0]), NULL)), "serialize_some")
    run("Serializer", "serialize_newtype_struct", 2, None, expect(lambda a: ser(a[1])), "serialize_newtype_struct")
    run("Serializer", "serialize_unit_variant", 3, None, expect(lambda a: Term("symbol", a[2])), "serialize_unit_variant")
    run("Serializer", "serialize_newtype_variant", 4, None, expect(lambda a: Term("cons", Term("symbol", a[2]), ser(a[3]))), "serialize_newtype_variant")

    # ---- text and byte buffers: a string / byte vector on every path (whatever the length), never another serialize_* shape
    def kind_only(variant):
        def spec(eng, st, info, payload):
            v = payload
            while isinstance(v, Ref):
                v = eng.load(st, v.addr)
            if not (isinstance(v, EnumV) and v.name == "Value"):
                return "returns %r, documented is Value::%s of the argument" % (v, variant)
            r, _ = res.solve(list(st.pc) + [v.discr != VAL.index(variant)])
            if r != z3.unsat:
                return "builds a value of another kind than Value::%s (e.g. for some length of the buffer)" % variant
            if any(e[0] == "ser" for e in st.events):
                return "serializes something else on the way"
            return None
        return spec
    run("Serializer", "serialize_bytes", 1, None, kind_only("Bytes"), "serialize_bytes")
    run("Serializer", "serialize_str", 1, None, kind_only("String"), "serialize_str")

    # ---- collectors: one element step from an arbitrary prefix, and `end`
    PRE = Opaque("Value", "items collected so far", {})

    def vec():
        return Opaque("Vec<Value>", "collected", {"items": (PRE,)})

    def items_after(eng, st, info, field):
        selfv = st.heap.get("self")
        idx = info["order"].index(field)
        v = selfv.fields[idx]
        return tuple(v.attrs.get("items", ())) if isinstance(v, Opaque) else None

    def step(field, want_item):
        def spec(eng, st, info, payload):
            got = items_after(eng, st, info, field)
            want = (PRE, want_item(info["args"]))
            return None if term_eq(got, want) else "collects %r, documented is previous items + %r" % (got, want[1])
        return spec
    name = Opaque("&str", "variant name", {})
    run("SerializeList", "serialize_element", 1, [("items", vec)], step("items", lambda a: ser(a[0])), "SerializeSeq::serialize_element")
    run("SerializeList", "end", 0, [("items", vec)], expect(lambda a: Term("list", (PRE,))), "SerializeSeq::end")
    run("SerializeVector", "serialize_element", 1, [("items", vec)], step("items", lambda a: ser(a[0])), "SerializeTuple::serialize_element")
    run("SerializeVector", "serialize_field", 1, [("items", vec)], step("items", lambda a: ser(a[0])), "SerializeTupleStruct::serialize_field")
    run("SerializeVector", "end", 0, [("items", vec)], expect(lambda a: Term("Vector", Term("items", (PRE,)))), "SerializeTuple::end")
    run("SerializeTupleVariant", "serialize_field", 1, [("name", lambda: name), ("items", vec)], step("items", lambda a: ser(a[0])), "SerializeTupleVariant::serialize_field")
    run("SerializeTupleVariant", "end", 0, [("name", lambda: name), ("items", vec)],
        expect(lambda a: Term("cons", Term("symbol", name), Term("list", (PRE,)))), "SerializeTupleVariant::end")
    run("SerializeStruct", "serialize_field", 2, [("fields", vec)], step("fields", lambda a: Term("cons", Term("symbol", a[0]), ser(a[1]))), "SerializeStruct::serialize_field")
    run("SerializeStruct", "end", 0, [("fields", vec)], expect(lambda a: Term("list", (PRE,))), "SerializeStruct::end")
    run("SerializeStructVariant", "serialize_field", 2, [("name", lambda: name), ("fields", vec)],
        step("fields", lambda a: Term("cons", Term("symbol", a[0]), ser(a[1]))), "SerializeStructVariant::serialize_field")
    run("SerializeStructVariant", "end", 0, [("name", lambda: name), ("fields", vec)],
        expect(lambda a: Term("cons", Term("symbol", name), Term("list", (PRE,)))), "SerializeStructVariant::end")
    none = lambda: EnumV("Option", 0, {})  # noqa
    run("SerializeMap", "serialize_entry", 2, [("entries", vec), ("next_key", none)], step("entries", lambda a: Term("cons", ser(a[0]), ser(a[1]))), "SerializeMap::serialize_entry")
    run("SerializeMap", "end", 0, [("entries", vec), ("next_key", none)], expect(lambda a: Term("list", (PRE,))), "SerializeMap::end")
    KEY = Opaque("Value", "term", {"term": Term("ser", Opaque("K", "pending key", {}))})
    some_key = lambda: EnumV("Option", 1, {1: [KEY]})  # noqa
    run("SerializeMap", "serialize_value", 1, [("entries", vec), ("next_key", some_key)],
        step("entries", lambda a: Term("cons", KEY.attrs["term"], ser(a[0]))), "SerializeMap::serialize_value")

    def key_step(eng, st, info, payload):
        selfv = st.heap.get("self")
        nk = selfv.fields[info["order"].index("next_key")]
        if not (isinstance(nk, EnumV) and K.concrete(nk.discr) == 1):
            return "serialize_key does not remember the key"
        got = vterm(eng, st, nk.variants[1][0])
        return None if term_eq(got, ser(info["args"][0])) else "remembers %r instead of the serialized key" % (got,)
    run("SerializeMap", "serialize_key", 1, [("entries", vec), ("next_key", none)], key_step, "SerializeMap::serialize_key")


CLAIMS = [
    Claim("c14_de_kind_tables", "C14", "quick", claim_de_tables,
          "every deserialize_* method, for an arbitrary input value: calls exactly the documented visitor method for the "
          "accepted kinds (numbers by their representation with the unchanged payload; vector or list where a sequence / "
          "tuple is expected; empty list or alist for maps and structs; symbol or pair for enums) and rejects every other "
          "kind with a data error without consulting the visitor; no panic for any input",
          "26 methods x 11 value kinds x 3 number representations (symbolic payloads)", configs=("fast",), also=("C18", "C04")),
    Claim("c14_option", "C14", "quick", claim_option,
          "deserialize_option: None exactly for the empty list, Some(x) exactly for a one-element list, everything else a data error",
          "arbitrary value with an arbitrary car/cdr", configs=("fast",), also=("C18",)),
    Claim("c18_access_steps", "C18", "quick", claim_access,
          "ListAccess / MapAccess: one step from an arbitrary cursor: elements only from proper lists (improper tail -> data "
          "error), map entries must be pairs, end of sequence reported only at the end, and the only reachable panic is "
          "next_value_seed after the end (visitor protocol violation)",
          "arbitrary cell, car and cdr kinds", configs=("fast",), also=("C14",)),
    Claim("c04_ser_scalars", "C04", "quick", claim_ser_scalars,
          "serialize_{i8..u64,f32,f64,bool,char}: the resulting Value holds the same mathematical integer (PosInt for >= 0, "
          "NegInt below), the exactly widened float, the same bool / char",
          "every value of each scalar type", configs=("fast",), also=("C14", "C18")),
    Claim("c14_ser_shapes", "C14", "quick", claim_ser_shapes,
          "every structural serializer method builds exactly the documented term from its arguments: None / unit / unit struct "
          "-> (), Some(x) -> (x), newtype struct -> content, unit variant -> symbol, newtype variant -> (name . payload); the "
          "collectors append exactly one serialized item per call (struct fields as (symbol . value), map entries as "
          "(key . value)) and end with a proper list, a vector (tuples), or (name item...) / (name (field . value)...) for "
          "variants; an error is returned iff a nested serialization failed",
          "arbitrary already-collected prefix (one-step induction over any number of items), abstract nested serializations",
          configs=("fast",), also=("C04", "C18")),
    Claim("c18_error_category", "C18", "quick", claim_error_category,
          "serde_lexpr::Error::classify maps message errors (all the value deserializer produces) to Category::Data and I/O errors to Io",
          "all ErrorImpl variants", configs=("fast",)),
]
