"""Symbolic executor for rustc MIR with solver-pruned path exploration (z3).

Value classes
  Int(expr, ty)      bit-vector scalar (u8..u64, usize, i8..i64, isize, char as u32)
  BoolV(expr)        z3 Bool
  F64(expr)          z3 Float64
  UnitV()
  Agg(kind, name, fields)     tuple / struct / array / closure (by position)
  EnumV(name, discr, variants)  discr: z3 BitVec(64) ; variants: {index: [field values]}
  Ref(addr)          addr = ('L', frame_uid, local, *proj) | ('H', heap_id, *proj) | ('S', static name)
  Opaque(ty, label, attrs)
Paths end in a Terminal(kind, ...) with kind in RETURN / PANIC / LOOP_BACK / UNROLL_LIMIT / UNREACHABLE / STOP.
"""
import itertools
import re
import time

import z3

from . import mirparse

FP_UF = {n: z3.Function("f" + n.lower(), z3.Float64(), z3.Float64(), z3.Float64()) for n in ("Mul", "Div", "Add", "Sub")}
FP_ISINF = z3.Function("fisinf", z3.Float64(), z3.BoolSort())

INT_TY = {"u8": (8, False), "u16": (16, False), "u32": (32, False), "u64": (64, False), "usize": (64, False),
          "u128": (128, False), "i8": (8, True), "i16": (16, True), "i32": (32, True), "i64": (64, True),
          "isize": (64, True), "i128": (128, True), "char": (32, False)}


class Unsupported(Exception):
    pass


class Int:
    __slots__ = ("e", "ty")

    def __init__(self, e, ty):
        self.e = e
        self.ty = ty

    @property
    def width(self):
        return INT_TY[self.ty][0]

    @property
    def signed(self):
        return INT_TY[self.ty][1]

    def __repr__(self):
        return "Int(%s:%s)" % (z3.simplify(self.e), self.ty)


class BoolV:
    __slots__ = ("e",)

    def __init__(self, e):
        self.e = e

    def __repr__(self):
        return "Bool(%s)" % z3.simplify(self.e)


class F64:
    __slots__ = ("e",)

    def __init__(self, e):
        self.e = e

    def __repr__(self):
        return "F64(%s)" % self.e


class UnitV:
    def __repr__(self):
        return "()"


class Agg:
    __slots__ = ("kind", "name", "fields")

    def __init__(self, kind, name, fields):
        self.kind, self.name, self.fields = kind, name, list(fields)

    def __repr__(self):
        return "%s%s%r" % (self.kind, self.name or "", self.fields)


class EnumV:
    __slots__ = ("name", "discr", "variants")

    def __init__(self, name, discr, variants):
        self.name = name
        self.discr = discr if not isinstance(discr, int) else z3.BitVecVal(discr, 64)
        self.variants = variants

    def __repr__(self):
        return "Enum<%s>(d=%s,%r)" % (self.name, z3.simplify(self.discr), self.variants)


class Ref:
    __slots__ = ("addr",)

    def __init__(self, addr):
        self.addr = tuple(addr)

    def __repr__(self):
        return "Ref%r" % (self.addr,)


class Opaque:
    __slots__ = ("ty", "label", "attrs")

    def __init__(self, ty, label, attrs=None):
        self.ty, self.label, self.attrs = ty, label, dict(attrs or {})

    def __repr__(self):
        return "Opaque<%s>(%s,%r)" % (self.ty, self.label, self.attrs)


class Blob:
    """Absorbing opaque heap value: every projection / deref of a Blob is a Blob, stores into it are dropped.
    Used for values whose structure the claims do not depend on (built Values, raw box internals)."""
    __slots__ = ("label",)

    def __init__(self, label="blob"):
        self.label = label

    def __repr__(self):
        return "Blob(%s)" % self.label


class Uninit:
    def __repr__(self):
        return "uninit"


UNINIT = Uninit()


def clone(v):
    if isinstance(v, Agg):
        return Agg(v.kind, v.name, [clone(x) for x in v.fields])
    if isinstance(v, EnumV):
        return EnumV(v.name, v.discr, {k: [clone(x) for x in f] for k, f in v.variants.items()})
    if isinstance(v, Opaque):
        return Opaque(v.ty, v.label, v.attrs)
    return v


class Frame:
    _uid = itertools.count(1)

    def __init__(self, fn, fname):
        self.fn = fn
        self.fname = fname
        self.locals = {}
        self.bb = 0
        self.ret_place = None   # address in caller
        self.ret_bb = None
        self.uid = next(Frame._uid)
        self.visits = {}
        self.post = None        # python callable applied to the return value (continuation of a stubbed combinator)

    def clone(self):
        f = Frame.__new__(Frame)
        f.fn, f.fname, f.bb, f.ret_place, f.ret_bb, f.uid = self.fn, self.fname, self.bb, self.ret_place, self.ret_bb, self.uid
        f.post = self.post
        f.locals = {k: clone(v) for k, v in self.locals.items()}
        f.visits = dict(self.visits)
        return f


class State:
    def __init__(self):
        self.frames = []
        self.heap = {}
        self.events = []
        self.pc = []
        self.steps = 0
        self.notes = {}

    def clone(self):
        s = State()
        s.frames = [f.clone() for f in self.frames]
        s.heap = {k: clone(v) for k, v in self.heap.items()}
        s.events = list(self.events)
        s.pc = list(self.pc)
        s.steps = self.steps
        s.notes = dict(self.notes)
        return s


class Terminal:
    def __init__(self, kind, state, value=None, info=None):
        self.kind = kind
        self.state = state
        self.value = value
        self.info = info

    def __repr__(self):
        return "Terminal(%s, %r, %r)" % (self.kind, self.value, self.info)


# ----------------------------------------------------------------------------- enum tables

STD_ENUMS = {
    "Option": ["None", "Some"],
    "Result": ["Ok", "Err"],
    "ControlFlow": ["Continue", "Break"],
    "Ordering": ["Less", "Equal", "Greater"],
}


ENUM_PAYLOADS = {}


def parse_enums_from_source(paths):
    """Very small Rust-source scanner: `enum Name { A, B(..), C { .. }, }` -> {Name: [variants in order]}
    (payload type texts are kept in ENUM_PAYLOADS[Name][Variant] = [types])"""
    out = {}
    for p in paths:
        try:
            src = open(p).read()
        except OSError:
            continue
        src = re.sub(r"//[^\n]*", "", src)
        for m in re.finditer(r"\benum\s+([A-Za-z_][A-Za-z0-9_]*)\s*(?:<[^>{]*>)?\s*\{", src):
            name = m.group(1)
            j = mirparse.find_matching(src, m.end() - 1)
            body = src[m.end():j]
            vs = []
            for item in mirparse.split_top(body):
                item = re.sub(r"#\[[^\]]*\]", "", item).strip()
                mm = re.match(r"([A-Za-z_][A-Za-z0-9_]*)\s*(?:\((.*)\))?", item, flags=re.S)
                if mm:
                    vs.append(mm.group(1))
                    ENUM_PAYLOADS.setdefault(name, {})[mm.group(1)] = \
                        [x.strip() for x in mirparse.split_top(mm.group(2))] if mm.group(2) else []
            if name in out and out[name] != vs:
                # same enum name in another module / crate: keep both (resolved by variant name where used)
                import os as _os
                stem = _os.path.splitext(_os.path.basename(p))[0]
                crate = p.split("/src/")[0].split("/")[-1]
                out["%s@%s/%s" % (name, crate, stem)] = vs
            else:
                out[name] = vs
    return out


# ----------------------------------------------------------------------------- engine

class Engine:
    def __init__(self, fns, statics, enums, stubs, inline=None, loop_mode="unroll", unroll=2,
                 max_paths=4000, max_steps=4000, timeout_s=120, havoc_hook=None, on_header=None):
        self.fns = fns
        self.statics = statics
        self.enums = dict(STD_ENUMS)
        self.enums.update(enums)
        self.stubs = stubs                 # list of (compiled regex, handler)
        self.inline = inline               # predicate name -> bool  (None: inline whatever has MIR and no stub)
        self.loop_mode = loop_mode
        self.unroll = unroll
        self.max_paths = max_paths
        self.max_steps = max_steps
        self.solver = z3.Solver()
        self.solver.set("timeout", 20000)
        self.queries = 0
        self.solver_s = 0.0
        self.terminals = []
        self.fresh = itertools.count()
        self.deadline = time.time() + timeout_s
        self.havoc_hook = havoc_hook       # fn(engine, state, frame, header_bb) -> None (assume invariants etc.)
        self.on_header = on_header
        self.functions_touched = set()
        self.unmodelled = set()
        self.loop_headers_cache = {}
        self.unsupported = []

    # ---- fresh symbols
    def sym_int(self, ty, hint="v"):
        w = INT_TY[ty][0]
        return Int(z3.BitVec("%s_%d" % (hint, next(self.fresh)), w), ty)

    def sym_bool(self, hint="b"):
        return BoolV(z3.Bool("%s_%d" % (hint, next(self.fresh))))

    def sym_f64(self, hint="f"):
        return F64(z3.FP("%s_%d" % (hint, next(self.fresh)), z3.Float64()))

    def fresh_for_type(self, ty, hint="h"):
        ty = ty.strip()
        if ty in INT_TY:
            return self.sym_int(ty, hint)
        if ty == "bool":
            return self.sym_bool(hint)
        if ty == "f64":
            return self.sym_f64(hint)
        if ty == "()":
            return UnitV()
        return None

    def havoc_aggregate(self, v, hint):
        """loop-carried struct / tuple / array whose leaves are scalars (Range counters, (value, flag) pairs): same shape,
        fresh leaves.  Anything containing references, enums or opaque values is left as it is (-> None)."""
        if isinstance(v, Int):
            return self.sym_int(v.ty, hint)
        if isinstance(v, BoolV):
            return self.sym_bool(hint)
        if isinstance(v, F64):
            return self.sym_f64(hint)
        if isinstance(v, Agg) and v.fields:
            fs = [self.havoc_aggregate(f, hint) for f in v.fields]
            if any(f is None for f in fs):
                return None
            return Agg(v.kind, v.name, fs)
        return None

    # ---- solver helpers
    def check(self, *extra):
        self.queries += 1
        t0 = time.time()
        r = self.solver.check(*extra)
        self.solver_s += time.time() - t0
        return r

    def feasible(self, cond):
        c = z3.simplify(cond)
        if z3.is_true(c):
            return True
        if z3.is_false(c):
            return False
        return self.check(c) != z3.unsat

    # ---- loops
    def loop_headers(self, fn):
        if fn.name in self.loop_headers_cache:
            return self.loop_headers_cache[fn.name]
        succ = {}
        for n, b in fn.blocks.items():
            t = b.term[0] if b.term else ("unreachable",)
            s = []
            if t[0] == "goto":
                s = [t[1]]
            elif t[0] == "switch":
                s = [x[1] for x in t[2]] + ([t[3]] if t[3] is not None else [])
            elif t[0] == "assert":
                s = [t[4]]
            elif t[0] == "drop":
                s = [t[2]]
            elif t[0] == "call":
                s = [t[4]] if t[4] is not None else []
            succ[n] = [x for x in s if isinstance(x, int)]
        headers = set()
        color = {}
        stack = [(0, iter(succ.get(0, [])))]
        color[0] = 1
        while stack:
            n, it = stack[-1]
            adv = False
            for m in it:
                if color.get(m, 0) == 0:
                    color[m] = 1
                    stack.append((m, iter(succ.get(m, []))))
                    adv = True
                    break
                elif color.get(m) == 1:
                    headers.add(m)
            if not adv:
                color[n] = 2
                stack.pop()
        # natural loop bodies
        pred = {}
        for a, ss in succ.items():
            for b in ss:
                pred.setdefault(b, []).append(a)
        bodies = {}
        for h in headers:
            body = {h}
            work = [a for a in pred.get(h, []) if reaches(succ, h, a)]
            # back-edge sources: predecessors of h that are reachable from h
            while work:
                x = work.pop()
                if x in body:
                    continue
                body.add(x)
                work.extend(pred.get(x, []))
            bodies[h] = body
        self.loop_headers_cache[fn.name] = (headers, bodies)
        return headers, bodies

    def written_locals(self, fn, body):
        out = set()
        for n in body:
            b = fn.blocks[n]
            for st, _ in b.stmts:
                if st[0] == "assign":
                    r = root_local(st[1])
                    if r is not None:
                        out.add(r)
                    # a local borrowed mutably inside the loop may be written through that reference (iterators, `&mut x`
                    # handed to a callee): it belongs to the loop state as well
                    rv = st[2]
                    if rv and rv[0] == "ref" and len(rv) > 2 and rv[2]:
                        r2 = root_local(rv[1])
                        if r2 is not None and rv[1][0] != "deref":
                            out.add(r2)
            t = b.term[0]
            if t[0] == "call" and t[1] is not None:
                r = root_local(t[1])
                if r is not None:
                    out.add(r)
        return out

    # ---- memory
    def resolve(self, st, frame, place):
        """place AST -> address tuple"""
        k = place[0]
        if k == "local":
            return ("L", frame.uid, place[1])
        if k == "deref":
            v = self.load(st, self.resolve(st, frame, place[1]))
            if isinstance(v, Blob):
                return ("B", v.label)
            if not isinstance(v, Ref):
                raise Unsupported("deref of non-ref %r" % (v,))
            return v.addr
        if k == "field":
            return self.resolve(st, frame, place[1]) + (("f", place[2]),)
        if k == "downcast":
            return self.resolve(st, frame, place[1]) + (("v", place[2]),)
        if k == "constindex":
            return self.resolve(st, frame, place[1]) + (("f", place[2]),)
        if k == "index":
            iv = frame.locals.get(place[2])
            if isinstance(iv, Int):
                c = z3.simplify(iv.e)
                if z3.is_bv_value(c):
                    # a constant index is an ordinary field position (arrays are aggregates)
                    return self.resolve(st, frame, place[1]) + (("f", c.as_long()),)
            return self.resolve(st, frame, place[1]) + (("i", iv),)
        raise Unsupported("place %r" % (place,))

    def root_container(self, st, addr):
        if addr[0] == "L":
            for f in st.frames:
                if f.uid == addr[1]:
                    return f.locals, addr[2], addr[3:]
            raise Unsupported("dangling frame ref")
        if addr[0] == "H":
            return st.heap, addr[1], addr[2:]
        raise Unsupported("addr %r" % (addr,))

    def enum_candidates(self, name):
        return [k for k in self.enums if k == name or k.startswith(name + "@")]

    def variant_index(self, enum_name, vname):
        vs = self.enums.get(enum_name)
        if vs is None:
            # search all enums for a unique variant of that name
            cands = [(n, v.index(vname)) for n, v in self.enums.items() if vname in v]
            idx = set(i for _, i in cands)
            if len(idx) == 1:
                return idx.pop()
            raise Unsupported("unknown enum %s::%s" % (enum_name, vname))
        if vname not in vs:
            raise Unsupported("unknown variant %s::%s" % (enum_name, vname))
        return vs.index(vname)

    def load(self, st, addr):
        if addr[0] == "B":
            return Blob(addr[1])
        if addr[0] == "S":
            if len(addr) == 3 and addr[2][0] == "f" and isinstance(addr[2][1], int) and self.statics.get(addr[1], {}).get("count") is not None:
                # constant index into a typed static table
                addr = (addr[0], addr[1], ("i", Int(z3.BitVecVal(addr[2][1], 64), "usize")))
            if len(addr) == 3 and addr[2][0] == "i":
                from . import stubs as _S
                iv = addr[2][1]
                ie = iv.e if iv.width == 64 else z3.ZeroExt(64 - iv.width, iv.e)
                if self.statics.get(addr[1], {}).get("elem") == "f64":
                    arr, n = _S.table_f64(self, addr[1])
                    st.events.append(("table_get", addr[1], ie))
                    return F64(z3.fpBVToFP(z3.Select(arr, ie), z3.Float64()))
                return Int(_S.table_u8_select(self, addr[1], ie), "u8")
            if len(addr) > 2 and self.statics.get(addr[1], {}).get("count") is not None:
                raise Unsupported("load from the static table %s at %r" % (addr[1], addr[2:]))
            return self.static_value(addr[1])
        if addr[0] == "V":
            v = addr[1]
            for p in addr[2:]:
                v = self.project(v, p)
            return v
        cont, key, proj = self.root_container(st, addr)
        v = cont.get(key, UNINIT)
        for p in proj:
            v = self.project(v, p)
        return v

    def project(self, v, p):
        if isinstance(v, Blob):
            return v
        if isinstance(v, Opaque) and v.ty == "symslice" and p[0] == "f":
            return Int(z3.Select(v.attrs["arr"], z3.BitVecVal(p[1], 64)), "u8")
        if isinstance(v, Opaque) and v.ty in ("symslice", "inputslice") and p[0] == "i":
            iv = p[1]
            ie = iv.e if iv.width == 64 else z3.ZeroExt(64 - iv.width, iv.e)
            return Int(z3.Select(v.attrs["arr"], ie), "u8")
        if p[0] == "f":
            if isinstance(v, Agg):
                if p[1] >= len(v.fields):
                    raise Unsupported("field %d of %r" % (p[1], v))
                return v.fields[p[1]]
            if isinstance(v, tuple) and v and v[0] == "variant":
                return v[1][p[1]]
            if isinstance(v, Opaque):
                key = "f%d" % p[1]
                if key in v.attrs:
                    return v.attrs[key]
                raise Unsupported("field %d of opaque %r" % (p[1], v))
            raise Unsupported("field of %r" % (v,))
        if p[0] == "v":
            if isinstance(v, EnumV):
                idx = self.variant_index(v.name, p[1])
                if idx not in v.variants:
                    raise Unsupported("variant %s not materialised in %r" % (p[1], v))
                return ("variant", v.variants[idx])
            raise Unsupported("downcast of %r" % (v,))
        if p[0] == "i":
            raise Unsupported("symbolic index")
        raise Unsupported("proj %r" % (p,))

    def store(self, st, addr, val):
        if addr[0] == "B":
            return
        cont, key, proj = self.root_container(st, addr)
        if not proj:
            cont[key] = val
            return
        base = cont.get(key, UNINIT)
        cont[key] = self.store_into(base, proj, val)

    def store_into(self, base, proj, val):
        if isinstance(base, Blob):
            return base
        p = proj[0]
        rest = proj[1:]
        if p[0] == "f":
            if isinstance(base, Uninit):
                base = Agg("tuple", None, [])
            if isinstance(base, Agg):
                flds = list(base.fields)
                while len(flds) <= p[1]:
                    flds.append(UNINIT)
                flds[p[1]] = val if not rest else self.store_into(flds[p[1]], rest, val)
                return Agg(base.kind, base.name, flds)
            if isinstance(base, Opaque):
                o = Opaque(base.ty, base.label, base.attrs)
                key = "f%d" % p[1]
                o.attrs[key] = val if not rest else self.store_into(o.attrs.get(key, UNINIT), rest, val)
                return o
            raise Unsupported("store field into %r" % (base,))
        if p[0] == "v":
            if isinstance(base, EnumV):
                idx = self.variant_index(base.name, p[1])
                vs = {k: list(f) for k, f in base.variants.items()}
                assert rest and rest[0][0] == "f"
                flds = list(vs.get(idx, []))
                while len(flds) <= rest[0][1]:
                    flds.append(UNINIT)
                flds[rest[0][1]] = val if len(rest) == 1 else self.store_into(flds[rest[0][1]], rest[1:], val)
                vs[idx] = flds
                return EnumV(base.name, base.discr, vs)
            raise Unsupported("store variant into %r" % (base,))
        raise Unsupported("store proj %r" % (p,))

    def static_value(self, name):
        s = self.statics.get(name)
        if s is None:
            raise Unsupported("static %s" % name)
        if s.get("bytes") is None and s.get("ptr") and s["ptr"] in self.statics:
            # a static holding a (fat) pointer to another allocation, e.g. `static X: &[u8] = b"..."`
            return Ref(("S", s["ptr"]))
        return Opaque("static", name, {"bytes": s.get("bytes"), "size": s["size"]})

    # ---- constants
    def const(self, text, ty_hint=None):
        t = text.strip()
        m = re.fullmatch(r"(-?\d+)_(u8|u16|u32|u64|usize|u128|i8|i16|i32|i64|isize|i128)", t)
        if m:
            w = INT_TY[m.group(2)][0]
            return Int(z3.BitVecVal(int(m.group(1)), w), m.group(2))
        if t in ("true", "false"):
            return BoolV(z3.BoolVal(t == "true"))
        if t == "()":
            return UnitV()
        m = re.fullmatch(r"(-?[0-9.]+(?:E[+-]?\d+)?)f64", t)
        if m:
            return F64(z3.FPVal(float(m.group(1)), z3.Float64()))
        m = re.fullmatch(r"'(.)'", t)
        if m:
            return Int(z3.BitVecVal(ord(m.group(1)), 32), "char")
        m = re.fullmatch(r"'\\u\{([0-9a-fA-F]+)\}'", t)
        if m:
            return Int(z3.BitVecVal(int(m.group(1), 16), 32), "char")
        m = re.fullmatch(r"'\\(.)'", t)
        if m:
            c = {"n": 10, "r": 13, "t": 9, "\\": 92, "'": 39, "0": 0}.get(m.group(1))
            if c is not None:
                return Int(z3.BitVecVal(c, 32), "char")
        m = re.fullmatch(r"(?:core::num::<impl (\w+)>|(\w+))::(MAX|MIN)", t)
        if m and (m.group(1) or m.group(2)) in INT_TY:
            tyname = m.group(1) or m.group(2)
            w, sg = INT_TY[tyname]
            if m.group(3) == "MAX":
                val = (1 << (w - 1)) - 1 if sg else (1 << w) - 1
            else:
                val = -(1 << (w - 1)) if sg else 0
            return Int(z3.BitVecVal(val, w), tyname)
        m = re.fullmatch(r"core::num::<impl (\w+)>::(MAX|MIN)__never", t)
        if m:
            w, sg = INT_TY[m.group(1)]
            if m.group(2) == "MAX":
                val = (1 << (w - 1)) - 1 if sg else (1 << w) - 1
            else:
                val = -(1 << (w - 1)) if sg else 0
            return Int(z3.BitVecVal(val, w), m.group(1))
        m = re.fullmatch(r"\{(alloc\d+): (.*)\}", t)
        if m:
            return Ref(("S", m.group(1)))
        m = re.fullmatch(r"<static\(DefId\([^~]*~ [^:]*::(?:.*::)?([A-Za-z_0-9]+)\)\)>", t)
        if m and m.group(1) in self.statics:
            return Ref(("S", m.group(1)))
        m = re.fullmatch(r"<static\(DefId\([^~]*~ [^:]*::(.*)\)\)>", t)
        if m:
            path = m.group(1)
            for k in self.statics:
                if not k.startswith("alloc") and (path == k or path.endswith("::" + k)):
                    return Ref(("S", k))
        m = re.search(r"([A-Za-z_0-9]+)(?:::<[^>]*>)?::promoted\[(\d+)\]$", t)
        if m:
            rhs = mirparse.PROMOTED.get("%s::promoted[%s]" % (m.group(1), m.group(2)))
            if rhs is not None:
                inner = rhs[6:] if rhs.startswith("const ") else rhs
                mm = re.fullmatch(r"std::ops::RangeInclusive::<(\w+)>::new\(const (\S+), const (\S+)\)", inner)
                if mm:
                    return Ref(("V", Agg("struct", "RangeInclusive", [self.const(mm.group(2)), self.const(mm.group(3))])))
                if rhs.startswith("std::ops::Range::<") or (rhs[:1].isupper() and "{" in rhs) or rhs.startswith("["):
                    # aggregate of constants: evaluate the rvalue with an empty frame
                    try:
                        rv = mirparse.parse_rvalue(rhs)
                        if rv[0] in ("struct", "adt", "array", "tuple"):
                            return Ref(("V", self.rvalue(State(), Frame(None, "const"), rv)))
                    except Exception:  # noqa
                        pass
                return Ref(("V", self.const(inner)))
        m = re.fullmatch(r'b?"(.*)"', t, flags=re.S)
        if m:
            return Opaque("strlit", t, {"lit": unescape(m.group(1))})
        # enum unit variant / named const
        m = re.fullmatch(r"(?:.*::)?([A-Za-z_][A-Za-z0-9_]*)::([A-Za-z_][A-Za-z0-9_]*)", t)
        if m:
            for key in self.enum_candidates(m.group(1)):
                if m.group(2) in self.enums[key]:
                    return EnumV(key, self.enums[key].index(m.group(2)), {})
        return Opaque("const", t, {})

    # ---- operands / rvalues
    def operand(self, st, frame, op):
        k = op[0]
        if k in ("copy", "move"):
            v = self.load(st, self.resolve(st, frame, op[1]))
            if isinstance(v, tuple) and v and v[0] == "variant":
                raise Unsupported("read of bare variant")
            return clone(v) if k == "copy" else v
        if k == "const":
            return self.const(op[1])
        if k == "fnitem":
            return Opaque("fnitem", op[1], {})
        raise Unsupported("operand %r" % (op,))

    def binop(self, name, a, b):
        if isinstance(a, F64) or isinstance(b, F64):
            rm = z3.RNE()
            if not (isinstance(a, F64) and isinstance(b, F64)):
                raise Unsupported("float %s of %r and %r" % (name, a, b))
            x, y = a.e, b.e
            if getattr(self, "fp_abstract", False) and name in ("Mul", "Div", "Add", "Sub"):
                return F64(FP_UF[name](x, y))
            if name == "Mul":
                return F64(z3.fpMul(rm, x, y))
            if name == "Div":
                return F64(z3.fpDiv(rm, x, y))
            if name == "Add":
                return F64(z3.fpAdd(rm, x, y))
            if name == "Sub":
                return F64(z3.fpSub(rm, x, y))
            if name == "Eq":
                return BoolV(z3.fpEQ(x, y))
            if name == "Ne":
                return BoolV(z3.Not(z3.fpEQ(x, y)))
            if name == "Lt":
                return BoolV(z3.fpLT(x, y))
            if name == "Le":
                return BoolV(z3.fpLEQ(x, y))
            if name == "Gt":
                return BoolV(z3.fpGT(x, y))
            if name == "Ge":
                return BoolV(z3.fpGEQ(x, y))
            raise Unsupported("float binop " + name)
        if isinstance(a, BoolV) and isinstance(b, BoolV):
            if name == "Eq":
                return BoolV(a.e == b.e)
            if name == "Ne":
                return BoolV(a.e != b.e)
            if name == "BitAnd":
                return BoolV(z3.And(a.e, b.e))
            if name == "BitOr":
                return BoolV(z3.Or(a.e, b.e))
            if name == "BitXor":
                return BoolV(z3.Xor(a.e, b.e))
            raise Unsupported("bool binop " + name)
        if isinstance(a, EnumV) and isinstance(b, EnumV):
            # fieldless enum comparison
            if name == "Eq":
                return BoolV(a.discr == b.discr)
            if name == "Ne":
                return BoolV(a.discr != b.discr)
        if not (isinstance(a, Int) and isinstance(b, Int)):
            raise Unsupported("binop %s on %r, %r" % (name, a, b))
        x, y, ty = a.e, b.e, a.ty
        w, sg = INT_TY[ty]
        if name in ("Shl", "Shr", "ShlUnchecked", "ShrUnchecked"):
            if b.width != w:
                y = z3.ZeroExt(w - b.width, y) if b.width < w else z3.Extract(w - 1, 0, y)
            if name.startswith("Shl"):
                return Int(x << y, ty)
            return Int((x >> y) if sg else z3.LShR(x, y), ty)
        if b.width != w:
            raise Unsupported("width mismatch in %s" % name)
        if name in ("Add", "AddUnchecked"):
            return Int(x + y, ty)
        if name in ("Sub", "SubUnchecked"):
            return Int(x - y, ty)
        if name in ("Mul", "MulUnchecked"):
            return Int(x * y, ty)
        if name == "Div":
            return Int((x / y) if sg else z3.UDiv(x, y), ty)
        if name == "Rem":
            return Int(z3.SRem(x, y) if sg else z3.URem(x, y), ty)
        if name == "BitAnd":
            return Int(x & y, ty)
        if name == "BitOr":
            return Int(x | y, ty)
        if name == "BitXor":
            return Int(x ^ y, ty)
        if name == "Eq":
            return BoolV(x == y)
        if name == "Ne":
            return BoolV(x != y)
        if name == "Lt":
            return BoolV((x < y) if sg else z3.ULT(x, y))
        if name == "Le":
            return BoolV((x <= y) if sg else z3.ULE(x, y))
        if name == "Gt":
            return BoolV((x > y) if sg else z3.UGT(x, y))
        if name == "Ge":
            return BoolV((x >= y) if sg else z3.UGE(x, y))
        if name in ("AddWithOverflow", "SubWithOverflow", "MulWithOverflow"):
            ext = (lambda e: z3.SignExt(w, e)) if sg else (lambda e: z3.ZeroExt(w, e))
            X, Y = ext(x), ext(y)
            if name == "AddWithOverflow":
                wide, res = X + Y, x + y
            elif name == "SubWithOverflow":
                wide, res = X - Y, x - y
            else:
                wide, res = X * Y, x * y
            ov = wide != ext(res)
            return Agg("tuple", None, [Int(res, ty), BoolV(ov)])
        raise Unsupported("binop " + name)

    def cast(self, v, ty, kind):
        ty = ty.strip()
        if isinstance(v, Blob):
            return v
        if kind.startswith("PointerCoercion") or kind in ("PtrToPtr", "Transmute", "Subtype"):
            return v
        if kind == "IntToInt":
            if isinstance(v, BoolV):
                w = INT_TY[ty][0]
                return Int(z3.If(v.e, z3.BitVecVal(1, w), z3.BitVecVal(0, w)), ty)
            if isinstance(v, EnumV):
                w = INT_TY[ty][0]
                return Int(z3.Extract(w - 1, 0, v.discr) if w < 64 else v.discr, ty)
            w, _ = INT_TY[ty]
            if v.width == w:
                return Int(v.e, ty)
            if v.width > w:
                return Int(z3.Extract(w - 1, 0, v.e), ty)
            return Int(z3.SignExt(w - v.width, v.e) if v.signed else z3.ZeroExt(w - v.width, v.e), ty)
        if kind == "IntToFloat":
            if ty != "f64":
                raise Unsupported("cast to " + ty)
            if v.signed:
                return F64(z3.fpSignedToFP(z3.RNE(), v.e, z3.Float64()))
            return F64(z3.fpUnsignedToFP(z3.RNE(), v.e, z3.Float64()))
        if kind == "FloatToInt" and isinstance(v, F64) and ty in INT_TY:
            # Rust `as`: saturating, NaN -> 0
            w, sg = INT_TY[ty]
            rtz = z3.RTZ()
            if sg:
                lo, hi = -(1 << (w - 1)), (1 << (w - 1)) - 1
                conv = z3.fpToSBV(rtz, v.e, z3.BitVecSort(w))
            else:
                lo, hi = 0, (1 << w) - 1
                conv = z3.fpToUBV(rtz, v.e, z3.BitVecSort(w))
            flo, fhi = z3.FPVal(float(lo), z3.Float64()), z3.FPVal(float(hi), z3.Float64())
            e = z3.If(z3.fpIsNaN(v.e), z3.BitVecVal(0, w),
                      z3.If(z3.fpLEQ(v.e, flo), z3.BitVecVal(lo & ((1 << w) - 1), w), z3.If(z3.fpGEQ(v.e, fhi), z3.BitVecVal(hi, w), conv)))
            return Int(e, ty)
        if kind == "FloatToFloat":
            return v
        raise Unsupported("cast kind %s" % kind)

    def adt(self, path, args):
        # Path like  std::result::Result::<A, B>::Err  |  Option::<u8>::None | ErrorCode::InvalidNumber | Token::Bool
        p = strip_generics(path)
        parts = p.split("::")
        if len(parts) >= 2:
            for key in self.enum_candidates(parts[-2]):
                if parts[-1] in self.enums[key]:
                    idx = self.enums[key].index(parts[-1])
                    return EnumV(key, idx, {idx: list(args)})
        # tuple struct / unit struct
        return Agg("struct", parts[-1], list(args))

    def rvalue(self, st, frame, rv):
        k = rv[0]
        if k == "use":
            return self.operand(st, frame, rv[1])
        if k == "binop":
            return self.binop(rv[1], self.operand(st, frame, rv[2]), self.operand(st, frame, rv[3]))
        if k == "unop":
            v = self.operand(st, frame, rv[2])
            if rv[1] == "Not":
                if isinstance(v, BoolV):
                    return BoolV(z3.Not(v.e))
                return Int(~v.e, v.ty)
            if rv[1] == "Neg":
                if isinstance(v, F64):
                    return F64(z3.fpNeg(v.e))
                return Int(-v.e, v.ty)
            if rv[1] == "PtrMetadata":
                w = v
                while isinstance(w, Ref) and w.addr[0] == "V":
                    w = w.addr[1]
                if isinstance(w, Opaque) and w.ty in ("symslice", "inputslice"):
                    return Int(w.attrs["len"], "usize")
                if isinstance(w, Opaque) and w.ty == "fragment":
                    return Int(w.attrs["hi"] - w.attrs["lo"], "usize")
                if isinstance(w, Opaque) and w.ty == "strlit":
                    return Int(z3.BitVecVal(len(w.attrs["lit"]), 64), "usize")
                if isinstance(w, Opaque) and w.ty == "scratchslice":
                    return Int(z3.BitVec("scratchlen_%d" % next(self.fresh), 64), "usize")
                if isinstance(w, Blob) or (isinstance(w, Ref) and w.addr[0] == "B"):
                    # a slice inside an abstract heap value: any length (one fresh value per query site)
                    return Int(z3.BitVec("bloblen_%d" % next(self.fresh), 64), "usize")
                if isinstance(w, Ref) and w.addr[0] in ("H", "L"):
                    # an array unsized to a slice: the length is the number of elements of the aggregate
                    try:
                        tgt = self.load(st, w.addr)
                    except Unsupported:
                        tgt = None
                    if isinstance(tgt, Agg) and tgt.kind == "array":
                        return Int(z3.BitVecVal(len(tgt.fields), 64), "usize")
                if isinstance(w, Ref) and len(w.addr) == 2 and w.addr[0] == "S" and self.statics.get(w.addr[1], {}).get("bytes") is not None:
                    # a byte-string constant behind a `&[u8]` / `&str`: its length is the size of the allocation
                    op = rv[2]
                    lty = frame.fn.local_ty.get(op[1][1], "") if op and op[0] in ("move", "copy") and op[1][0] == "local" else ""
                    if "[u8]" in lty or "str" in lty:
                        return Int(z3.BitVecVal(self.statics[w.addr[1]]["size"], 64), "usize")
                if isinstance(w, Ref) and len(w.addr) == 2 and w.addr[0] == "S" and self.statics.get(w.addr[1], {}).get("count") is not None:
                    # a typed static table (`static NAME: [ty; n]`) unsized to a slice: `NAME.len()` is n
                    return Int(z3.BitVecVal(int(self.statics[w.addr[1]]["count"]), 64), "usize")
                raise Unsupported("PtrMetadata of %r in %s (%r)" % (w, frame.fn.name[-60:], rv))
            raise Unsupported("unop " + rv[1])
        if k == "cast":
            return self.cast(self.operand(st, frame, rv[1]), rv[2], rv[3])
        if k == "ref":
            return Ref(self.resolve(st, frame, rv[1]))
        if k == "discr":
            v = self.load(st, self.resolve(st, frame, rv[1]))
            if isinstance(v, Blob):
                d = z3.BitVec("blobdiscr_%d" % next(self.fresh), 64)
                return Int(d, "isize")
            if isinstance(v, EnumV):
                return Int(v.discr, "isize")
            if isinstance(v, Opaque) and "discr" in v.attrs:
                return Int(v.attrs["discr"], "isize")
            if isinstance(v, Opaque):
                # an abstract value whose variant the claim does not fix: any variant (stable per object)
                d = z3.BitVec("opaquediscr_%d" % next(self.fresh), 64)
                v.attrs["discr"] = d
                return Int(d, "isize")
            raise Unsupported("discriminant of %r" % (v,))
        if k == "tuple":
            return Agg("tuple", None, [self.operand(st, frame, x) for x in rv[1]])
        if k == "array":
            return Agg("array", None, [self.operand(st, frame, x) for x in rv[1]])
        if k == "repeat":
            v = self.operand(st, frame, rv[1])
            return Agg("array", None, [clone(v) for _ in range(min(rv[2], 64))])
        if k == "struct":
            return Agg("struct", strip_generics(rv[1]).split("::")[-1], [self.operand(st, frame, x) for _, x in rv[2]])
        if k == "adt":
            return self.adt(rv[1], [self.operand(st, frame, x) for x in rv[2]])
        if k == "closure":
            return Agg("closure", rv[1], [self.operand(st, frame, x) for _, x in (rv[2] if len(rv) > 2 else [])])
        if k == "len":
            v = self.load(st, self.resolve(st, frame, rv[1]))
            if isinstance(v, Agg):
                return Int(z3.BitVecVal(len(v.fields), 64), "usize")
            if isinstance(v, Opaque) and v.ty == "static":
                return Int(z3.BitVecVal(v.attrs["size"], 64), "usize")
            if isinstance(v, Opaque) and v.ty in ("symslice", "inputslice"):
                return Int(v.attrs["len"], "usize")
            raise Unsupported("Len of %r" % (v,))
        raise Unsupported("rvalue %r" % (rv,))

    # ---- calls
    def find_fn(self, callee):
        key = normalize_callee(callee)
        return self.fn_index().get(key)

    def fn_index(self):
        if not hasattr(self, "_fn_index"):
            idx = {}
            for name, f in self.fns.items():
                idx.setdefault(normalize_defname(name), f)
            self._fn_index = idx
        return self._fn_index

    # ---- main loop
    def explore(self, fname, init):
        """init(engine, state, frame) sets up arguments. Returns list of Terminal."""
        fn = self.fns[fname] if fname in self.fns else self.fn_index()[fname]
        st = State()
        fr = Frame(fn, fname)
        st.frames.append(fr)
        self.terminals = []
        self.solver.push()
        try:
            for c in (init(self, st, fr) or []):
                self.solver.add(c)
                st.pc.append(c)
            self._run(st)
        finally:
            self.solver.pop()
        return self.terminals

    def _terminal(self, kind, st, value=None, info=None):
        self.terminals.append(Terminal(kind, st, value, info))
        if len(self.terminals) > self.max_paths:
            raise Unsupported("path limit exceeded")

    def _run(self, st):
        while True:
            if time.time() > self.deadline:
                raise Unsupported("exploration timeout")
            fr = st.frames[-1]
            fn = fr.fn
            self.functions_touched.add(fn.name)
            blk = fn.blocks[fr.bb]
            # loop handling at headers
            headers, bodies = self.loop_headers(fn)
            if fr.bb in headers:
                cnt = fr.visits.get(fr.bb, 0)
                fr.visits[fr.bb] = cnt + 1
                mode = self.loop_mode(fn, fr.bb) if callable(self.loop_mode) else self.loop_mode
                if mode == "cut":
                    if cnt == 0:
                        st.notes.pop("pk", None)      # generic iteration: whether a peeked byte is pending is unknown
                        # snapshot of the state in which the loop is ENTERED (base case of the inductive argument): scalar
                        # locals, cursor, and how much of the path condition / event log existed at that moment
                        st.notes["arrivals"] = st.notes.get("arrivals", ()) + ((fr.bb, {
                            "locals": dict(fr.locals),
                            "idx": st.notes.get("idx"), "pc_len": len(st.pc), "nev": len(st.events), "fn": fn.name}),)
                        if self.on_header:
                            self.on_header(self, st, fr, fr.bb, "enter")
                        dbg = {}
                        for nm, pl in fn.debug_all:
                            mm = re.fullmatch(r"_(\d+)", pl)
                            if mm:
                                dbg.setdefault(int(mm.group(1)), nm)
                        for ln in sorted(self.written_locals(fn, bodies[fr.bb])):
                            ty = fn.local_ty.get(ln, "").strip()
                            if getattr(self, "stable_names", False) and ln in dbg and (ty in INT_TY or ty in ("bool", "f64")):
                                # deterministic name (same variable across the two runs of a lockstep comparison)
                                nm = "hv_%s_%d" % (dbg[ln], len(st.notes.get("in", ())))
                                if ty == "bool":
                                    nv = BoolV(z3.Bool(nm))
                                elif ty == "f64":
                                    nv = F64(z3.FP(nm, z3.Float64()))
                                else:
                                    nv = Int(z3.BitVec(nm, INT_TY[ty][0]), ty)
                            else:
                                nv = self.fresh_for_type(ty, "hv%d" % ln)
                                if nv is None:
                                    nv = self.havoc_aggregate(fr.locals.get(ln), "hv%d" % ln)
                            if nv is not None:
                                fr.locals[ln] = nv
                        if self.havoc_hook:
                            for c in (self.havoc_hook(self, st, fr, fr.bb) or []):
                                self.solver.add(c)
                                st.pc.append(c)
                    else:
                        self._terminal("LOOP_BACK", st, info={"header": fr.bb, "fn": fn.name})
                        return
                else:
                    if cnt > self.unroll:
                        self._terminal("UNROLL_LIMIT", st, info={"header": fr.bb, "fn": fn.name})
                        return
            st.steps += 1
            if st.steps > self.max_steps:
                self._terminal("STEP_LIMIT", st)
                return
            for s, raw in blk.stmts:
                self.exec_stmt(st, fr, s, raw)
            t, raw = blk.term
            k = t[0]
            if k == "goto":
                fr.bb = t[1]
            elif k == "return":
                rv = fr.locals.get(0, UnitV())
                if fr.post is not None:
                    rv = fr.post(rv)
                st.frames.pop()
                if not st.frames:
                    self._terminal("RETURN", st, rv)
                    return
                caller = st.frames[-1]
                if fr.ret_place is not None:
                    self.store(st, fr.ret_place, rv)
                caller.bb = fr.ret_bb
            elif k == "unreachable":
                self._terminal("UNREACHABLE", st, info={"fn": fn.name, "bb": fr.bb})
                return
            elif k == "resume":
                self._terminal("RESUME", st)
                return
            elif k == "drop":
                fr.bb = t[2]
            elif k == "assert":
                c = self.operand(st, fr, t[1])
                ok = z3.Not(c.e) if t[2] else c.e
                bad = z3.Not(ok)
                if self.feasible(bad):
                    s2 = st.clone()
                    self.solver.push()
                    self.solver.add(bad)
                    s2.pc.append(bad)
                    self._terminal("PANIC", s2, info={"msg": t[3], "fn": fn.name, "bb": fr.bb, "raw": raw})
                    self.solver.pop()
                    if not self.feasible(ok):
                        return
                    self.solver.add(ok)  # NB: caller pushes around _run for forks
                    st.pc.append(ok)
                fr.bb = t[4]
            elif k == "switch":
                v = self.operand(st, fr, t[1])
                if isinstance(v, BoolV):
                    e = z3.If(v.e, z3.BitVecVal(1, 64), z3.BitVecVal(0, 64))
                elif isinstance(v, Int):
                    e = v.e
                    if v.width < 64:
                        e = z3.ZeroExt(64 - v.width, e)
                    elif v.width > 64:
                        raise Unsupported("switch width")
                else:
                    raise Unsupported("switch on %r" % (v,))
                w = 64
                mask = (1 << (v.width if isinstance(v, Int) else 1)) - 1
                branches = []
                others = []
                for val, bb in t[2]:
                    c = e == z3.BitVecVal(val & mask, w)
                    branches.append((c, bb))
                    others.append(z3.Not(c))
                if t[3] is not None:
                    branches.append((z3.And(*others) if others else z3.BoolVal(True), t[3]))
                feas = []
                for c, bb in branches:
                    cs = z3.simplify(c)
                    if z3.is_false(cs):
                        continue
                    if z3.is_true(cs):
                        feas = [(None, bb)]
                        break
                    feas.append((cs, bb))
                if len(feas) > 1:
                    feas = [(c, bb) for c, bb in feas if self.check(c) != z3.unsat]
                elif len(feas) == 1 and feas[0][0] is not None:
                    # single syntactically-possible branch: still must be feasible
                    if self.check(feas[0][0]) == z3.unsat:
                        feas = []
                if not feas:
                    return  # infeasible path
                if len(feas) == 1:
                    c, bb = feas[0]
                    if c is not None:
                        self.solver.add(c)
                        st.pc.append(c)
                    fr.bb = bb
                else:
                    for c, bb in feas:
                        s2 = st.clone()
                        s2.frames[-1].bb = bb
                        s2.pc.append(c)
                        self.solver.push()
                        self.solver.add(c)
                        try:
                            self._run(s2)
                        finally:
                            self.solver.pop()
                    return
            elif k == "call":
                res = self.do_call(st, fr, t, raw)
                if res == "return":
                    return
            else:
                raise Unsupported("terminator %r in %s bb%d" % (raw, fn.name, fr.bb))

    def exec_stmt(self, st, fr, s, raw):
        k = s[0]
        if k == "nop":
            return
        if k == "assign":
            if s[2][0] == "unsupported":
                raise Unsupported("rvalue: " + raw)
            v = self.rvalue(st, fr, s[2])
            self.store(st, self.resolve(st, fr, s[1]), v)
            return
        if k == "setdiscr":
            addr = self.resolve(st, fr, s[1])
            v = self.load(st, addr)
            if isinstance(v, EnumV):
                self.store(st, addr, EnumV(v.name, s[2], v.variants))
                return
            raise Unsupported("setdiscr on %r" % (v,))
        if k == "assume":
            c = self.operand(st, fr, s[1])
            self.solver.add(c.e)
            st.pc.append(c.e)
            return
        raise Unsupported("stmt: " + raw)

    def do_call(self, st, fr, t, raw):
        _, dest, callee, args, ret_bb = t
        argv = [self.operand(st, fr, a) for a in args]
        dest_addr = self.resolve(st, fr, dest) if dest is not None else None
        # 1. stubs
        for rx, h in self.stubs:
            m = rx.search(callee)
            if m:
                if callee.startswith("Parser::<") or "::parse_" in callee:
                    st.notes.pop("pk", None)      # a stubbed sibling may read: what is pending afterwards is unknown
                out = h(self, st, fr, callee, argv, m)
                if out is NotImplemented:
                    continue
                return self.finish_call(st, fr, out, dest_addr, ret_bb)
        # 2. inline
        f = self.find_fn(callee)
        if f is not None and (self.inline is None or self.inline(f.name)):
            nf = Frame(f, f.name)
            for i, a in zip(f.args, argv):
                nf.locals[i] = a
            nf.ret_place = dest_addr
            nf.ret_bb = ret_bb
            if len(st.frames) > 40:
                raise Unsupported("call depth")
            st.frames.append(nf)
            return "continue"
        # 3. unmodelled library function without `&mut` arguments returning a scalar: over-approximate by an arbitrary
        #    result (sound for "must be unsat" obligations; recorded as an assumption of the run)
        hv = self.havoc_call(st, fr, dest, callee, args)
        if hv is not None:
            return self.finish_call(st, fr, hv, dest_addr, ret_bb)
        raise Unsupported("call to %s (no stub, not inlinable)" % callee)

    def havoc_call(self, st, fr, dest, callee, args):
        if dest is None or dest[0] != "local":
            return None
        if self.find_fn(callee) is not None:
            return None       # a function of the crate that a claim chose not to inline: needs its own stub
        ty = (fr.fn.local_ty.get(dest[1]) or "").strip()
        for a in args:
            if a[0] in ("copy", "move") and a[1][0] == "local":
                aty = (fr.fn.local_ty.get(a[1][1]) or "").strip()
                if aty.startswith("&mut") or aty.startswith("*mut") or "&mut " in aty:
                    return None
        if ty == "bool":
            v = self.sym_bool("unmodelled")
        elif ty in INT_TY or ty == "char":
            v = self.sym_int(ty, "unmodelled")
        elif ty == "f64":
            v = self.sym_f64("unmodelled")
        else:
            # an object built by library code outside the crates (iterators, adapters, deserializer helpers ...): an abstract value
            # with arbitrary content.  Not for calls that take closures (their effects would be lost) or raw pointers.
            for a in args:
                if a[0] in ("copy", "move") and a[1][0] == "local":
                    aty = (fr.fn.local_ty.get(a[1][1]) or "")
                    if "{closure" in aty or "*const" in aty or "fn(" in aty:
                        return None
                elif a[0] == "const" and ("{closure" in str(a[1]) or "ZeroSized" in str(a[1])):
                    return None
            if not ty or ty == "()" or ty == "!":
                return None
            v = Ref(("V", Blob("unmodelled:" + callee.split("::<")[0]))) if ty.startswith("&") else Blob("unmodelled:" + callee.split("::<")[0])
        st.events.append(("unmodelled_call", callee))
        self.unmodelled.add(callee)
        return v

    def finish_call(self, st, fr, out, dest_addr, ret_bb):
        """out: value | ('diverge', kind, info) | ('fork', [(cond, value, side_effect_fn)])"""
        if isinstance(out, tuple) and out and out[0] == "diverge":
            self._terminal(out[1], st, info=out[2])
            return "return"
        if isinstance(out, tuple) and out and out[0] == "fork":
            alts = [(c, v, eff) for c, v, eff in out[1] if self.feasible(c)]
            for c, v, eff in alts:
                s2 = st.clone()
                self.solver.push()
                self.solver.add(c)
                s2.pc.append(c)
                try:
                    if eff:
                        eff(s2)
                    if ret_bb is None:
                        self._terminal("DIVERGE", s2)
                    elif isinstance(v, tuple) and v and v[0] == "panic":
                        self._terminal("PANIC", s2, info={"msg": v[1], "fn": fr.fn.name, "bb": fr.bb})
                    elif isinstance(v, tuple) and v and v[0] == "frame":
                        _, f, fargs, post = v
                        nf = Frame(f, f.name)
                        for i, a in zip(f.args, fargs):
                            nf.locals[i] = a
                        nf.ret_place, nf.ret_bb, nf.post = dest_addr, ret_bb, post
                        s2.frames.append(nf)
                        self._run(s2)
                    else:
                        if dest_addr is not None:
                            self.store(s2, dest_addr, v)
                        s2.frames[-1].bb = ret_bb
                        self._run(s2)
                finally:
                    self.solver.pop()
            return "return"
        if ret_bb is None:
            self._terminal("DIVERGE", st, info={"call": "noreturn"})
            return "return"
        if dest_addr is not None:
            self.store(st, dest_addr, out)
        fr.bb = ret_bb
        return "continue"


# ----------------------------------------------------------------------------- helpers

def reaches(succ, a, b):
    seen = set()
    work = [a]
    while work:
        x = work.pop()
        if x == b:
            return True
        if x in seen:
            continue
        seen.add(x)
        work.extend(succ.get(x, []))
    return False


def root_local(place):
    while place[0] not in ("local",):
        if place[0] == "deref":
            return None
        place = place[1]
    return place[1]


def strip_generics(p):
    out = []
    depth = 0
    i = 0
    while i < len(p):
        c = p[i]
        if c == "<":
            depth += 1
        elif c == ">" and i > 0 and p[i - 1] == "-":
            if depth == 0:
                out.append(c)
        elif c == ">":
            depth -= 1
        elif depth == 0:
            out.append(c)
        i += 1
    s = "".join(out)
    s = re.sub(r"::+", "::", s)
    return s.strip(":")


def normalize_callee(c):
    """'Parser::<R>::peek_or_null' -> 'Parser::peek_or_null'; '<R as read::Read<'_>>::peek' kept textual."""
    s = strip_generics(c) if not c.startswith("<") else c
    return s.split("::")[-1] if "::" in s and not c.startswith("<") else s


def normalize_defname(name):
    # 'parse::<impl at lexpr/src/parse/mod.rs:360:1: 360:34>::parse_num_literal' -> 'parse_num_literal'
    name = re.sub(r"#\d+$", "", name)
    return name.split("::")[-1] if "{closure" not in name else name


def unescape(s):
    try:
        return bytes(s, "utf-8").decode("unicode_escape").encode("latin-1")
    except Exception:  # noqa
        return s.encode()
