"""C06 — read errors surface: on no path does a failing read (or a failing callee) get swallowed into a successful
result, an end-of-input, or a different error (E2, over every scanner / builder / dispatcher function)."""
import z3

from . import common as K
from . import ctx as C
from . import replay as RP
from . import stubs as S
from .c05 import run_scanner, bv
from .claims import Claim
from .symex import EnumV, Int, Opaque


def io_replay(res):
    """Native confirmation: a hard read error injected at every offset of a corpus of inputs must come back as an I/O error
    (never a value, never EOF / syntax)."""
    corpus = [b"(a b c)", b"#(1 2)", b"\"str\\x41;\"", b"  ; comment\n 42", b"#u8(1 2)", b"'(a . b)", b"#\\space x", b"12.5e3 ",
              b"-17 foo", b"(a ;c\n b)", b"#:kw", b"[a . b]", b"`(,a ,@b)", b"\xce\xbbx y", b"#\\\xce\xbb z", b"(\xf0\x9f\x98\x80)",
              b"\"\xce\xbb\\x3bb;\"", b"1e+5 ", b"2.5e-3", b"-1E+10", b"1e5", b"#x1F ", b"#b-101", b"#nil", b"#t x", b"#vu8(1)", b"(1 . 2)", b"#\\x41 ",
              b"184467440737095516150.5e1", (b"?\xce\xbb ?\\\xce\xbb", "elisp"), (b"\"\\101\xce\xbb\\u00e9\"", "elisp"), (b"[?a :k \"s\\^a\"]", "elisp")]

    def f(m):
        for item in corpus:
            text, opts = item if isinstance(item, tuple) else (item, "default")
            full = RP.single(text, opts, "reader")
            for p in range(len(text) + 1):
                nat = RP.single(text, opts, "reader", fail_at=p)
                res.replays += 1
                # an error at offset p matters only if the parser reads that far: compare with the result on the prefix
                if "err" in nat and nat["err"]["cat"] == "io":
                    continue
                # not an io error: acceptable only if the full parse never reads byte p (result equals the fault-free result)
                if nat == full and p >= len(text):
                    continue
                if nat == full:
                    # the parser finished before touching offset p? only possible for trailing positions it never reads
                    pre = RP.single(text[:p], opts, "reader")
                    if pre == full:
                        continue
                return {"replayed": True, "observed": {"fail_at": p, "got": nat},
                        "witness": {"kind": "parse", "input_hex": text.hex(), "opts": opts, "src": "reader", "api": "single",
                                    "fast": True, "fail_at": p}}
        return {"replayed": False}
    return f


def io_surfaces(res, eng, rd, terms, what):
    """Every read that fails must end the function with that I/O error."""
    n = 0
    onm = io_replay(res)
    for t in terms:
        if t.kind in ("PANIC", "UNREACHABLE"):
            continue
        pc = list(t.state.pc)
        reads = [e for e in t.state.events if e[0] in ("peek", "next")]
        if not reads:
            continue
        is_io_err = False
        if t.kind == "RETURN":
            kind, payload = K.classify_return(eng, t)
            is_io_err = kind == "err" and isinstance(payload, Opaque) and payload.attrs.get("kind") == "io"
        if is_io_err:
            continue
        n += 1
        res.must_be_unsat(pc + [z3.Or(*[r[1] == rd.err_at for r in reads])],
                          "%s: a failed read is swallowed (the function goes on / returns a value, EOF or another error)" % what, onm)
    return n


def claim_io_scanners(cx, res, kf):
    from .kernels import run_kernel, KERNELS
    total = 0
    specs = [
        ("parse_whitespace", lambda e: ([], [], {}), []),
        ("parse_num_literal", lambda e: ([Int(z3.BitVecVal(10, 8), "u8"), e.sym_bool("pos")], [], {}), ["parse_num_tail", "parse_long_integer"]),
        ("parse_num_literal", lambda e: ([Int(z3.BitVecVal(16, 8), "u8"), e.sym_bool("pos")], [], {}), ["parse_num_tail", "parse_long_integer"]),
        ("parse_num_tail", lambda e: ([Int(z3.BitVecVal(10, 8), "u8"), e.sym_bool("pos"), e.sym_int("u64", "sig")], [], {}), ["parse_decimal", "parse_exponent"]),
        ("parse_long_integer", lambda e: ([Int(z3.BitVecVal(10, 8), "u8"), e.sym_bool("pos"), e.sym_int("u64", "sig"), e.sym_int("i32", "exp")],
                                           [], {}), ["parse_decimal", "parse_exponent", "f64_from_parts"]),
        ("parse_decimal", lambda e: ([e.sym_bool("pos"), e.sym_int("u64", "sig"), Int(z3.BitVecVal(0, 32), "i32")], [], {}), ["parse_exponent", "f64_from_parts"]),
        ("parse_exponent", lambda e: ([e.sym_bool("pos"), e.sym_int("u64", "sig"), Int(z3.BitVecVal(0, 32), "i32")], [], {}), ["f64_from_parts", "parse_exponent_overflow"]),
        ("parse_exponent_overflow", lambda e: ([e.sym_bool("pos"), e.sym_int("u64", "sig"), e.sym_bool("pe")], [], {}), []),
        ("parse_radix_literal", lambda e: ([Int(z3.BitVecVal(10, 8), "u8")], [], {}), ["parse_num_literal"]),
        ("parse_number", lambda e: ([], [], {}), ["parse_radix_literal"]),
        ("end_seq", lambda e: ([e.sym_int("u8", "close")], [], {}), []),
        ("expect_end", lambda e: ([], [], {}), []),
    ]
    for fname, mk, exits in specs:
        fp = True if fname in ("parse_long_integer",) else False
        eng, rd, fn, info, terms = run_scanner(cx, res, fname, mk, exits, [], fp_abstract=fp)
        total += io_surfaces(res, eng, rd, terms, fname)
    for fname, extra_tys, _ in KERNELS:
        def extra(e, extra_tys=extra_tys):
            return [e.sym_int(ty, "arg") for ty in extra_tys]
        eng, rd, fn, info, terms = run_kernel(cx, res, fname, extra_args=extra)
        total += io_surfaces(res, eng, rd, terms, fname)
    res.vacuity.append(("paths with reads examined", total >= 100))


def claim_callee_errors(cx, res, kf):
    """Builders and next_value/next_datum: an error returned by trivia skipping, by the nested parser or by a sub-scanner
    is returned unchanged (never turned into a value or another error)."""
    from .builders import explore_builder, outcome
    n = 0
    onm = io_replay(res)
    for fname in ("parse_list", "parse_list_meta", "parse_vector", "parse_vector_meta"):
        eng, fn, info, terms = explore_builder(cx, res, fname)
        for t in terms:
            if t.kind in ("PANIC", "UNREACHABLE"):
                continue
            pc = list(t.state.pc)
            out = outcome(eng, t)
            for ev in t.state.events:
                if ev[0] in ("ws", "expect", "symsuffix", "peek_or_null") or ev[0].startswith("raw:"):
                    err = ev[2]
                    want = {"ws": "io", "peek_or_null": "io", "expect": "from:expect", "symsuffix": "from:symbol"}.get(ev[0], "io")
                    n += 1
                    ok = out[0] == "err" and out[1] == want
                    if not ok:
                        res.must_be_unsat(pc + [err], "%s: an error from %s is not passed on (path ends as %r)" % (fname, ev[0], out), onm)
    res.vacuity.append(("callee results examined", n >= 40))


CLAIMS = [
    Claim("c06_io_surfaces_scanners", "C06", "quick", claim_io_scanners,
          "in parse_whitespace, the number scanner, end_seq / expect_end and the 11 reader kernels, a read that fails ends "
          "the function with that I/O error on every path: never a value, never end-of-input, never a syntax error",
          "23 functions, loops cut; reader failing at an arbitrary position", configs=("fast",), also=("C19",)),
    Claim("c06_callee_errors", "C06", "quick", claim_callee_errors,
          "the list / vector builders return every error of trivia skipping, lookahead, the nested parser and the symbol "
          "scanner unchanged",
          "4 builders, one arbitrary loop step", configs=("fast",), also=("C19",)),
]
