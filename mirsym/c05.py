"""C05 — numeric literals denote their exact mathematical value (E2 claims over the number scanner MIR)."""
import z3

from . import common as K
from . import ctx as C
from . import numref
from . import replay as RP
from . import stubs as S
from .claims import Claim
from .symex import Agg, BoolV, EnumV, F64, Int, Opaque

MAX64 = (1 << 64) - 1


def bv(v, w=64):
    return z3.BitVecVal(v, w)


def digit_val(b):
    """hex digit value of byte b (8-bit), 255 when not a hex digit"""
    return z3.If(z3.And(z3.UGE(b, bv(48, 8)), z3.ULE(b, bv(57, 8))), b - bv(48, 8),
                 z3.If(z3.And(z3.UGE(b, bv(97, 8)), z3.ULE(b, bv(102, 8))), b - bv(87, 8),
                       z3.If(z3.And(z3.UGE(b, bv(65, 8)), z3.ULE(b, bv(70, 8))), b - bv(55, 8), bv(255, 8))))


def is_dec_digit(b):
    return z3.And(z3.UGE(b, bv(48, 8)), z3.ULE(b, bv(57, 8)))


def digits_in_radix(n, r):
    if n == 0:
        return "0"
    s = ""
    while n:
        s = "0123456789abcdef"[n % r] + s
        n //= r
    return s


PREFIX = {2: "#b", 8: "#o", 10: "", 16: "#x"}


def lit_tail(atend, nb, radix):
    """continuation of a literal after its scanned digits: the next byte only if it can belong to the literal"""
    if atend:
        return b""
    if nb in b"0123456789abcdefABCDEF" and not (radix == 10 and nb in b"eE"):
        return bytes([nb])
    if nb in b"eE" and radix == 10:
        return bytes([nb]) + b"1"
    if nb == ord("."):
        return b".5"
    return b""


def native_check_literal(res, text, fast):
    """Runs `text` through the real parser (default options, slice source) and compares with the reference."""
    nat = RP.single(text, "default", "slice", fast=fast)
    res.replays += 1
    ok, why = numref.compare(text, nat, fast)
    return ok, why, nat


def literal_on_model(res, fast, build):
    def f(m):
        text = build(m)
        if text is None:
            return {"replayed": None}
        ok, why, nat = native_check_literal(res, text, fast)
        return {"replayed": (not ok), "witness": {"kind": "parse", "input": text.decode("latin-1"),
                                                  "input_hex": text.hex(), "opts": "default", "src": "slice",
                                                  "api": "single", "fast": fast},
                "observed": nat, "why": why}
    return f


# ----------------------------------------------------------------------------- parse_num_literal: digit loop

def claim_num_literal(cx, res, kf):
    fast = cx.fast_float
    res.assumptions += [
        "Read contract: peek/next return the byte at the cursor, end of input, or an I/O error at one symbolic "
        "position; discard advances by one (stubs.py)",
        "parse_num_tail / parse_long_integer are treated as exits here (own claims)",
        "loop cut at the digit loop header: accumulator and cursor havocked (one-step induction, any digit count)",
    ]
    for radix in (2, 8, 10, 16):
        eng = C.make_engine(cx, [], loop_mode="cut", timeout_s=180)
        rd = S.Reader(eng, with_io_errors=True)
        eng.stubs = S.reader_stubs(rd) + K.exit_stub(cx, eng, ["parse_num_tail", "parse_long_integer"]) + S.CORE_STUBS
        fn = C.resolve_callee(cx, "Parser::<R>::parse_num_literal")
        res_local = fn.local_by_debug("res")
        info = {}

        def init(e, st, fr):
            ref, cons, ov = K.parser_state(cx, e, st)
            fr.locals[1] = ref
            rv = e.sym_int("u8", "radix")
            pos = e.sym_bool("pos")
            fr.locals[2], fr.locals[3] = rv, pos
            info["pos"] = pos.e
            info["idx0"] = z3.BitVec("idx0", 64)
            st.notes["idx"] = info["idx0"]
            return cons + rd.base + [rv.e == radix, z3.ULT(info["idx0"], bv(1 << 40))]

        def on_header(e, st, fr, bb, what):
            st.notes["res_entry"] = fr.locals.get(res_local)
            st.notes["pc_at_header"] = len(st.pc)
            st.notes["idx_entry"] = st.notes["idx"]
            st.notes["idx"] = z3.BitVec("idxh", 64)

        def havoc(e, st, fr, bb):
            st.notes["res_in"] = fr.locals[res_local].e
            return [z3.ULT(st.notes["idx"], bv(1 << 40))]

        eng.on_header = on_header
        eng.havoc_hook = havoc
        terms = eng.explore(fn.name, init)
        res.absorb(eng)
        idxh = z3.BitVec("idxh", 64)
        b = rd.at(idxh)
        eof = z3.UGE(idxh, rd.len)
        ioerr = idxh == rd.err_at
        dv = digit_val(b)
        isdig = z3.ULT(dv, bv(radix, 8))
        seen = {"back": 0, "long": 0, "tail": 0, "invalid": 0, "io": 0, "first_invalid": 0}
        for t in terms:
            st = t.state
            pc = list(st.pc)
            after = "res_in" in st.notes
            if t.kind == "PANIC":
                res.must_be_unsat(pc, "radix %d: reachable panic `%s`" % (radix, t.info["msg"]))
                continue
            if not after:
                # ---- first digit handling (before the loop)
                b0 = rd.at(info["idx0"])
                eof0 = z3.UGE(info["idx0"], rd.len)
                io0 = info["idx0"] == rd.err_at
                d0 = digit_val(b0)
                kind, payload = K.classify_return(eng, t) if t.kind == "RETURN" else (t.kind, None)
                if kind == "err":
                    code = K.code_name(eng, K.err_code_index(eng, payload))
                    if code == "InvalidNumber":
                        seen["first_invalid"] += 1
                        # only when the first byte is not a digit of the radix (or EOF)
                        res.must_be_unsat(pc + [z3.Not(io0), z3.Not(eof0), z3.ULT(d0, bv(radix, 8))],
                                          "radix %d: a valid first digit is rejected" % radix)
                    elif isinstance(payload, Opaque) and payload.attrs.get("kind") == "io":
                        res.must_be_unsat(pc + [z3.Not(io0)], "radix %d: io error without a failing read" % radix)
                    else:
                        res.violations.append({"what": "unexpected error %r before the loop" % code, "replayed": None})
                else:
                    res.violations.append({"what": "unexpected terminal %r before the digit loop" % (t,), "replayed": None})
                continue
            # ---- entry value of the accumulator (checked on every path that passed the header)
            re_ = st.notes["res_entry"]
            b0 = rd.at(info["idx0"])
            pre = pc[:st.notes["pc_at_header"]]
            res.must_be_unsat(pre + [z3.Not(z3.And(z3.ULT(digit_val(b0), bv(radix, 8)),
                                                   re_.e == z3.ZeroExt(56, digit_val(b0)),
                                                   st.notes["idx_entry"] == info["idx0"] + 1))],
                              "radix %d: accumulator after the first digit is not its value / cursor not advanced by 1" % radix)
            rin = st.notes["res_in"]
            wide = z3.ZeroExt(64, rin) * bv(radix, 128) + z3.ZeroExt(120, dv)
            fits = z3.ULE(wide, bv(MAX64, 128))

            def build(m, rin=rin):
                r0 = K.mval(m, rin)
                atend = K.mval(m, eof)
                nb = K.mval(m, b)
                sign = "" if K.mval(m, info["pos"]) else "-"
                txt = PREFIX[radix] + sign + digits_in_radix(r0, radix)
                return txt.encode() + lit_tail(atend, nb, radix)

            onm = literal_on_model(res, fast, build)
            if t.kind == "LOOP_BACK":
                seen["back"] += 1
                rout = st.frames[-1].locals[res_local].e
                good = z3.And(z3.Not(ioerr), z3.Not(eof), isdig, fits,
                              z3.ZeroExt(64, rout) == wide, st.notes["idx"] == idxh + 1)
                res.must_be_unsat(pc + [z3.Not(good)], "radix %d: digit step is not res*r+d exactly / wrong byte class" % radix, onm)
                continue
            kind, payload = K.classify_return(eng, t)
            lc = K.last_call(st)
            if lc and lc[1] == "parse_long_integer":
                seen["long"] += 1
                a = lc[2]
                good = z3.And(z3.Not(ioerr), z3.Not(eof), isdig, z3.Not(fits), a[0].e == radix,
                              a[1].e == info["pos"], a[2].e == rin, a[3].e == 1, lc[3] == idxh + 1)
                res.must_be_unsat(pc + [z3.Not(good)],
                                  "radix %d: overflow exit taken although res*r+d fits (or wrong arguments)" % radix, onm)
                if kind == "ok":
                    # Ok(Number::from(f)) with f the callee's result
                    n = payload
                    okk = isinstance(n, Agg) and isinstance(n.fields[0], EnumV) and \
                        K.concrete(n.fields[0].discr) == eng.enums["N"].index("Float")
                    if not okk:
                        res.violations.append({"what": "over-long integer not returned as a float: %r" % (n,), "replayed": None})
                continue
            if lc and lc[1] == "parse_num_tail":
                seen["tail"] += 1
                a = lc[2]
                good = z3.And(z3.Not(ioerr), z3.Or(eof, z3.Not(isdig)), a[0].e == radix, a[1].e == info["pos"],
                              a[2].e == rin, lc[3] == idxh)
                res.must_be_unsat(pc + [z3.Not(good)], "radix %d: tail reached with a pending digit / wrong arguments" % radix, onm)
                continue
            if kind == "err":
                code = K.code_name(eng, K.err_code_index(eng, payload))
                if code == "InvalidNumber":
                    seen["invalid"] += 1
                    # allowed only for a hex-alphanumeric byte that is not a digit of this radix, and never for the
                    # exponent marker of a decimal literal
                    allowed = z3.And(z3.Not(eof), z3.Not(ioerr), dv != bv(255, 8), z3.Not(isdig))
                    if radix == 10:
                        allowed = z3.And(allowed, b != bv(ord("e"), 8), b != bv(ord("E"), 8))
                    res.must_be_unsat(pc + [z3.Not(allowed)],
                                      "radix %d: digits followed by this byte are rejected as InvalidNumber" % radix, onm)
                    continue
                if isinstance(payload, Opaque) and payload.attrs.get("kind") == "io":
                    seen["io"] += 1
                    res.must_be_unsat(pc + [z3.Not(ioerr)], "radix %d: io error without failing read" % radix)
                    continue
            res.violations.append({"what": "radix %d: unclassified path %r / %r" % (radix, t, st.events[-2:]), "replayed": None})
        for k in ("back", "long", "tail", "io"):
            res.vacuity.append(("radix %d reaches %s" % (radix, k), seen[k] > 0))


# ----------------------------------------------------------------------------- parse_num_tail

def claim_num_tail(cx, res, kf):
    fast = cx.fast_float
    res.assumptions.append("parse_decimal / parse_exponent are exits here (own claims)")
    eng = C.make_engine(cx, [], loop_mode="unroll", unroll=1, timeout_s=120)
    rd = S.Reader(eng, with_io_errors=True)
    eng.stubs = S.reader_stubs(rd) + K.exit_stub(cx, eng, ["parse_decimal", "parse_exponent"]) + S.CORE_STUBS
    fn = C.resolve_callee(cx, "Parser::<R>::parse_num_tail")
    info = {}

    def init(e, st, fr):
        ref, cons, ov = K.parser_state(cx, e, st)
        fr.locals[1] = ref
        rv, pos, sig = e.sym_int("u8", "radix"), e.sym_bool("pos"), e.sym_int("u64", "sig")
        fr.locals[2], fr.locals[3], fr.locals[4] = rv, pos, sig
        info.update(radix=rv.e, pos=pos.e, sig=sig.e, idx0=z3.BitVec("idx0", 64))
        st.notes["idx"] = info["idx0"]
        return cons + rd.base + [z3.Or(rv.e == 2, rv.e == 8, rv.e == 10, rv.e == 16), z3.ULT(info["idx0"], bv(1 << 40))]

    terms = eng.explore(fn.name, init)
    res.absorb(eng)
    i0 = info["idx0"]
    b = rd.at(i0)
    eof = z3.UGE(i0, rd.len)
    ioerr = i0 == rd.err_at
    dot = z3.And(z3.Not(eof), b == bv(ord("."), 8))
    ee = z3.And(z3.Not(eof), z3.Or(b == bv(ord("e"), 8), b == bv(ord("E"), 8)))
    sig, pos, radix = info["sig"], info["pos"], info["radix"]
    N = eng.enums["N"]
    seen = {"pos": 0, "neg": 0, "float": 0, "dec": 0, "exp": 0}

    def build(m):
        r = K.mval(m, radix)
        s = K.mval(m, sig)
        sign = "" if K.mval(m, pos) else "-"
        atend = K.mval(m, eof)
        nb = K.mval(m, b)
        tail = b"" if atend else bytes([nb]) + (b"5" if nb in b".eE" else b"")
        if not atend and nb not in b".eE":
            tail = b""
        return (PREFIX[r] + sign + digits_in_radix(s, r)).encode() + tail
    onm = literal_on_model(res, fast, build)
    for t in terms:
        pc = list(t.state.pc)
        if t.kind == "PANIC":
            res.must_be_unsat(pc, "reachable panic `%s`" % t.info["msg"])
            continue
        kind, payload = K.classify_return(eng, t)
        lc = K.last_call(t.state)
        if lc:
            a = lc[2]
            want = dot if lc[1] == "parse_decimal" else ee
            seen["dec" if lc[1] == "parse_decimal" else "exp"] += 1
            good = z3.And(z3.Not(ioerr), want, radix == 10, a[0].e == pos, a[1].e == sig, a[2].e == 0, lc[3] == i0)
            res.must_be_unsat(pc + [z3.Not(good)], "fraction/exponent branch taken wrongly or with wrong arguments", onm)
            continue
        if kind == "err":
            code = K.code_name(eng, K.err_code_index(eng, payload))
            if code == "InvalidNumber":
                res.must_be_unsat(pc + [z3.Not(z3.And(z3.Or(dot, ee), radix != 10))],
                                  "InvalidNumber for an integer literal that has no fraction/exponent in a non-decimal radix", onm)
                continue
            if isinstance(payload, Opaque) and payload.attrs.get("kind") == "io":
                res.must_be_unsat(pc + [z3.Not(ioerr)], "io error without failing read")
                continue
        if kind == "ok" and isinstance(payload, Agg) and isinstance(payload.fields[0], EnumV):
            n = payload.fields[0]
            d = K.concrete(n.discr)
            base = [z3.Not(ioerr), z3.Not(dot), z3.Not(ee)]
            if d == N.index("PosInt"):
                seen["pos"] += 1
                v = n.variants[d][0].e
                good = z3.And(*base, z3.Or(z3.And(pos, v == sig), z3.And(z3.Not(pos), sig == 0, v == 0)))
                res.must_be_unsat(pc + [z3.Not(good)], "non-negative integer result is not the literal's value", onm)
                continue
            if d == N.index("NegInt"):
                seen["neg"] += 1
                v = n.variants[d][0].e
                good = z3.And(*base, z3.Not(pos), z3.UGT(sig, 0), z3.ULE(sig, bv(1 << 63)), v == -sig)
                res.must_be_unsat(pc + [z3.Not(good)], "negative integer result is not the literal's value", onm)
                continue
            if d == N.index("Float"):
                seen["float"] += 1
                v = n.variants[d][0].e
                exact = z3.fpNeg(z3.fpUnsignedToFP(z3.RNE(), sig, z3.Float64()))
                good = z3.And(*base, z3.Not(pos), z3.UGT(sig, bv(1 << 63)), v == exact)
                res.must_be_unsat(pc + [z3.Not(good)], "integer below -2^63 must become the nearest double of its value", onm)
                continue
        res.violations.append({"what": "unclassified path %r" % (t,), "replayed": None})
    for k, n in seen.items():
        res.vacuity.append(("reaches " + k, n > 0))


# ----------------------------------------------------------------------------- parse_long_integer

def claim_long_integer(cx, res, kf):
    fast = cx.fast_float
    res.assumptions += ["parse_decimal / parse_exponent / f64_from_parts are exits here",
                        "fewer than 2^31-2 digits (the exponent counter is an i32; longer inputs are outside the claim)"]
    for radix in (2, 8, 10, 16):
        eng = C.make_engine(cx, [], loop_mode="cut", timeout_s=120)
        eng.fp_abstract = True   # float mul / is_infinite as uninterpreted functions: only the shape is claimed here
        rd = S.Reader(eng, with_io_errors=True)
        eng.stubs = S.reader_stubs(rd) + K.exit_stub(cx, eng, ["parse_decimal", "parse_exponent", "f64_from_parts"]) + S.CORE_STUBS
        fn = C.resolve_callee(cx, "Parser::<R>::parse_long_integer")
        exp_local = fn.local_by_debug("exponent")
        info = {}

        def init(e, st, fr):
            ref, cons, ov = K.parser_state(cx, e, st)
            fr.locals[1] = ref
            rv, pos, sig, ex = e.sym_int("u8", "radix"), e.sym_bool("pos"), e.sym_int("u64", "sig"), e.sym_int("i32", "exp0")
            fr.locals[2], fr.locals[3], fr.locals[4], fr.locals[5] = rv, pos, sig, ex
            info.update(pos=pos.e, sig=sig.e)
            st.notes["idx"] = z3.BitVec("idx0", 64)
            return cons + rd.base + [rv.e == radix, ex.e >= 1]

        def on_header(e, st, fr, bb, what):
            st.notes["idx"] = z3.BitVec("idxh", 64)

        def havoc(e, st, fr, bb):
            st.notes["exp_in"] = fr.locals[exp_local].e
            return [fr.locals[exp_local].e >= 1, fr.locals[exp_local].e < bv((1 << 31) - 2, 32),
                    z3.ULT(st.notes["idx"], bv(1 << 40))]
        eng.on_header, eng.havoc_hook = on_header, havoc
        terms = eng.explore(fn.name, init)
        res.absorb(eng)
        idxh = z3.BitVec("idxh", 64)
        b = rd.at(idxh)
        eof = z3.UGE(idxh, rd.len)
        ioerr = idxh == rd.err_at
        dv = digit_val(b)
        isdig = z3.ULT(dv, bv(radix, 8))
        seen = {"back": 0, "exit": 0}

        def build(m):
            # an over-long literal: significand digits (19-20 digits worth), then exp_in further digits, then b
            s = K.mval(m, info["sig"])
            k = K.mval(m, z3.BitVec("__k", 32)) if False else None
            return None
        for t in terms:
            st = t.state
            pc = list(st.pc)
            if t.kind == "PANIC":
                res.must_be_unsat(pc, "radix %d: reachable panic `%s`" % (radix, t.info["msg"]))
                continue
            ein = st.notes.get("exp_in")
            if ein is None:
                res.violations.append({"what": "path ends before the loop: %r" % (t,), "replayed": None})
                continue

            def build(m, ein=ein):
                s = K.mval(m, info["sig"])
                k = K.mval(m, ein)
                if k > 40:
                    k = 3
                atend = K.mval(m, eof)
                nb = K.mval(m, b)
                sign = "" if K.mval(m, info["pos"]) else "-"
                # smallest over-long literal with this structure: max-value digits + k zeros + b
                body = digits_in_radix(MAX64, radix) + "0" * k
                return (PREFIX[radix] + sign + body).encode() + lit_tail(atend, nb, radix)
            onm = literal_on_model(res, fast, build)
            if t.kind == "LOOP_BACK":
                seen["back"] += 1
                eout = st.frames[-1].locals[exp_local].e
                good = z3.And(z3.Not(ioerr), z3.Not(eof), isdig, eout == ein + 1, st.notes["idx"] == idxh + 1)
                res.must_be_unsat(pc + [z3.Not(good)], "radix %d: over-long digit step does not count exactly one digit" % radix, onm)
                continue
            kind, payload = K.classify_return(eng, t)
            lc = K.last_call(st)
            exit_ok = z3.And(z3.Not(ioerr), z3.Or(eof, z3.Not(isdig)))
            if lc and lc[1] == "f64_from_parts":
                a = lc[2]
                seen["exit"] += 1
                good = z3.And(exit_ok, a[0].e == info["pos"], a[1].e == info["sig"], a[2].e == ein, lc[3] == idxh)
                res.must_be_unsat(pc + [z3.Not(good)], "radix %d: wrong significand/exponent handed to the float conversion" % radix, onm)
                if radix != 10:
                    # f64_from_parts computes sig * 10^exp: wrong for any other radix
                    res.must_be_unsat(pc + [exit_ok], "radix %d: over-long integer is scaled by 10^k instead of %d^k" % (radix, radix), onm)
                continue
            if not lc and radix != 10 and kind in ("ok", "err") and not (kind == "err" and K.err_code_index(eng, payload) != eng.enums["ErrorCode"].index("NumberOutOfRange")):
                # direct conversion: sig as f64 * (radix as f64)^k, rejected when infinite
                seen["exit"] += 1
                from .symex import FP_UF, FP_ISINF
                prod = FP_UF["Mul"](z3.fpUnsignedToFP(z3.RNE(), info["sig"], z3.Float64()),
                                    S.POWI(z3.fpUnsignedToFP(z3.RNE(), bv(radix, 8), z3.Float64()), ein))
                if kind == "ok":
                    v = payload.e
                    good = z3.And(exit_ok, z3.Not(FP_ISINF(prod)), st.notes["idx"] == idxh,
                                  z3.If(info["pos"], v == prod, v == z3.fpNeg(prod)))
                else:
                    good = z3.And(exit_ok, FP_ISINF(prod))
                res.must_be_unsat(pc + [z3.Not(good)], "radix %d: over-long integer is not sig * %d^k (or infinite result not rejected)" % (radix, radix), onm)
                continue
            if lc:
                a = lc[2]
                if lc[1] in ("parse_decimal", "parse_exponent"):
                    want = b == bv(ord("."), 8) if lc[1] == "parse_decimal" else z3.Or(b == bv(ord("e"), 8), b == bv(ord("E"), 8))
                    good = z3.And(z3.Not(ioerr), z3.Not(eof), want, radix == 10, a[0].e == info["pos"],
                                  a[1].e == info["sig"], a[2].e == ein, lc[3] == idxh)
                    res.must_be_unsat(pc + [z3.Not(good)], "radix %d: fraction/exponent branch of an over-long integer" % radix, onm)
                    continue
            if kind == "err":
                code = K.code_name(eng, K.err_code_index(eng, payload))
                if code == "InvalidNumber":
                    allowed = z3.And(z3.Not(eof), z3.Not(ioerr),
                                     z3.Or(z3.And(dv != bv(255, 8), z3.Not(isdig)),
                                           z3.And(radix != 10, z3.Or(b == bv(ord("."), 8)))))
                    if radix == 10:
                        allowed = z3.And(allowed, b != bv(ord("e"), 8), b != bv(ord("E"), 8))
                    res.must_be_unsat(pc + [z3.Not(allowed)], "radix %d: over-long digits followed by this byte rejected" % radix, onm)
                    continue
                if isinstance(payload, Opaque) and payload.attrs.get("kind") == "io":
                    res.must_be_unsat(pc + [z3.Not(ioerr)], "io error without failing read")
                    continue
            res.violations.append({"what": "radix %d: unclassified path %r" % (radix, t), "replayed": None})
        for k, n in seen.items():
            res.vacuity.append(("radix %d reaches %s" % (radix, k), n > 0))


CLAIMS = [
    Claim("c05_num_literal_step", "C05", "quick", claim_num_literal,
          "parse_num_literal: first digit and one arbitrary step of the digit loop, per radix 2/8/10/16: digit "
          "classification, res' = res*r+d exactly, overflow exit iff res*r+d > u64::MAX, tail exit on every non-digit "
          "(the decimal exponent marker included), no reachable overflow/division panic",
          "any number of digits (one-step induction from an arbitrary u64 accumulator); 4 radixes; reader with EOF and "
          "I/O error at an arbitrary position", configs=("fast",)),
    Claim("c05_num_tail", "C05", "quick", claim_num_tail,
          "parse_num_tail maps (sign, magnitude) to exactly the integer in [-2^63, 2^64-1] (-0, -2^63, 2^63 included), "
          "to the nearest double below that range, and enters the fraction/exponent scanners only for radix 10",
          "all u64 magnitudes, both signs, 4 radixes, every next byte / EOF / I/O error", configs=("fast",)),
    Claim("c05_long_integer_step", "C05", "quick", claim_long_integer,
          "parse_long_integer counts exactly the remaining digits of an over-long integer and hands "
          "significand x radix^k (in the stated radix) to the float conversion",
          "any number of further digits < 2^31-2 (one-step induction); 4 radixes", configs=("fast",)),
]
