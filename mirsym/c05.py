"""C05 — numeric literals denote their exact mathematical value (E2 claims over the number scanner MIR)."""
import z3

from . import common as K
from . import ctx as C
from . import numref
from . import replay as RP
from . import stubs as S
from .claims import Claim
from .symex import Agg, BoolV, EnumV, F64, Int, Opaque

MAX64 = (1 << 64) - 1


def bv(v, w=64):
    return z3.BitVecVal(v, w)


def digit_val(b):
    """hex digit value of byte b (8-bit), 255 when not a hex digit"""
    return z3.If(z3.And(z3.UGE(b, bv(48, 8)), z3.ULE(b, bv(57, 8))), b - bv(48, 8),
                 z3.If(z3.And(z3.UGE(b, bv(97, 8)), z3.ULE(b, bv(102, 8))), b - bv(87, 8),
                       z3.If(z3.And(z3.UGE(b, bv(65, 8)), z3.ULE(b, bv(70, 8))), b - bv(55, 8), bv(255, 8))))


def is_dec_digit(b):
    return z3.And(z3.UGE(b, bv(48, 8)), z3.ULE(b, bv(57, 8)))


def digits_in_radix(n, r):
    if n == 0:
        return "0"
    s = ""
    while n:
        s = "0123456789abcdef"[n % r] + s
        n //= r
    return s


PREFIX = {2: "#b", 8: "#o", 10: "", 16: "#x"}


def lit_tail(atend, nb, radix):
    """continuation of a literal after its scanned digits: the next byte only if it can belong to the literal"""
    if atend:
        return b""
    if nb in b"0123456789abcdefABCDEF" and not (radix == 10 and nb in b"eE"):
        return bytes([nb])
    if nb in b"eE" and radix == 10:
        return bytes([nb]) + b"1"
    if nb == ord("."):
        return b".5"
    return b""


def native_check_literal(res, text, fast):
    """Runs `text` through the real parser (default options, slice source) and compares with the reference."""
    nat = RP.single(text, "default", "slice", fast=fast)
    res.replays += 1
    ok, why = numref.compare(text, nat, fast)
    return ok, why, nat


def literal_on_model(res, fast, build):
    def f(m):
        text = build(m)
        if text is None:
            return {"replayed": None}
        ok, why, nat = native_check_literal(res, text, fast)
        return {"replayed": (not ok), "witness": {"kind": "parse", "input": text.decode("latin-1"),
                                                  "input_hex": text.hex(), "opts": "default", "src": "slice",
                                                  "api": "single", "fast": fast},
                "observed": nat, "why": why}
    return f


# ----------------------------------------------------------------------------- parse_num_literal: digit loop

def claim_num_literal(cx, res, kf):
    fast = cx.fast_float
    res.assumptions += [
        "Read contract: peek/next return the byte at the cursor, end of input, or an I/O error at one symbolic "
        "position; discard advances by one (stubs.py)",
        "parse_num_tail / parse_long_integer are treated as exits here (own claims)",
        "loop cut at the digit loop header: accumulator and cursor havocked (one-step induction, any digit count)",
    ]
    for radix in (2, 8, 10, 16):
        eng = C.make_engine(cx, [], loop_mode="cut", timeout_s=180)
        rd = S.Reader(eng, with_io_errors=True)
        eng.stubs = S.reader_stubs(rd) + K.exit_stub(cx, eng, ["parse_num_tail", "parse_long_integer"]) + S.CORE_STUBS
        fn = C.resolve_callee(cx, "Parser::<R>::parse_num_literal")
        res_local = fn.local_by_debug("res")
        info = {}

        def init(e, st, fr):
            ref, cons, ov = K.parser_state(cx, e, st)
            fr.locals[1] = ref
            rv = e.sym_int("u8", "radix")
            pos = e.sym_bool("pos")
            fr.locals[2], fr.locals[3] = rv, pos
            info["pos"] = pos.e
            info["idx0"] = z3.BitVec("idx0", 64)
            st.notes["idx"] = info["idx0"]
            return cons + rd.base + [rv.e == radix, z3.ULT(info["idx0"], bv(1 << 40))]

        def on_header(e, st, fr, bb, what):
            st.notes["res_entry"] = fr.locals.get(res_local)
            st.notes["pc_at_header"] = len(st.pc)
            st.notes["idx_entry"] = st.notes["idx"]
            st.notes["idx"] = z3.BitVec("idxh", 64)

        def havoc(e, st, fr, bb):
            st.notes["res_in"] = fr.locals[res_local].e
            return [z3.ULT(st.notes["idx"], bv(1 << 40))]

        eng.on_header = on_header
        eng.havoc_hook = havoc
        terms = eng.explore(fn.name, init)
        res.absorb(eng)
        idxh = z3.BitVec("idxh", 64)
        b = rd.at(idxh)
        eof = z3.UGE(idxh, rd.len)
        ioerr = idxh == rd.err_at
        dv = digit_val(b)
        isdig = z3.ULT(dv, bv(radix, 8))
        seen = {"back": 0, "long": 0, "tail": 0, "invalid": 0, "io": 0, "first_invalid": 0}
        for t in terms:
            st = t.state
            pc = list(st.pc)
            after = "res_in" in st.notes
            if t.kind == "PANIC":
                res.must_be_unsat(pc, "radix %d: reachable panic `%s`" % (radix, t.info["msg"]))
                continue
            if not after:
                # ---- first digit handling (before the loop)
                b0 = rd.at(info["idx0"])
                eof0 = z3.UGE(info["idx0"], rd.len)
                io0 = info["idx0"] == rd.err_at
                d0 = digit_val(b0)
                kind, payload = K.classify_return(eng, t) if t.kind == "RETURN" else (t.kind, None)
                if kind == "err":
                    code = K.code_name(eng, K.err_code_index(eng, payload))
                    if code == "InvalidNumber":
                        seen["first_invalid"] += 1
                        # only when the first byte is not a digit of the radix (or EOF)
                        res.must_be_unsat(pc + [z3.Not(io0), z3.Not(eof0), z3.ULT(d0, bv(radix, 8))],
                                          "radix %d: a valid first digit is rejected" % radix)
                    elif isinstance(payload, Opaque) and payload.attrs.get("kind") == "io":
                        res.must_be_unsat(pc + [z3.Not(io0)], "radix %d: io error without a failing read" % radix)
                    elif code is not None and code.startswith("Eof"):
                        # a literal cut off before its first digit: only at the end of input
                        res.must_be_unsat(pc + [z3.Not(z3.And(z3.Not(io0), eof0))], "radix %d: EOF error although a byte was read" % radix)
                    else:
                        res.violations.append({"what": "unexpected error %r before the loop" % code, "replayed": None})
                else:
                    res.violations.append({"what": "unexpected terminal %r before the digit loop" % (t,), "replayed": None})
                continue
            # ---- entry value of the accumulator (checked on every path that passed the header)
            re_ = st.notes["res_entry"]
            b0 = rd.at(info["idx0"])
            pre = pc[:st.notes["pc_at_header"]]
            res.must_be_unsat(pre + [z3.Not(z3.And(z3.ULT(digit_val(b0), bv(radix, 8)),
                                                   re_.e == z3.ZeroExt(56, digit_val(b0)),
                                                   st.notes["idx_entry"] == info["idx0"] + 1))],
                              "radix %d: accumulator after the first digit is not its value / cursor not advanced by 1" % radix)
            rin = st.notes["res_in"]
            wide = z3.ZeroExt(64, rin) * bv(radix, 128) + z3.ZeroExt(120, dv)
            fits = z3.ULE(wide, bv(MAX64, 128))

            def build(m, rin=rin):
                r0 = K.mval(m, rin)
                atend = K.mval(m, eof)
                nb = K.mval(m, b)
                sign = "" if K.mval(m, info["pos"]) else "-"
                txt = PREFIX[radix] + sign + digits_in_radix(r0, radix)
                return txt.encode() + lit_tail(atend, nb, radix)

            onm = literal_on_model(res, fast, build)
            if t.kind == "LOOP_BACK":
                seen["back"] += 1
                rout = st.frames[-1].locals[res_local].e
                good = z3.And(z3.Not(ioerr), z3.Not(eof), isdig, fits,
                              z3.ZeroExt(64, rout) == wide, st.notes["idx"] == idxh + 1)
                res.must_be_unsat(pc + [z3.Not(good)], "radix %d: digit step is not res*r+d exactly / wrong byte class" % radix, onm)
                continue
            kind, payload = K.classify_return(eng, t)
            lc = K.last_call(st)
            if lc and lc[1] == "parse_long_integer":
                seen["long"] += 1
                a = lc[2]
                good = z3.And(z3.Not(ioerr), z3.Not(eof), isdig, z3.Not(fits), a[0].e == radix,
                              a[1].e == info["pos"], a[2].e == rin, a[3].e == 1, lc[3] == idxh + 1)
                res.must_be_unsat(pc + [z3.Not(good)],
                                  "radix %d: overflow exit taken although res*r+d fits (or wrong arguments)" % radix, onm)
                if kind == "ok":
                    # Ok(Number::from(f)) with f the callee's result
                    n = payload
                    okk = isinstance(n, Agg) and isinstance(n.fields[0], EnumV) and \
                        K.concrete(n.fields[0].discr) == eng.enums["N"].index("Float")
                    if not okk:
                        res.violations.append({"what": "over-long integer not returned as a float: %r" % (n,), "replayed": None})
                continue
            if lc and lc[1] == "parse_num_tail":
                seen["tail"] += 1
                a = lc[2]
                good = z3.And(z3.Not(ioerr), z3.Or(eof, z3.Not(isdig)), a[0].e == radix, a[1].e == info["pos"],
                              a[2].e == rin, lc[3] == idxh)
                res.must_be_unsat(pc + [z3.Not(good)], "radix %d: tail reached with a pending digit / wrong arguments" % radix, onm)
                continue
            if kind == "err":
                code = K.code_name(eng, K.err_code_index(eng, payload))
                if code == "InvalidNumber":
                    seen["invalid"] += 1
                    # allowed only for a hex-alphanumeric byte that is not a digit of this radix, and never for the
                    # exponent marker of a decimal literal
                    allowed = z3.And(z3.Not(eof), z3.Not(ioerr), dv != bv(255, 8), z3.Not(isdig))
                    if radix == 10:
                        allowed = z3.And(allowed, b != bv(ord("e"), 8), b != bv(ord("E"), 8))
                    res.must_be_unsat(pc + [z3.Not(allowed)],
                                      "radix %d: digits followed by this byte are rejected as InvalidNumber" % radix, onm)
                    continue
                if isinstance(payload, Opaque) and payload.attrs.get("kind") == "io":
                    seen["io"] += 1
                    res.must_be_unsat(pc + [z3.Not(ioerr)], "radix %d: io error without failing read" % radix)
                    continue
            res.violations.append({"what": "radix %d: unclassified path %r / %r" % (radix, t, st.events[-2:]), "replayed": None})
        for k in ("back", "long", "tail", "io"):
            res.vacuity.append(("radix %d reaches %s" % (radix, k), seen[k] > 0))


# ----------------------------------------------------------------------------- parse_num_tail

def claim_num_tail(cx, res, kf):
    fast = cx.fast_float
    res.assumptions.append("parse_decimal / parse_exponent are exits here (own claims)")
    eng = C.make_engine(cx, [], loop_mode="unroll", unroll=1, timeout_s=120)
    rd = S.Reader(eng, with_io_errors=True)
    eng.stubs = S.reader_stubs(rd) + K.exit_stub(cx, eng, ["parse_decimal", "parse_exponent"]) + S.CORE_STUBS
    fn = C.resolve_callee(cx, "Parser::<R>::parse_num_tail")
    info = {}

    def init(e, st, fr):
        ref, cons, ov = K.parser_state(cx, e, st)
        fr.locals[1] = ref
        rv, pos, sig = e.sym_int("u8", "radix"), e.sym_bool("pos"), e.sym_int("u64", "sig")
        fr.locals[2], fr.locals[3], fr.locals[4] = rv, pos, sig
        info.update(radix=rv.e, pos=pos.e, sig=sig.e, idx0=z3.BitVec("idx0", 64))
        st.notes["idx"] = info["idx0"]
        return cons + rd.base + [z3.Or(rv.e == 2, rv.e == 8, rv.e == 10, rv.e == 16), z3.ULT(info["idx0"], bv(1 << 40))]

    terms = eng.explore(fn.name, init)
    res.absorb(eng)
    i0 = info["idx0"]
    b = rd.at(i0)
    eof = z3.UGE(i0, rd.len)
    ioerr = i0 == rd.err_at
    dot = z3.And(z3.Not(eof), b == bv(ord("."), 8))
    ee = z3.And(z3.Not(eof), z3.Or(b == bv(ord("e"), 8), b == bv(ord("E"), 8)))
    sig, pos, radix = info["sig"], info["pos"], info["radix"]
    N = eng.enums["N"]
    seen = {"pos": 0, "neg": 0, "float": 0, "dec": 0, "exp": 0}

    def build(m):
        r = K.mval(m, radix)
        s = K.mval(m, sig)
        sign = "" if K.mval(m, pos) else "-"
        atend = K.mval(m, eof)
        nb = K.mval(m, b)
        tail = b"" if atend else bytes([nb]) + (b"5" if nb in b".eE" else b"")
        if not atend and nb not in b".eE":
            tail = b""
        return (PREFIX[r] + sign + digits_in_radix(s, r)).encode() + tail
    onm = literal_on_model(res, fast, build)
    for t in terms:
        pc = list(t.state.pc)
        if t.kind == "PANIC":
            res.must_be_unsat(pc, "reachable panic `%s`" % t.info["msg"])
            continue
        kind, payload = K.classify_return(eng, t)
        lc = K.last_call(t.state)
        if lc:
            a = lc[2]
            want = dot if lc[1] == "parse_decimal" else ee
            seen["dec" if lc[1] == "parse_decimal" else "exp"] += 1
            good = z3.And(z3.Not(ioerr), want, radix == 10, a[0].e == pos, a[1].e == sig, a[2].e == 0, lc[3] == i0)
            res.must_be_unsat(pc + [z3.Not(good)], "fraction/exponent branch taken wrongly or with wrong arguments", onm)
            continue
        if kind == "err":
            code = K.code_name(eng, K.err_code_index(eng, payload))
            if code == "InvalidNumber":
                res.must_be_unsat(pc + [z3.Not(z3.And(z3.Or(dot, ee), radix != 10))],
                                  "InvalidNumber for an integer literal that has no fraction/exponent in a non-decimal radix", onm)
                continue
            if isinstance(payload, Opaque) and payload.attrs.get("kind") == "io":
                res.must_be_unsat(pc + [z3.Not(ioerr)], "io error without failing read")
                continue
        if kind == "ok" and isinstance(payload, Agg) and isinstance(payload.fields[0], EnumV):
            n = payload.fields[0]
            d = K.concrete(n.discr)
            base = [z3.Not(ioerr), z3.Not(dot), z3.Not(ee)]
            if d == N.index("PosInt"):
                seen["pos"] += 1
                v = n.variants[d][0].e
                good = z3.And(*base, z3.Or(z3.And(pos, v == sig), z3.And(z3.Not(pos), sig == 0, v == 0)))
                res.must_be_unsat(pc + [z3.Not(good)], "non-negative integer result is not the literal's value", onm)
                continue
            if d == N.index("NegInt"):
                seen["neg"] += 1
                v = n.variants[d][0].e
                good = z3.And(*base, z3.Not(pos), z3.UGT(sig, 0), z3.ULE(sig, bv(1 << 63)), v == -sig)
                res.must_be_unsat(pc + [z3.Not(good)], "negative integer result is not the literal's value", onm)
                continue
            if d == N.index("Float"):
                seen["float"] += 1
                v = n.variants[d][0].e
                exact = z3.fpNeg(z3.fpUnsignedToFP(z3.RNE(), sig, z3.Float64()))
                good = z3.And(*base, z3.Not(pos), z3.UGT(sig, bv(1 << 63)), v == exact)
                res.must_be_unsat(pc + [z3.Not(good)], "integer below -2^63 must become the nearest double of its value", onm)
                continue
        res.violations.append({"what": "unclassified path %r" % (t,), "replayed": None})
    for k, n in seen.items():
        res.vacuity.append(("reaches " + k, n > 0))


# ----------------------------------------------------------------------------- parse_long_integer

def claim_long_integer(cx, res, kf):
    fast = cx.fast_float
    res.assumptions += ["parse_decimal / parse_exponent / f64_from_parts are exits here",
                        "fewer than 2^31-2 digits (the exponent counter is an i32; longer inputs are outside the claim)"]
    for radix in (2, 8, 10, 16):
        eng = C.make_engine(cx, [], loop_mode="cut", timeout_s=120)
        eng.fp_abstract = True   # float mul / is_infinite as uninterpreted functions: only the shape is claimed here
        rd = S.Reader(eng, with_io_errors=True)
        eng.stubs = S.reader_stubs(rd) + K.exit_stub(cx, eng, ["parse_decimal", "parse_exponent", "f64_from_parts"]) + S.CORE_STUBS
        fn = C.resolve_callee(cx, "Parser::<R>::parse_long_integer")
        exp_local = fn.local_by_debug("exponent")
        info = {}

        def init(e, st, fr):
            ref, cons, ov = K.parser_state(cx, e, st)
            fr.locals[1] = ref
            rv, pos, sig, ex = e.sym_int("u8", "radix"), e.sym_bool("pos"), e.sym_int("u64", "sig"), e.sym_int("i32", "exp0")
            fr.locals[2], fr.locals[3], fr.locals[4], fr.locals[5] = rv, pos, sig, ex
            info.update(pos=pos.e, sig=sig.e, exp0=ex.e, idx0=z3.BitVec("idx0", 64))
            st.notes["idx"] = info["idx0"]
            return cons + rd.base + [rv.e == radix, ex.e >= 1]

        def on_header(e, st, fr, bb, what):
            st.notes["idx"] = z3.BitVec("idxh", 64)

        def havoc(e, st, fr, bb):
            st.notes["exp_in"] = fr.locals[exp_local].e
            return [fr.locals[exp_local].e >= 1, fr.locals[exp_local].e < bv((1 << 31) - 2, 32),
                    z3.ULT(st.notes["idx"], bv(1 << 40))]
        eng.on_header, eng.havoc_hook = on_header, havoc
        terms = eng.explore(fn.name, init)
        res.absorb(eng)
        idxh = z3.BitVec("idxh", 64)
        b = rd.at(idxh)
        eof = z3.UGE(idxh, rd.len)
        ioerr = idxh == rd.err_at
        dv = digit_val(b)
        isdig = z3.ULT(dv, bv(radix, 8))
        seen = {"back": 0, "exit": 0}
        base_done = set()

        def build(m):
            # an over-long literal: significand digits (19-20 digits worth), then exp_in further digits, then b
            s = K.mval(m, info["sig"])
            k = K.mval(m, z3.BitVec("__k", 32)) if False else None
            return None
        for t in terms:
            st = t.state
            pc = list(st.pc)
            if t.kind == "PANIC":
                res.must_be_unsat(pc, "radix %d: reachable panic `%s`" % (radix, t.info["msg"]))
                continue
            ein = st.notes.get("exp_in")
            if ein is None:
                res.violations.append({"what": "path ends before the loop: %r" % (t,), "replayed": None})
                continue
            base_case(res, st, 0, base_done, lambda a: z3.And(a["locals"][exp_local].e == info["exp0"], a["idx"] == info["idx0"])
                      if exp_local in a["locals"] else None,
                      "radix %d: the over-long digit loop does not start from the digit count and cursor it was given" % radix)

            def build(m, ein=ein):
                s = K.mval(m, info["sig"])
                k = K.mval(m, ein)
                if k > 40:
                    k = 3
                atend = K.mval(m, eof)
                nb = K.mval(m, b)
                sign = "" if K.mval(m, info["pos"]) else "-"
                # smallest over-long literal with this structure: max-value digits + k zeros + b
                body = digits_in_radix(MAX64, radix) + "0" * k
                return (PREFIX[radix] + sign + body).encode() + lit_tail(atend, nb, radix)
            onm = literal_on_model(res, fast, build)
            if t.kind == "LOOP_BACK":
                seen["back"] += 1
                eout = st.frames[-1].locals[exp_local].e
                good = z3.And(z3.Not(ioerr), z3.Not(eof), isdig, eout == ein + 1, st.notes["idx"] == idxh + 1)
                res.must_be_unsat(pc + [z3.Not(good)], "radix %d: over-long digit step does not count exactly one digit" % radix, onm)
                continue
            kind, payload = K.classify_return(eng, t)
            lc = K.last_call(st)
            exit_ok = z3.And(z3.Not(ioerr), z3.Or(eof, z3.Not(isdig)))
            if lc and lc[1] == "f64_from_parts":
                a = lc[2]
                seen["exit"] += 1
                good = z3.And(exit_ok, a[0].e == info["pos"], a[1].e == info["sig"], a[2].e == ein, lc[3] == idxh)
                res.must_be_unsat(pc + [z3.Not(good)], "radix %d: wrong significand/exponent handed to the float conversion" % radix, onm)
                if radix != 10:
                    # f64_from_parts computes sig * 10^exp: wrong for any other radix
                    res.must_be_unsat(pc + [exit_ok], "radix %d: over-long integer is scaled by 10^k instead of %d^k" % (radix, radix), onm)
                continue
            if not lc and radix != 10 and kind in ("ok", "err") and not (kind == "err" and K.err_code_index(eng, payload) != eng.enums["ErrorCode"].index("NumberOutOfRange")):
                # direct conversion: sig as f64 * (radix as f64)^k, rejected when infinite
                seen["exit"] += 1
                from .symex import FP_UF, FP_ISINF
                prod = FP_UF["Mul"](z3.fpUnsignedToFP(z3.RNE(), info["sig"], z3.Float64()),
                                    S.POWI(z3.fpUnsignedToFP(z3.RNE(), bv(radix, 8), z3.Float64()), ein))
                if kind == "ok":
                    v = payload.e
                    good = z3.And(exit_ok, z3.Not(FP_ISINF(prod)), st.notes["idx"] == idxh,
                                  z3.If(info["pos"], v == prod, v == z3.fpNeg(prod)))
                else:
                    good = z3.And(exit_ok, FP_ISINF(prod))
                res.must_be_unsat(pc + [z3.Not(good)], "radix %d: over-long integer is not sig * %d^k (or infinite result not rejected)" % (radix, radix), onm)
                continue
            if lc:
                a = lc[2]
                if lc[1] in ("parse_decimal", "parse_exponent"):
                    want = b == bv(ord("."), 8) if lc[1] == "parse_decimal" else z3.Or(b == bv(ord("e"), 8), b == bv(ord("E"), 8))
                    good = z3.And(z3.Not(ioerr), z3.Not(eof), want, radix == 10, a[0].e == info["pos"],
                                  a[1].e == info["sig"], a[2].e == ein, lc[3] == idxh)
                    res.must_be_unsat(pc + [z3.Not(good)], "radix %d: fraction/exponent branch of an over-long integer" % radix, onm)
                    continue
            if kind == "err":
                code = K.code_name(eng, K.err_code_index(eng, payload))
                if code == "InvalidNumber":
                    allowed = z3.And(z3.Not(eof), z3.Not(ioerr),
                                     z3.Or(z3.And(dv != bv(255, 8), z3.Not(isdig)),
                                           z3.And(radix != 10, z3.Or(b == bv(ord("."), 8)))))
                    if radix == 10:
                        allowed = z3.And(allowed, b != bv(ord("e"), 8), b != bv(ord("E"), 8))
                    res.must_be_unsat(pc + [z3.Not(allowed)], "radix %d: over-long digits followed by this byte rejected" % radix, onm)
                    continue
                if isinstance(payload, Opaque) and payload.attrs.get("kind") == "io":
                    res.must_be_unsat(pc + [z3.Not(ioerr)], "io error without failing read")
                    continue
            res.violations.append({"what": "radix %d: unclassified path %r" % (radix, t), "replayed": None})
        for k, n in seen.items():
            res.vacuity.append(("radix %d reaches %s" % (radix, k), n > 0))


CLAIMS = [
    Claim("c05_num_literal_step", "C05", "quick", claim_num_literal,
          "parse_num_literal: first digit and one arbitrary step of the digit loop, per radix 2/8/10/16: digit "
          "classification, res' = res*r+d exactly, overflow exit iff res*r+d > u64::MAX, tail exit on every non-digit "
          "(the decimal exponent marker included), no reachable overflow/division panic",
          "any number of digits (one-step induction from an arbitrary u64 accumulator); 4 radixes; reader with EOF and "
          "I/O error at an arbitrary position", configs=("fast", "nofast"), also=("C01", "C13", "C03", "C06", "C04")),
    Claim("c05_num_tail", "C05", "quick", claim_num_tail,
          "parse_num_tail maps (sign, magnitude) to exactly the integer in [-2^63, 2^64-1] (-0, -2^63, 2^63 included), "
          "to the nearest double below that range, and enters the fraction/exponent scanners only for radix 10",
          "all u64 magnitudes, both signs, 4 radixes, every next byte / EOF / I/O error", configs=("fast",), also=("C01", "C13", "C04", "C03")),
    Claim("c05_long_integer_step", "C05", "quick", claim_long_integer,
          "parse_long_integer counts exactly the remaining digits of an over-long integer and hands "
          "significand x radix^k (in the stated radix) to the float conversion",
          "any number of further digits < 2^31-2 (one-step induction); 4 radixes", configs=("fast",), also=("C03", "C06", "C01", "C13", "C04")),
]


# ----------------------------------------------------------------------------- generic runner for scanner functions

def run_scanner(cx, res, fname, mk_args, exits, track, loop_mode="cut", fp_abstract=False, io=True, timeout_s=150,
                extra_havoc=None, unroll=1):
    """Explore Parser::<R>::<fname>. mk_args(engine) -> (list of values for _2.., constraints, info dict).
    `track`: debug names of locals whose value is recorded at each loop-header havoc (notes['in'][header][name])."""
    eng = C.make_engine(cx, [], loop_mode=loop_mode, timeout_s=timeout_s, unroll=unroll)
    eng.fp_abstract = fp_abstract
    rd = S.Reader(eng, with_io_errors=io)
    eng.stubs = S.reader_stubs(rd) + K.exit_stub(cx, eng, exits) + S.SCRATCH_STUBS + S.CORE_STUBS
    fn = C.resolve_callee(cx, "Parser::<R>::" + fname)
    info = {}
    loc = {n: fn.local_by_debug(n) for n in track}
    info["loc"] = loc

    def init(e, st, fr):
        ref, cons, ov = K.parser_state(cx, e, st)
        fr.locals[1] = ref
        vals, c2, inf = mk_args(e)
        for i, v in enumerate(vals):
            fr.locals[2 + i] = v
        info.update(inf)
        info["idx0"] = z3.BitVec("idx0", 64)
        st.notes["idx"] = info["idx0"]
        st.notes["in"] = ()
        return cons + rd.base + c2 + [z3.ULT(info["idx0"], bv(1 << 40))]

    def on_header(e, st, fr, bb, what):
        st.notes["idx"] = z3.BitVec("idxh%d" % bb, 64)

    def havoc(e, st, fr, bb):
        rec = {n: fr.locals.get(l) for n, l in loc.items() if l is not None}
        rec["idx"] = st.notes["idx"]
        st.notes["in"] = st.notes["in"] + ((bb, rec),)
        out = [z3.ULT(st.notes["idx"], bv(1 << 40))]
        if extra_havoc:
            out += extra_havoc(e, st, fr, bb, rec)
        return out
    eng.on_header, eng.havoc_hook = on_header, havoc
    terms = eng.explore(fn.name, init)
    res.absorb(eng)
    return eng, rd, fn, info, terms


def last_in(st):
    return st.notes["in"][-1] if st.notes.get("in") else (None, None)


base_case = K.base_case


def cur_byte(rd, idx):
    b = rd.at(idx)
    return b, z3.UGE(idx, rd.len), idx == rd.err_at


def io_err_payload(p):
    return isinstance(p, Opaque) and p.attrs.get("kind") == "io"


# ----------------------------------------------------------------------------- parse_decimal

def claim_decimal(cx, res, kf):
    res.assumptions += ["parse_exponent / f64_from_parts are exits", "fewer than 2^31 fractional digits (i32 exponent)"]

    def mk_args(e):
        pos, sig, ex = e.sym_bool("pos"), e.sym_int("u64", "sig"), e.sym_int("i32", "exp")
        return [pos, sig, ex], [ex.e > bv(-(1 << 30), 32), ex.e < bv(1 << 30, 32)], {"pos": pos.e, "sig0": sig.e, "exp0": ex.e}

    def xh(e, st, fr, bb, rec):
        ex = rec.get("exponent")
        return [ex.e > bv(-(1 << 30), 32), ex.e < bv(1 << 30, 32)] if ex is not None else []
    eng, rd, fn, info, terms = run_scanner(cx, res, "parse_decimal", mk_args, ["parse_exponent", "f64_from_parts"],
                                           ["significand", "exponent", "at_least_one_digit"], extra_havoc=xh)
    loc = info["loc"]
    base_done = set()
    seen = {"step": 0, "skip": 0, "exit_e": 0, "exit_f": 0, "nodigit": 0}
    for t in terms:
        st = t.state
        pc = list(st.pc)
        if t.kind == "PANIC":
            res.must_be_unsat(pc, "reachable panic `%s`" % t.info["msg"])
            continue
        hb, rec = last_in(st)
        if rec is None:
            if t.kind == "RETURN":
                kind, payload = K.classify_return(eng, t)
                if kind == "err" and io_err_payload(payload):
                    continue
            res.violations.append({"what": "path ends before the digit loop: %r" % (t,), "replayed": None})
            continue
        idx = rec["idx"]
        b, eof, ioerr = cur_byte(rd, idx)
        isd = z3.And(z3.Not(eof), is_dec_digit(b))
        sig, ex, aod = rec["significand"].e, rec["exponent"].e, rec["at_least_one_digit"].e
        d = z3.ZeroExt(120, b - bv(48, 8))
        wide = z3.ZeroExt(64, sig) * bv(10, 128) + d
        fits = z3.ULE(wide, bv(MAX64, 128))
        # base cases: the digit loop starts from the arguments right after the '.', and the digit-skipping loop is entered
        # exactly when the next digit does not fit, with the value (sig, exp) unchanged and that digit consumed
        L = lambda a, n: a["locals"][loc[n]].e  # noqa
        base_case(res, st, 0, base_done, lambda a: z3.And(L(a, "significand") == info["sig0"], L(a, "exponent") == info["exp0"],
                                                         z3.Not(L(a, "at_least_one_digit")), a["idx"] == info["idx0"] + 1),
                  "the fraction loop does not start from the integer part's (significand, exponent) right after the `.`")
        if len(st.notes["in"]) >= 2:
            r1 = st.notes["in"][0][1]
            i1 = r1["idx"]
            b1, eof1, io1 = cur_byte(rd, i1)
            wide1 = z3.ZeroExt(64, r1["significand"].e) * bv(10, 128) + z3.ZeroExt(120, b1 - bv(48, 8))
            base_case(res, st, 1, base_done, lambda a: z3.And(z3.Not(io1), z3.Not(eof1), is_dec_digit(b1), z3.Not(z3.ULE(wide1, bv(MAX64, 128))),
                                                             L(a, "significand") == r1["significand"].e, L(a, "exponent") == r1["exponent"].e,
                                                             a["idx"] == i1 + 1),
                      "the digit that no longer fits is not dropped with (significand, exponent) unchanged (the value would be scaled wrongly)")
        fr = st.frames[-1] if st.frames else None
        if t.kind == "LOOP_BACK":
            sig2, ex2, aod2 = fr.locals[loc["significand"]].e, fr.locals[loc["exponent"]].e, fr.locals[loc["at_least_one_digit"]].e
            if t.info["header"] == st.notes["in"][0][0] and len(st.notes["in"]) == 1:
                seen["step"] += 1
                good = z3.And(z3.Not(ioerr), isd, fits, z3.ZeroExt(64, sig2) == wide, ex2 == ex - 1, aod2,
                              st.notes["idx"] == idx + 1)
                res.must_be_unsat(pc + [z3.Not(good)], "fraction digit step is not (sig*10+d, exp-1)")
            else:
                seen["skip"] += 1
                good = z3.And(z3.Not(ioerr), isd, sig2 == sig, ex2 == ex, st.notes["idx"] == idx + 1)
                res.must_be_unsat(pc + [z3.Not(good)], "digit-skipping loop changes the value or consumes a non-digit")
            continue
        kind, payload = K.classify_return(eng, t)
        lc = K.last_call(st)
        if lc:
            a = lc[2]
            isE = z3.And(z3.Not(eof), z3.Or(b == bv(ord("e"), 8), b == bv(ord("E"), 8)))
            if lc[1] == "parse_exponent":
                seen["exit_e"] += 1
                want = isE
            else:
                seen["exit_f"] += 1
                want = z3.Not(isE)
            # the values handed over are the loop state at the last header (possibly the skip loop: unchanged values)
            first = st.notes["in"][0][1]
            good = z3.And(z3.Not(ioerr), z3.Not(isd), want, a[0].e == info["pos"], a[1].e == sig, a[2].e == ex, lc[3] == idx)
            if len(st.notes["in"]) == 1:
                good = z3.And(good, aod)
            res.must_be_unsat(pc + [z3.Not(good)], "fraction end: wrong continuation or arguments")
            continue
        if kind == "err":
            code = K.code_name(eng, K.err_code_index(eng, payload))
            if code == "InvalidNumber" or (code or "").startswith("Eof"):
                seen["nodigit"] += 1
                res.must_be_unsat(pc + [z3.Not(z3.And(z3.Not(aod), z3.Not(isd)))], "error although a fraction digit was read")
                if code != "InvalidNumber":
                    res.must_be_unsat(pc + [z3.Not(eof)], "EOF error for a missing fraction digit although input continues")
                continue
            if io_err_payload(payload):
                res.must_be_unsat(pc + [z3.Not(ioerr)], "io error without failing read")
                continue
        res.violations.append({"what": "unclassified path %r" % (t,), "replayed": None})
    for k, n in seen.items():
        res.vacuity.append(("reaches " + k, n > 0))


# ----------------------------------------------------------------------------- parse_exponent (+ overflow)

def claim_exponent(cx, res, kf):
    res.assumptions += ["f64_from_parts / parse_exponent_overflow are exits"]

    def mk_args(e):
        pos, sig, ex = e.sym_bool("pos"), e.sym_int("u64", "sig"), e.sym_int("i32", "sexp")
        return [pos, sig, ex], [], {"pos": pos.e, "sig0": sig.e, "sexp": ex.e}

    def xh(e, st, fr, bb, rec):
        x = rec.get("exp")
        return [x.e >= 0] if x is not None else []
    eng, rd, fn, info, terms = run_scanner(cx, res, "parse_exponent", mk_args, ["f64_from_parts", "parse_exponent_overflow"],
                                           ["exp", "positive_exp"], extra_havoc=xh)
    loc = info["loc"]
    base_done = set()
    seen = {"step": 0, "ovf": 0, "exit": 0, "nodigit": 0}
    I32MAX = (1 << 31) - 1
    for t in terms:
        st = t.state
        pc = list(st.pc)
        if t.kind == "PANIC":
            res.must_be_unsat(pc, "reachable panic `%s`" % t.info["msg"])
            continue
        hb, rec = last_in(st)
        kind, payload = K.classify_return(eng, t) if t.kind == "RETURN" else (t.kind, None)
        if rec is None:
            if kind == "err":
                code = K.code_name(eng, K.err_code_index(eng, payload))
                if code == "InvalidNumber" or (code or "").startswith("Eof"):
                    seen["nodigit"] += 1
                    continue
                if io_err_payload(payload):
                    continue
            res.violations.append({"what": "path ends before the exponent digit loop: %r" % (t,), "replayed": None})
            continue
        idx = rec["idx"]
        b, eof, ioerr = cur_byte(rd, idx)
        isd = z3.And(z3.Not(eof), is_dec_digit(b))
        x, pe = rec["exp"].e, rec["positive_exp"].e
        d = z3.ZeroExt(56, b - bv(48, 8))
        wide = z3.SignExt(32, x) * bv(10, 64) + d
        fits = wide <= bv(I32MAX, 64)
        # base case: the marker byte is consumed, an optional sign decides the direction ('-' only), the first digit (which
        # must be there) is the initial exponent value
        i0 = info["idx0"]
        s1 = rd.at(i0 + 1)
        has1 = z3.ULT(i0 + 1, rd.len)
        sgn_m = z3.And(has1, s1 == bv(ord("-"), 8))
        sgn_p = z3.And(has1, s1 == bv(ord("+"), 8))
        dpos = z3.If(z3.Or(sgn_m, sgn_p), i0 + 2, i0 + 1)
        db = rd.at(dpos)
        base_case(res, st, 0, base_done,
                  lambda a: z3.And(a["locals"][loc["positive_exp"]].e == z3.Not(sgn_m), z3.ULT(dpos, rd.len), is_dec_digit(db),
                                   a["locals"][loc["exp"]].e == z3.ZeroExt(24, db - bv(48, 8)), a["idx"] == dpos + 1)
                  if loc["exp"] in a["locals"] and loc["positive_exp"] in a["locals"] else None,
                  "exponent: sign / first digit handling before the digit loop (direction only from `-`, initial value = first digit)")
        if t.kind == "LOOP_BACK":
            seen["step"] += 1
            x2 = st.frames[-1].locals[loc["exp"]].e
            good = z3.And(z3.Not(ioerr), isd, fits, z3.SignExt(32, x2) == wide, st.notes["idx"] == idx + 1)
            res.must_be_unsat(pc + [z3.Not(good)], "exponent digit step is not exp*10+d")
            continue
        lc = K.last_call(st)
        if lc and lc[1] == "parse_exponent_overflow":
            seen["ovf"] += 1
            a = lc[2]
            good = z3.And(z3.Not(ioerr), isd, z3.Not(fits), a[0].e == info["pos"], a[1].e == info["sig0"], a[2].e == pe)
            res.must_be_unsat(pc + [z3.Not(good)], "exponent overflow exit taken although exp*10+d fits i32")
            continue
        if lc and lc[1] == "f64_from_parts":
            seen["exit"] += 1
            a = lc[2]
            s64 = z3.SignExt(32, info["sexp"])
            tot = z3.If(pe, s64 + z3.SignExt(32, x), s64 - z3.SignExt(32, x))
            sat = z3.If(tot > bv(I32MAX, 64), bv(I32MAX, 64), z3.If(tot < bv(-(1 << 31), 64), bv(-(1 << 31), 64), tot))
            good = z3.And(z3.Not(ioerr), z3.Not(isd), a[0].e == info["pos"], a[1].e == info["sig0"],
                          z3.SignExt(32, a[2].e) == sat, lc[3] == idx)
            res.must_be_unsat(pc + [z3.Not(good)], "final exponent is not starting_exp +/- exp (saturating)")
            continue
        if kind == "err" and io_err_payload(payload):
            res.must_be_unsat(pc + [z3.Not(ioerr)], "io error without failing read")
            continue
        res.violations.append({"what": "unclassified path %r" % (t,), "replayed": None})
    for k, n in seen.items():
        res.vacuity.append(("reaches " + k, n > 0))
    # sign handling before the loop: '+' / '-' / none decide positive_exp; checked through the first-header record
    # (positive_exp is not written in the loop, so rec holds the value computed from the sign byte)


def claim_exponent_overflow(cx, res, kf):
    def mk_args(e):
        pos, sig, pe = e.sym_bool("pos"), e.sym_int("u64", "sig"), e.sym_bool("pexp")
        return [pos, sig, pe], [], {"pos": pos.e, "sig": sig.e, "pe": pe.e}
    eng, rd, fn, info, terms = run_scanner(cx, res, "parse_exponent_overflow", mk_args, [], [])
    seen = {"range": 0, "zero": 0, "skip": 0}
    for t in terms:
        st = t.state
        pc = list(st.pc)
        if t.kind == "PANIC":
            res.must_be_unsat(pc, "reachable panic")
            continue
        big = z3.And(info["sig"] != 0, info["pe"])
        if t.kind == "LOOP_BACK":
            seen["skip"] += 1
            hb, rec = last_in(st)
            b, eof, ioerr = cur_byte(rd, rec["idx"])
            res.must_be_unsat(pc + [z3.Not(z3.And(z3.Not(big), z3.Not(eof), is_dec_digit(b), st.notes["idx"] == rec["idx"] + 1))],
                              "skip loop consumes a non-digit")
            continue
        kind, payload = K.classify_return(eng, t)
        if kind == "err":
            code = K.code_name(eng, K.err_code_index(eng, payload))
            if code == "NumberOutOfRange":
                seen["range"] += 1
                res.must_be_unsat(pc + [z3.Not(big)], "out-of-range although the value is zero or tiny")
                continue
            if io_err_payload(payload):
                continue
        if kind == "ok" and isinstance(payload, F64):
            seen["zero"] += 1
            v = payload.e
            good = z3.And(z3.Not(big), z3.fpIsZero(v), z3.fpIsNegative(v) == z3.Not(info["pos"]))
            res.must_be_unsat(pc + [z3.Not(good)], "huge negative exponent / zero significand must give a signed zero")
            continue
        res.violations.append({"what": "unclassified path %r" % (t,), "replayed": None})
    for k, n in seen.items():
        res.vacuity.append(("reaches " + k, n > 0))


CLAIMS += [
    Claim("c05_decimal_step", "C05", "quick", claim_decimal,
          "parse_decimal: every fraction digit maps (sig, exp) to (sig*10+d, exp-1) while it fits u64, further digits "
          "are skipped without changing the value, at least one digit is required, and the scanner continues with "
          "the exponent or the float conversion on exactly (sign, sig, exp)",
          "any number of fraction digits (one-step induction on both loops), |exp| < 2^30", configs=("fast",), also=("C01", "C13", "C03", "C06", "C04")),
    Claim("c05_exponent_step", "C05", "quick", claim_exponent,
          "parse_exponent: exponent digits accumulate exactly in i32, overflow goes to the overflow handler, and the "
          "float conversion receives starting_exp +/- exp (saturating) with the unchanged significand and sign",
          "any number of exponent digits (one-step induction)", configs=("fast",), also=("C03", "C06", "C01", "C13", "C04")),
    Claim("c05_exponent_overflow", "C05", "quick", claim_exponent_overflow,
          "an exponent beyond i32 gives out-of-range for a non-zero significand with positive exponent and a signed "
          "zero otherwise; only digits are skipped", "all inputs", configs=("fast",), also=("C01", "C13", "C04", "C03")),
]


# ----------------------------------------------------------------------------- f64_from_parts (fast-float-parsing build)

def check_pow10_table(cx, res):
    import struct
    raw = cx.statics.get("POW10", {}).get("bytes")
    if raw is None:
        res.error = "POW10 table not found in the MIR dump"
        return
    n = len(raw) // 8
    bad = []
    for k in range(n):
        got = struct.unpack("<d", raw[8 * k:8 * k + 8])[0]
        if got != float(10 ** k):
            bad.append((k, got))
    res.notes.append("POW10: %d compiled entries compared bit-for-bit with the correctly rounded 10^k" % n)
    if n != 309 or bad:
        k = bad[0][0] if bad else 0
        text = ("1e%d" % k).encode() if k <= 22 else ("1.0e%d" % k).encode()
        ok, why, nat = native_check_literal(res, text, True)
        res.violations.append({"what": "POW10 table wrong (entries %r, length %d)" % (bad[:3], n), "replayed": (not ok) or None,
                               "witness": {"kind": "parse", "input": text.decode(), "input_hex": text.hex(),
                                           "opts": "default", "src": "slice", "api": "single", "fast": True},
                               "observed": nat, "why": why})


OVERFLOW_CANDIDATES = [b"1e400", b"18e308", b"2e308", b"1.8e308", b"-2e308", b"179769313486231580793e289", b"1e309"]


TINY_CANDIDATES = [b"2.22507385850720138e-308", b"4.9406564584124654e-324", b"1e-320", b"123456789012345678e-340",
                   b"1.5e-310", b"1e-400", b"0.0e-400", b"7e-324", b"1e308", b"1e-308", b"12345e300"]


def replay_candidates(res, fast, cands):
    """Try concrete literals through the real parser until one disagrees with the reference."""
    def f(m):
        last = None
        for text in cands:
            ok, why, nat = native_check_literal(res, text, fast)
            last = (text, nat, why)
            if not ok:
                return {"replayed": True, "witness": {"kind": "parse", "input": text.decode(), "input_hex": text.hex(),
                                                      "opts": "default", "src": "slice", "api": "single", "fast": fast},
                        "observed": nat, "why": why}
        return {"replayed": False, "why": "no candidate literal reproduced: %r" % (last,)}
    return f


def ieee_axioms(terms_mul, terms_div):
    """IEEE-754 facts about single operations, instantiated for the mul/div terms that occur (trusted; each is
    re-validated by z3 at half precision in claim_ieee_axioms)."""
    from .symex import FP_UF, FP_ISINF
    ax = []
    fin = lambda x: z3.And(z3.Not(z3.fpIsNaN(x)), z3.Not(z3.fpIsInf(x)))  # noqa
    one = z3.FPVal(1.0, z3.Float64())
    for (x, y) in terms_mul:
        r = FP_UF["Mul"](x, y)
        ax.append(FP_ISINF(r) == z3.fpIsInf(r))
        ax.append(z3.Implies(z3.And(fin(x), fin(y)), z3.Not(z3.fpIsNaN(r))))
        ax.append(z3.Implies(z3.And(fin(x), fin(y), z3.Not(z3.fpIsNegative(x)), z3.Not(z3.fpIsNegative(y))),
                             z3.Not(z3.fpIsNegative(r))))
    for (x, y) in terms_div:
        r = FP_UF["Div"](x, y)
        ax.append(z3.Implies(z3.And(fin(x), fin(y), z3.Not(z3.fpIsNegative(x)), z3.fpGEQ(y, one)),
                             z3.And(fin(r), z3.Not(z3.fpIsNegative(r)))))
    return ax


def collect_uf(e, acc):
    """collect fmul/fdiv applications in a z3 term"""
    seen = set()
    work = [e]
    while work:
        x = work.pop()
        if x.get_id() in seen:
            continue
        seen.add(x.get_id())
        if z3.is_app(x):
            nm = x.decl().name()
            if nm in ("fmul", "fdiv"):
                acc[nm].add((x.arg(0), x.arg(1)))
            work.extend(x.children())


def claim_f64_fast_finite(cx, res, kf):
    check_pow10_table(cx, res)
    import struct
    raw = cx.statics["POW10"]["bytes"]
    tbl = [struct.unpack("<d", raw[8 * k:8 * k + 8])[0] for k in range(len(raw) // 8)]
    import math
    if not all(math.isfinite(x) and x >= 1.0 for x in tbl):
        res.violations.append({"what": "POW10 contains an entry that is not a finite value >= 1", "replayed": None})
    res.assumptions += [
        "loop invariant at the scaling loop header: f is finite and >= +0 (entry and preservation checked)",
        "IEEE-754 single-operation axioms (finite*finite is not NaN; non-negative finite operands give a "
        "non-negative product; x/y is finite, non-negative for finite x >= 0, y >= 1), validated by z3 at half precision",
        "every POW10 entry is finite and >= 1 (checked on the compiled table)",
    ]

    def mk_args(e):
        pos, sig, ex = e.sym_bool("pos"), e.sym_int("u64", "sig"), e.sym_int("i32", "exp")
        return [pos, sig, ex], [], {"pos": pos.e, "sig": sig.e, "exp": ex.e}

    def inv(f):
        return z3.And(z3.Not(z3.fpIsNaN(f)), z3.Not(z3.fpIsInf(f)), z3.Not(z3.fpIsNegative(f)))

    def xh(e, st, fr, bb, rec):
        return [inv(rec["f"].e), rec["exponent"].e > bv(-(1 << 31) + 400, 32)]
    eng, rd, fn, info, terms = run_scanner(cx, res, "f64_from_parts", mk_args, [], ["f", "exponent"], extra_havoc=xh,
                                           io=False, timeout_s=300, fp_abstract=True)
    loc = info["loc"]
    base_done = set()
    seen = {"ok": 0, "range": 0, "back": 0}
    one = z3.FPVal(1.0, z3.Float64())
    for t in terms:
        st = t.state
        pc = list(st.pc)
        # table facts for every table_get event on this path: the fetched value is finite and >= 1
        arr, n = S.table_f64(eng, "POW10")
        facts = []
        for ev in st.events:
            if ev[0] == "table_get":
                tv = z3.fpBVToFP(z3.Select(arr, ev[2]), z3.Float64())
                facts.append(z3.Implies(z3.ULT(ev[2], bv(n)), z3.And(z3.Not(z3.fpIsNaN(tv)), z3.Not(z3.fpIsInf(tv)), z3.fpGEQ(tv, one))))
        # 1e308 literal divisor
        acc = {"fmul": set(), "fdiv": set()}
        for c in pc:
            collect_uf(c, acc)
        if t.kind == "PANIC":
            res.must_be_unsat(pc, "reachable panic `%s`" % t.info["msg"])
            continue
        from .symex import FP_UF
        hb, rec = last_in(st)
        if rec is None:
            # a path that never reaches the scaling loop: the loop is the only way the documented result can be computed
            v_ = {"what": "the float conversion returns without going through the scaling loop (table lookup outside it?)", "replayed": None}
            v_.update(replay_candidates(res, True, TINY_CANDIDATES)(None) or {})
            if not any(x.get("what") == v_["what"] for x in res.violations):
                res.violations.append(v_)
            continue
        fin, ein = rec["f"].e, rec["exponent"].e
        base_case(res, st, 0, base_done,
                  lambda a: z3.And(a["locals"][loc["f"]].e == z3.fpUnsignedToFP(z3.RNE(), info["sig"], z3.Float64()),
                                   a["locals"][loc["exponent"]].e == info["exp"])
                  if loc["f"] in a["locals"] and loc["exponent"] in a["locals"] else None,
                  "the scaling loop does not start from (significand as f64, exponent)", replay_candidates(res, True, TINY_CANDIDATES))
        absx = z3.If(ein < 0, -ein, ein)
        hit = z3.ULT(z3.ZeroExt(32, absx), bv(n))
        tk = z3.fpBVToFP(z3.Select(arr, z3.ZeroExt(32, absx)), z3.Float64())
        if t.kind == "LOOP_BACK":
            seen["back"] += 1
            f2 = st.frames[-1].locals[loc["f"]].e
            e2 = st.frames[-1].locals[loc["exponent"]].e
            collect_uf(f2, acc)
            res.must_be_unsat(pc + facts + ieee_axioms(acc["fmul"], acc["fdiv"]) + [z3.Not(inv(f2))],
                              "scaling loop breaks the finiteness invariant")
            # the step keeps the denoted value f * 10^exponent: f' = f / 1e308, exponent' = exponent + 308, and it is
            # only taken for a non-zero f with a negative exponent beyond the table
            step = z3.And(z3.Not(hit), ein < 0, z3.Not(z3.fpIsZero(fin)), e2 == ein + 308,
                          f2 == FP_UF["Div"](fin, z3.FPVal(1e308, z3.Float64())))
            res.must_be_unsat(pc + [z3.Not(step)], "scaling step does not preserve f * 10^exponent",
                              replay_candidates(res, True, TINY_CANDIDATES))
            continue
        kind, payload = K.classify_return(eng, t)
        if kind == "ok":
            seen["ok"] += 1
            v = payload.e
            collect_uf(v, acc)
            res.must_be_unsat(pc + facts + ieee_axioms(acc["fmul"], acc["fdiv"]) + [z3.Or(z3.fpIsInf(v), z3.fpIsNaN(v))],
                              "float conversion can return inf/NaN", replay_candidates(res, True, OVERFLOW_CANDIDATES))
            # the result is derived from the loop state: f (*|/) POW10[|exponent|] on a table hit, f itself (== 0) on a miss
            mag = z3.If(hit, z3.If(ein >= 0, FP_UF["Mul"](fin, tk), FP_UF["Div"](fin, tk)), fin)
            derived = z3.And(z3.If(info["pos"], v == mag, v == z3.fpNeg(mag)), z3.Or(hit, z3.fpIsZero(fin)))
            res.must_be_unsat(pc + [z3.Not(derived)], "result is not f (*|/) POW10[|exponent|] of the current loop state "
                              "(a non-zero magnitude is replaced or dropped)", replay_candidates(res, True, TINY_CANDIDATES))
            continue
        if kind == "err" and K.code_name(eng, K.err_code_index(eng, payload)) == "NumberOutOfRange":
            seen["range"] += 1
            continue
        res.violations.append({"what": "unclassified path %r" % (t,), "replayed": None})
    for k, n in seen.items():
        res.vacuity.append(("reaches " + k, n > 0))
    s_ = z3.BitVec("s", 64)
    res.must_be_unsat([z3.Not(inv(z3.fpUnsignedToFP(z3.RNE(), s_, z3.Float64())))], "u64 -> f64 not finite/non-negative")


def claim_ieee_axioms(cx, res, kf):
    """The single-operation facts used above, decided by z3 for IEEE half precision (same rounding rules)."""
    F = z3.FPSort(5, 11)
    x, y = z3.FP("x", F), z3.FP("y", F)
    fin = lambda a: z3.And(z3.Not(z3.fpIsNaN(a)), z3.Not(z3.fpIsInf(a)))  # noqa
    rm = z3.RNE()
    res.must_be_unsat([fin(x), fin(y), z3.fpIsNaN(z3.fpMul(rm, x, y))], "finite*finite is NaN")
    res.must_be_unsat([fin(x), fin(y), z3.Not(z3.fpIsNegative(x)), z3.Not(z3.fpIsNegative(y)),
                       z3.fpIsNegative(z3.fpMul(rm, x, y))], "non-negative product negative")
    q = z3.fpDiv(rm, x, y)
    res.must_be_unsat([fin(x), fin(y), z3.Not(z3.fpIsNegative(x)), z3.fpGEQ(y, z3.FPVal(1.0, F)),
                       z3.Not(z3.And(fin(q), z3.Not(z3.fpIsNegative(q))))], "x/y for x>=0, y>=1 not finite non-negative")
    res.must_be_sat([fin(x), fin(y), z3.fpIsInf(z3.fpMul(rm, x, y))], "finite product can overflow (so the is_infinite guard matters)")


def claim_f64_fast_exact(cx, res, kf):
    """sig <= 2^53, |exp| <= 22: exactly one IEEE multiplication/division of exact operands."""
    res.assumptions.append("IEEE-754: one correctly rounded mul/div of exactly represented operands is the correctly "
                           "rounded value of the exact product/quotient (axiom); POW10[k] == 10^k exactly for k <= 22 "
                           "(checked on the compiled table bits)")
    check_pow10_table(cx, res)

    def mk_args(e):
        pos, sig, ex = e.sym_bool("pos"), e.sym_int("u64", "sig"), e.sym_int("i32", "exp")
        return [pos, sig, ex], [z3.ULE(sig.e, bv(1 << 53)), ex.e >= -22, ex.e <= 22], {"pos": pos.e, "sig": sig.e, "exp": ex.e}
    eng, rd, fn, info, terms = run_scanner(cx, res, "f64_from_parts", mk_args, [], [], loop_mode="unroll", unroll=0,
                                           io=False, timeout_s=200, fp_abstract=True)
    from .symex import FP_UF
    arr, n = S.table_f64(eng, "POW10")
    sig, ex, pos = info["sig"], info["exp"], info["pos"]
    cv = z3.fpUnsignedToFP(z3.RNE(), sig, z3.Float64())
    absx = z3.If(ex < 0, -ex, ex)
    tk = z3.fpBVToFP(z3.Select(arr, z3.ZeroExt(32, absx)), z3.Float64())
    val = z3.If(ex >= 0, FP_UF["Mul"](cv, tk), FP_UF["Div"](cv, tk))

    def build(m):
        e = m.eval(ex, model_completion=True).as_signed_long()
        return ("%s%de%d" % ("" if K.mval(m, pos) else "-", K.mval(m, sig), e)).encode()
    oks = 0
    for t in terms:
        pc = list(t.state.pc)
        if t.kind == "PANIC":
            res.must_be_unsat(pc, "reachable panic")
            continue
        if t.kind == "UNROLL_LIMIT":
            res.must_be_unsat(pc, "exact region needs a second scaling iteration", literal_on_model(res, True, build))
            continue
        kind, payload = K.classify_return(eng, t)
        if kind == "ok":
            oks += 1
            v = payload.e
            res.must_be_unsat(pc + [z3.Not(z3.If(pos, v == val, v == z3.fpNeg(val)))],
                              "exact region: result is not the single IEEE op cvt(sig) (*|/) POW10[|exp|] with the sign applied",
                              literal_on_model(res, True, build))
            continue
        if kind == "err":
            # reachable only through the is_infinite guard; 2^53 * 10^22 < 2^127 is finite, so with real semantics never
            res.notes.append("range-error path in the exact region exists only behind the is_infinite guard")
            continue
        res.violations.append({"what": "unclassified path %r" % (t,), "replayed": None})
    res.vacuity.append(("exact region reaches Ok", oks >= 2))
    # 2^53 * 10^22 is far below DBL_MAX: decided with real FP semantics on the two extreme constants
    top = z3.fpMul(z3.RNE(), z3.FPVal(float(1 << 53), z3.Float64()), z3.FPVal(1e22, z3.Float64()))
    res.must_be_unsat([z3.fpIsInf(top)], "2^53*10^22 overflows")


CLAIMS += [
    Claim("c05_f64_fast_finite", "C05", "quick", claim_f64_fast_finite,
          "f64_from_parts (default build) never returns infinity or NaN: every Ok path has a finite result; the "
          "scaling loop keeps f finite and non-negative; the compiled POW10 table equals the correctly rounded powers "
          "of ten bit for bit",
          "all (sign, u64 significand, i32 exponent > i32::MIN+400); real IEEE semantics in z3", configs=("fast",), also=("C03", "C01", "C13", "C04")),
    Claim("c05_ieee_axioms", "C05", "quick", claim_ieee_axioms,
          "the IEEE single-operation facts used as axioms hold (decided at half precision)", "binary16, RNE", configs=("fast",)),
    Claim("c05_f64_fast_exact", "C05", "quick", claim_f64_fast_exact,
          "for significand <= 2^53 and |exponent| <= 22 the result is exactly one IEEE multiplication or division of "
          "the exactly converted significand by the exact table entry, sign applied, never an error",
          "all sig <= 2^53, -22 <= exp <= 22, both signs", configs=("fast",), also=("C01", "C13", "C04")),
]


# ----------------------------------------------------------------------------- f64_from_parts (build without fast-float-parsing)

def claim_f64_std(cx, res, kf):
    res.assumptions += [
        "str::parse::<f64> contract: returns Err or Ok(f) with f the correctly rounded value of the text, never NaN, "
        "and +/-infinity when the magnitude overflows (as core's dec2flt does); itoa::Buffer::format writes the "
        "decimal digits of its argument",
    ]

    def mk_args(e):
        pos, sig, ex = e.sym_bool("pos"), e.sym_int("u64", "sig"), e.sym_int("i32", "exp")
        return [pos, sig, ex], [], {"pos": pos.e, "sig": sig.e, "exp": ex.e}
    eng, rd, fn, info, terms = run_scanner(cx, res, "f64_from_parts", mk_args, [], [], loop_mode="unroll", unroll=0,
                                           io=False, timeout_s=120)
    oks = 0
    for t in terms:
        st = t.state
        pc = list(st.pc)
        if t.kind == "PANIC":
            res.must_be_unsat(pc, "reachable panic")
            continue
        kind, payload = K.classify_return(eng, t)
        sp = [e for e in st.events if e[0] == "std_parse"]
        if kind == "ok":
            oks += 1
            if len(sp) != 1 or sp[0][1] is None:
                res.violations.append({"what": "float text not built from the scratch buffer", "replayed": None})
                continue
            content, f = sp[0][1], sp[0][2]
            shape_ok = (len(content) == 3 and content[0][0] == "itoa" and content[1][0] == "byte"
                        and content[2][0] == "itoa")
            if not shape_ok:
                res.violations.append({"what": "text handed to str::parse is not <sig>e<exp>: %r" % (content,), "replayed": None})
                continue
            res.must_be_unsat(pc + [z3.Not(z3.And(content[0][1].e == info["sig"], content[1][1].e == ord("e"),
                                                  content[2][1].e == info["exp"]))],
                              "text handed to str::parse does not denote sig x 10^exp")
            v = payload.e
            res.must_be_unsat(pc + [z3.Not(z3.fpIsInf(f)), z3.Not(z3.If(info["pos"], v == f, z3.fpEQ(v, z3.fpNeg(f))))],
                              "sign not applied to the parsed magnitude")
            res.must_be_unsat(pc + [z3.Or(z3.fpIsInf(v), z3.fpIsNaN(v))], "float conversion can return inf/NaN",
                              replay_candidates(res, False, OVERFLOW_CANDIDATES))
            continue
        if kind == "err":
            continue
        res.violations.append({"what": "unclassified path %r" % (t,), "replayed": None})
    res.vacuity.append(("reaches Ok", oks >= 1))


CLAIMS += [
    Claim("c05_f64_std", "C05", "quick", claim_f64_std,
          "f64_from_parts (build without fast-float-parsing): the text given to str::parse::<f64> is exactly "
          "<significand>e<exponent>, the sign is applied to the result, and an infinite result is rejected",
          "all (sign, u64, i32)", configs=("nofast",), also=("C01", "C13", "C04")),
]


# ----------------------------------------------------------------------------- translator validation

VALIDATION_LITERALS = [b"0", b"-0", b"42", b"-17", b"#xFF", b"#b101", b"#o-17", b"#d99", b"1.5", b"-1.5e3", b"1e21", b"1E2",
                       b"18446744073709551615", b"18446744073709551616", b"-9223372036854775808",
                       b"-9223372036854775809", b"0.1", b"123456789012345678901234567890", b"#xffffffffffffffff",
                       b"1.0e-5", b"5e-324", b"12.", b"1e", b"#b12", b"1e400", b"0.000001", b"3.14159"]


def claim_translator_validation(cx, res, kf):
    """Push concrete literals through BOTH the real parser (native) and the MIR encoding; results must agree."""
    import struct
    fast = cx.fast_float
    agree = 0
    for text in VALIDATION_LITERALS:
        eng = C.make_engine(cx, [], loop_mode="unroll", unroll=64, timeout_s=60, max_steps=20000)
        rd = S.Reader(eng, with_io_errors=False)
        eng.stubs = S.reader_stubs(rd) + S.SCRATCH_STUBS + S.CORE_STUBS
        fn = C.resolve_callee(cx, "Parser::<R>::parse_number")

        def init(e, st, fr, text=text):
            ref, cons, ov = K.parser_state(cx, e, st)
            fr.locals[1] = ref
            st.notes["idx"] = bv(0)
            cons = cons + rd.base + [rd.len == len(text)]
            for i, c in enumerate(text):
                cons.append(rd.at(bv(i)) == c)
            return cons
        if not fast:
            # the std float path is a stub; give it its contract value through Python's float()
            pass
        terms = [t for t in eng.explore(fn.name, init)]
        res.absorb(eng)
        rets = [t for t in terms if t.kind == "RETURN"]
        nat = RP.single(text, "default", "slice", fast=fast)
        res.replays += 1
        if len(rets) != 1:
            res.violations.append({"what": "encoding has %d return paths for concrete %r" % (len(rets), text), "replayed": None})
            continue
        kind, payload = K.classify_return(eng, rets[0])
        enc = None
        if kind == "err":
            ci = K.err_code_index(eng, payload)
            enc = ("err", K.code_name(eng, ci))
        elif kind == "ok" and isinstance(payload, Agg):
            n = payload.fields[0]
            d = K.concrete(n.discr)
            v = n.variants[d][0]
            name = eng.enums["N"][d]
            s_ = z3.Solver()
            s_.add(*rets[0].state.pc)
            s_.check()
            mdl = s_.model()
            if name == "Float":
                if not fast:
                    enc = ("float", None)
                else:
                    enc = ("float", mdl.eval(z3.fpToIEEEBV(v.e), model_completion=True).as_long())
            else:
                iv = mdl.eval(v.e, model_completion=True).as_long()
                if name == "NegInt" and iv >= 1 << 63:
                    iv -= 1 << 64
                enc = ("int", iv)
        # native side
        if "err" in nat:
            ncode = {"invalid number": "InvalidNumber", "number out of range": "NumberOutOfRange",
                     "EOF while parsing a value": "EofWhileParsingValue"}.get(nat["err"]["code"], nat["err"]["code"])
            # a trailing-characters error from the top level means the number scanner itself accepted a prefix
            natv = ("err", ncode)
        elif nat.get("t") == "int":
            natv = ("int", int(nat["v"]))
        elif nat.get("t") == "float":
            natv = ("float", int(nat["bits"], 16) if fast else None)
        else:
            natv = ("other", nat)
        if enc == natv or (natv[0] == "err" and natv[1] in ("trailing characters",) and enc and enc[0] != "err"):
            agree += 1
        else:
            res.violations.append({"what": "encoding and real parser disagree on %r: encoding %r, native %r" % (text, enc, natv),
                                   "replayed": None})
    res.notes.append("translator validation: %d/%d literals agree between the MIR encoding and the native build" % (agree, len(VALIDATION_LITERALS)))
    res.vacuity.append(("validated literals", agree >= 10))


CLAIMS += [
    Claim("c05_translator_validation", "C05", "quick", claim_translator_validation,
          "translator validation: concrete literals (from the repository's tests and boundaries) give the same "
          "number/error through the MIR encoding (parse_number and everything below it inlined) and the native build",
          "%d concrete literals" % len(VALIDATION_LITERALS), configs=("fast",)),
]
