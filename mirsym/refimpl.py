"""Executable reference of the documented reader and printer behaviour, written from the documentation and the property
texts (not derived from the MIR).  It is NOT a deciding step: the solver decides.  It is used only to turn a solver
counterexample into a concrete native reproduction before a VIOLATION is reported (brief: "replay before reporting"):
inputs of the counterexample's domain are run through the real API (replay binary built from /repo) and compared with
this reference; a discrepancy is the reproduced witness.  Values use the JSON shape printed by the replay binary."""
import re
import struct
import unicodedata

from . import numref

WS = b" \n\t\r\x0c"
TOKEN_DELIM = WS + b"|()[]\";"                   # parse/mod.rs is_delimiter: ends a number / lone sign / lone dot
CHAR_DELIM = b"()[]\";# \n\t\r\x0c"              # parse/read.rs DELIMITER: ends a character name / #\x hex
SYMBOL_TERM = b" \n\t\r\x0c()[];"                # ends a symbol / keyword name
SYMBOL_EXTENDED = b"!$%&*./:<=>?@^_~"
SIGN_SUBSEQUENT = bytes(range(65, 91)) + bytes(range(97, 123)) + b"!$%&*/:<=>?@^_~-+@"
R6RS_STR_ESC = {ord('"'): 0x22, ord("\\"): 0x5C, ord("a"): 7, ord("b"): 8, ord("f"): 12, ord("n"): 10, ord("r"): 13,
                ord("t"): 9, ord("v"): 11, ord("|"): ord("|")}
ELISP_MNEMONIC = {ord('"'): 0x22, ord("\\"): 0x5C, ord("a"): 7, ord("b"): 8, ord("t"): 9, ord("n"): 10, ord("v"): 11,
                  ord("f"): 12, ord("r"): 13, ord("e"): 0x1B, ord("s"): 0x20, ord("d"): 0x7F}
R6RS_CHAR_NAMES = {b"nul": 0, b"alarm": 7, b"backspace": 8, b"tab": 9, b"linefeed": 10, b"newline": 10, b"vtab": 11,
                   b"page": 12, b"return": 13, b"esc": 0x1B, b"space": 0x20, b"delete": 0x7F}
HEXD = b"0123456789abcdefABCDEF"


class RErr(Exception):
    def __init__(self, cat, code=""):
        Exception.__init__(self, "%s: %s" % (cat, code))
        self.cat, self.code = cat, code


class POpts:
    """parser options; same encoding as the replay binary's option string"""
    def __init__(self, k=4, nil=1, t=1, br=0, ss=0, cs=0, rk=0, dg=0):
        self.k, self.nil, self.t, self.br, self.ss, self.cs, self.rk, self.dg = k, nil, t, br, ss, cs, rk, dg

    @staticmethod
    def default():
        return POpts()

    @staticmethod
    def elisp():
        return POpts(k=1, nil=0, t=1, br=1, ss=1, cs=1, rk=0, dg=1)

    def s(self):
        return "k=%d,nil=%d,t=%d,br=%d,ss=%d,cs=%d,rk=%d,dg=%d" % (self.k, self.nil, self.t, self.br, self.ss, self.cs, self.rk, self.dg)

    kw_prefix = property(lambda self: bool(self.k & 1))
    kw_postfix = property(lambda self: bool(self.k & 2))
    kw_octo = property(lambda self: bool(self.k & 4))


def V(t, **kw):
    d = {"t": t}
    d.update(kw)
    return d


def is_scalar(n):
    return n <= 0x10FFFF and not (0xD800 <= n <= 0xDFFF)


def utf8(n):
    return chr(n).encode("utf-8")


class Reader:
    def __init__(self, data, o):
        self.d, self.o, self.p = bytes(data), o, 0

    # ---- bytes
    def peek(self):
        return self.d[self.p] if self.p < len(self.d) else None

    def next(self):
        b = self.peek()
        if b is not None:
            self.p += 1
        return b

    def ws(self):
        while True:
            b = self.peek()
            if b is None:
                return None
            if b == ord(";"):
                while True:
                    c = self.next()
                    if c is None:
                        return None
                    if c == 10:
                        break
            elif b in WS:
                self.p += 1
            else:
                return b

    def text(self, raw, what="symbol"):
        try:
            raw.decode("utf-8")
        except UnicodeDecodeError:
            raise RErr("syntax", "invalid unicode code point")
        return raw

    def scan_symbol(self, prefix=b""):
        st = self.p
        while self.peek() is not None and self.peek() not in SYMBOL_TERM:
            self.p += 1
        name = prefix + self.d[st:self.p]
        if name == b".":
            raise RErr("syntax", "invalid symbol")
        return self.text(name)

    def name_token(self, name):
        o = self.o
        if o.kw_postfix and name.endswith(b":"):
            return V("keyword", v=name[:-1].hex())
        if o.nil != 1 and name == b"nil":
            return V("null") if o.nil == 0 else V("nil")
        if o.t == 0 and name == b"t":
            return V("bool", v=True)
        return V("symbol", v=name.hex())

    # ---- numbers
    def number_token(self, prefix):
        """prefix: the already consumed radix prefix / sign (bytes); the literal must be the whole token"""
        st = self.p
        while self.peek() is not None and self.peek() not in TOKEN_DELIM:
            self.p += 1
        body = self.d[st:self.p]
        txt = prefix + body
        r = numref.ref_number(txt)
        if r is None:
            if self.peek() is None and self.truncated_number(txt):
                raise RErr("eof", "EOF while parsing a value")
            raise RErr("syntax", "invalid number")
        if r[0] == "range":
            raise RErr("syntax", "number out of range")
        return V("num", text=txt)

    @staticmethod
    def truncated_number(txt):
        if txt == b"#":
            return True
        m = re.match(rb"^(#[bodxBODX])?([+-]?)(.*)$", txt, re.S)
        body = m.group(3)
        if body == b"":
            return True
        if m.group(1) and m.group(1)[1:2].lower() != b"d":
            return False
        return bool(re.match(rb"^[0-9]+\.$", body) or re.match(rb"^[0-9]+(\.[0-9]+)?[eE][+-]?$", body))

    # ---- strings
    def hexval(self, b):
        return int(chr(b), 16) if b in HEXD else None

    def r6rs_string(self):
        out = bytearray()
        while True:
            c = self.next()
            if c is None:
                raise RErr("eof", "EOF while parsing a string")
            if c == ord('"'):
                return V("string", v=self.text(bytes(out)).hex())
            if c != ord("\\"):
                out.append(c)
                continue
            e = self.next()
            if e is None:
                raise RErr("eof", "EOF while parsing a string")
            if e in R6RS_STR_ESC:
                out.append(R6RS_STR_ESC[e])
            elif e == ord("x"):
                n = 0
                while True:
                    h = self.next()
                    if h is None:
                        raise RErr("eof", "EOF while parsing a string")
                    if h == ord(";"):
                        break
                    hv = self.hexval(h)
                    if hv is None:
                        raise RErr("any", "bad hex escape digit")
                    if n >= (1 << 24):
                        raise RErr("syntax", "invalid unicode code point")
                    n = n * 16 + hv
                if not is_scalar(n):
                    raise RErr("syntax", "invalid unicode code point")
                out += utf8(n)
            else:
                raise RErr("syntax", "invalid escape")

    def elisp_digits(self, n, digits, base_shift):
        while self.peek() is not None and self.peek() in digits:
            if n >= (1 << 24):
                raise RErr("syntax", "invalid unicode code point")
            n = (n << base_shift) + int(chr(self.next()), 16)
        return n

    def elisp_fixed_hex(self, count, eofcode="EOF while parsing a string"):
        n = 0
        for _ in range(count):
            c = self.next()
            if c is None:
                raise RErr("eof", eofcode)
            hv = self.hexval(c)
            if hv is None:
                raise RErr("syntax", "invalid escape")
            if n >= (1 << 24):
                raise RErr("syntax", "invalid unicode code point")
            n = n * 16 + hv
        return n

    def need(self, eofcode):
        c = self.next()
        if c is None:
            raise RErr("eof", eofcode)
        return c

    def elisp_string(self):
        out = bytearray()
        ub = mb = na = False
        EOFS = "EOF while parsing a string"
        while True:
            c = self.need(EOFS)
            if c == ord('"'):
                if ub and not (mb or na):
                    return V("bytes", v=bytes(out).hex())
                return V("string", v=self.text(bytes(out)).hex())
            if c != ord("\\"):
                if c > 127:
                    na = True
                out.append(c)
                continue
            e = self.need(EOFS)
            if e == ord(" "):
                continue
            if e in ELISP_MNEMONIC:
                out.append(ELISP_MNEMONIC[e])
            elif e == ord("^"):
                k = self.need(EOFS)
                k = k + 32 if 65 <= k <= 90 else k
                if 97 <= k <= 122:
                    out.append(k - 97)
                else:
                    raise RErr("syntax", "invalid escape")
            elif e == ord("N"):
                if self.need(EOFS) != ord("{"):
                    raise RErr("syntax", "invalid escape")
                if self.need(EOFS) != ord("U") or self.need(EOFS) != ord("+"):
                    raise RErr("syntax", "invalid escape")
                n = self.elisp_digits(0, HEXD, 4)
                if not is_scalar(n):
                    raise RErr("syntax", "invalid unicode code point")
                out += utf8(n)
                mb = True
                if self.need(EOFS) != ord("}"):
                    raise RErr("syntax", "invalid escape")
            elif e in (ord("u"), ord("U")):
                n = self.elisp_fixed_hex(4 if e == ord("u") else 8)
                if not is_scalar(n):
                    raise RErr("syntax", "invalid unicode code point")
                out += utf8(n)
                mb = True
            elif e == ord("x") or ord("0") <= e <= ord("7"):
                n = self.elisp_digits(0, HEXD, 4) if e == ord("x") else self.elisp_digits(e - 48, b"01234567", 3)
                if not is_scalar(n):
                    raise RErr("syntax", "invalid unicode code point")
                if n > 255:
                    out += utf8(n)
                    mb = True
                else:
                    out.append(n)
                    ub = True
            else:
                out.append(e)

    # ---- characters
    def utf8_seq(self, initial):
        if 0xC0 <= initial <= 0xDF:
            ln = 1
        elif 0xE0 <= initial <= 0xF7:
            ln = (initial - 0xC0) >> 4
        else:
            raise RErr("syntax", "invalid unicode code point")
        raw = bytearray([initial])
        for _ in range(ln):
            b = self.next()
            if b is None:
                raise RErr("eof", "EOF while parsing a value")
            raw.append(b)
        try:
            s = bytes(raw).decode("utf-8")
        except UnicodeDecodeError:
            raise RErr("syntax", "invalid unicode code point")
        return ord(s[0])

    def r6rs_char(self):
        EOFC = "EOF while parsing a character constant"
        ini = self.need(EOFC)
        if ini == ord("x"):
            n, first = 0, True
            while self.peek() is not None and self.peek() not in CHAR_DELIM:
                h = self.next()
                first = False
                hv = self.hexval(h)
                if hv is None:
                    raise RErr("any", "bad hex digit in #\\x")
                if n >= (1 << 24):
                    raise RErr("syntax", "invalid unicode code point")
                n = n * 16 + hv
            if first:
                return V("char", v=ord("x"))
            if not is_scalar(n):
                raise RErr("syntax", "invalid unicode code point")
            return V("char", v=n)
        if ini > 0x7F:
            return V("char", v=self.utf8_seq(ini))
        if self.peek() is None or self.peek() in CHAR_DELIM:
            return V("char", v=ini)
        st = self.p
        while self.peek() is not None and self.peek() not in CHAR_DELIM:
            self.p += 1
        name = bytes([ini]) + self.d[st:self.p]
        if name in R6RS_CHAR_NAMES:
            return V("char", v=R6RS_CHAR_NAMES[name])
        if self.peek() is None and any(k.startswith(name) for k in R6RS_CHAR_NAMES):
            raise RErr("any", "truncated character name")      # known finding C19 eof-partial-char-name
        raise RErr("syntax", "invalid character constant")

    def elisp_char(self):
        EOFC = "EOF while parsing a character constant"
        ini = self.need(EOFC)
        if ini > 0x7F:
            return V("char", v=self.utf8_seq(ini))
        if ini in b"()[];":
            raise RErr("syntax", "invalid character constant")
        if ini != ord("\\"):
            return V("char", v=ini)
        e = self.need(EOFC)
        M = dict(ELISP_MNEMONIC)
        del M[ord('"')]
        if e in M:
            return V("char", v=M[e])
        if e == ord("^"):
            k = self.need(EOFC)
            k = k + 32 if 65 <= k <= 90 else k
            if 97 <= k <= 122:
                return V("char", v=k - 97)
            raise RErr("syntax", "invalid escape")
        if e == ord("N"):
            if self.need(EOFC) != ord("{"):
                raise RErr("syntax", "invalid escape")
            if self.need(EOFC) != ord("U") or self.need(EOFC) != ord("+"):
                raise RErr("syntax", "invalid escape")
            n = self.elisp_digits(0, HEXD, 4)
            if self.need("EOF while parsing a string") != ord("}"):
                raise RErr("syntax", "invalid escape")
            if not is_scalar(n):
                raise RErr("syntax", "invalid escape")
            return V("char", v=n)
        if e in (ord("u"), ord("U")):
            n = self.elisp_fixed_hex(4 if e == ord("u") else 8)
        elif e == ord("x"):
            n = self.elisp_digits(0, HEXD, 4)
        elif ord("0") <= e <= ord("7"):
            n = self.elisp_digits(e - 48, b"01234567", 3)
        elif e > 0x7F:
            return V("char", v=self.utf8_seq(e))
        else:
            return V("char", v=e)
        if not is_scalar(n):
            raise RErr("syntax", "invalid unicode code point")
        return V("char", v=n)

    # ---- data
    def expect_ident(self, ident):
        for c in ident:
            b = self.next()
            if b is None:
                raise RErr("eof", "EOF while parsing a value")
            if b != c:
                raise RErr("syntax", "expected some identifier")

    def open_depth(self, depth):
        if depth - 1 == 0:
            raise RErr("syntax", "recursion limit exceeded")
        return depth - 1

    def expect_value(self, depth):
        v = self.next_value(depth)
        if v is None:
            raise RErr("eof", "EOF while parsing a value")
        return v

    def end_seq(self, close):
        b = self.ws()
        if b is None:
            raise RErr("eof", "EOF while parsing a list")
        if b != close:
            raise RErr("syntax", "trailing characters")
        self.p += 1

    def list_body(self, close, depth):
        items, tail = [], V("null")
        while True:
            b = self.ws()
            if b is None:
                raise RErr("eof", "EOF while parsing a list")
            if b in b")]":
                if b != close:
                    raise RErr("syntax", "mismatched parenthesis")
                break
            if b == ord("."):
                nxt = self.d[self.p + 1] if self.p + 1 < len(self.d) else None
                if nxt is None or nxt == 0 or nxt in TOKEN_DELIM:
                    self.p += 1
                    if not items:
                        raise RErr("syntax", "expected some value")
                    tail = self.expect_value(depth)
                    c = self.ws()
                    if c is None:
                        raise RErr("eof", "EOF while parsing a list")
                    if c != close:
                        raise RErr("syntax", "trailing characters")
                    break
                self.p += 1
                items.append(self.dot_name(self.scan_symbol(b".")))
                continue
            items.append(self.expect_value(depth))
        if not items:
            return V("null")
        if tail.get("t") == "list":
            # a dotted proper tail is the same value as the flat spelling
            return V("list", v=items + tail["v"], tail=tail["tail"])
        return V("list", v=items, tail=tail)

    def dot_name(self, name):
        """a name that starts with `.` inside a list: read like any other name (C08: position independent)"""
        return self.name_token(name)

    def vector_body(self, close, depth):
        items = []
        while True:
            b = self.ws()
            if b is None:
                raise RErr("eof", "EOF while parsing a vector")
            if b in b")]":
                if b != close:
                    raise RErr("syntax", "mismatched parenthesis")
                return V("vector", v=items)
            items.append(self.expect_value(depth))

    def byte_list(self):
        b = self.ws()
        if b is None:
            raise RErr("eof", "EOF while parsing a list")
        if b != ord("("):
            raise RErr("syntax", "expected vector")
        self.p += 1
        out = bytearray()
        while True:
            b = self.ws()
            if b is None:
                raise RErr("eof", "EOF while parsing a list")
            if b == ord(")"):
                self.p += 1
                return V("bytes", v=bytes(out).hex())
            st = self.p
            while self.peek() is not None and self.peek() not in TOKEN_DELIM:
                self.p += 1
            txt = self.d[st:self.p]
            r = numref.ref_number(txt)
            if r is None:
                if self.peek() is None and self.truncated_number(txt):
                    raise RErr("eof", "EOF while parsing a value")
                raise RErr("syntax", "invalid number")
            if r[0] != "int" or not (0 <= r[1] <= 255):
                raise RErr("syntax", "expected octet")
            out.append(r[1])

    def quotation(self, name, depth):
        d = self.open_depth(depth)
        v = self.next_value(d)
        if v is None:
            raise RErr("eof", "EOF while parsing a list")
        return V("list", v=[V("symbol", v=name.hex()), v], tail=V("null"))

    def next_value(self, depth=128):
        o = self.o
        b = self.ws()
        if b is None:
            return None
        if b == ord("#"):
            self.p += 1
            c = self.next()
            if c is None:
                raise RErr("eof", "EOF while parsing a value")
            if c == ord("t"):
                return V("bool", v=True)
            if c == ord("f"):
                return V("bool", v=False)
            if c == ord("n"):
                self.expect_ident(b"il")
                return V("nil")
            if c == ord("("):
                d = self.open_depth(depth)
                v = self.vector_body(ord(")"), d)
                self.end_seq(ord(")"))
                return v
            if c == ord(":") and o.kw_octo:
                return V("keyword", v=self.scan_symbol().hex())
            if c == ord("v"):
                self.expect_ident(b"u8")
                return self.byte_list()
            if c == ord("u"):
                self.expect_ident(b"8")
                return self.byte_list()
            if c in b"bodx":
                return self.number_token(b"#" + bytes([c]))
            if c == ord("\\"):
                return self.r6rs_char()
            if c == ord("%") and o.rk:
                return self.name_token(self.scan_symbol(b"#%"))
            raise RErr("syntax", "expected some identifier")
        if b in b"+-":
            nxt = self.d[self.p + 1] if self.p + 1 < len(self.d) else None
            if nxt is None or nxt == 0 or nxt in TOKEN_DELIM or nxt in SIGN_SUBSEQUENT:
                self.p += 1
                return self.name_token(self.scan_symbol(bytes([b])))
            self.p += 1
            return self.number_token(bytes([b]))
        if ord("0") <= b <= ord("9"):
            if o.dg:
                name = self.scan_symbol()
                r = numref.ref_number(name)
                if r is not None and r[0] != "range":
                    return V("num", text=name)
                return self.name_token(name)
            return self.number_token(b"")
        if b == ord('"'):
            self.p += 1
            return self.r6rs_string() if o.ss == 0 else self.elisp_string()
        if b == ord("("):
            self.p += 1
            d = self.open_depth(depth)
            v = self.list_body(ord(")"), d)
            self.end_seq(ord(")"))
            return v
        if b == ord("["):
            self.p += 1
            d = self.open_depth(depth)
            v = self.vector_body(ord("]"), d) if o.br == 1 else self.list_body(ord("]"), d)
            self.end_seq(ord("]"))
            return v
        if b == ord(":"):
            if o.kw_prefix:
                self.p += 1
                return V("keyword", v=self.scan_symbol().hex())
            return self.name_token(self.scan_symbol())
        if (65 <= b <= 90) or (97 <= b <= 122):
            return self.name_token(self.scan_symbol())
        if b == ord("?") and o.cs == 1:
            self.p += 1
            return self.elisp_char()
        if b == ord("'"):
            self.p += 1
            return self.quotation(b"quote", depth)
        if b == ord("`"):
            self.p += 1
            return self.quotation(b"quasiquote", depth)
        if b == ord(","):
            self.p += 1
            if self.peek() == ord("@"):
                self.p += 1
                return self.quotation(b"unquote-splicing", depth)
            return self.quotation(b"unquote", depth)
        if b > 127:
            self.p += 1
            st = self.p - 1
            cp = self.utf8_seq(b)
            cat = unicodedata.category(chr(cp))
            if not (cat[0] == "L" or cat == "Nl"):
                raise RErr("syntax", "expected some value")
            first = self.d[st:self.p]
            return self.name_token(self.scan_symbol(first))
        if b in SYMBOL_EXTENDED:
            return self.name_token(self.scan_symbol())
        raise RErr("syntax", "expected some value")


def read_all(data, o, limit=64):
    """-> {'items': [...]} like the replay binary's `value` api (items end with {'end':True} or {'err':cat})"""
    r = Reader(data, o)
    items = []
    while len(items) < limit:
        try:
            v = r.next_value()
        except RErr as e:
            items.append({"err": e.cat, "code": e.code})
            break
        if v is None:
            items.append({"end": True})
            break
        items.append(v)
    return {"items": items}


def read_single(data, o):
    r = Reader(data, o)
    try:
        v = r.next_value()
        if v is None:
            raise RErr("eof", "EOF while parsing a value")
        if r.ws() is not None:
            raise RErr("syntax", "trailing characters")
        return v
    except RErr as e:
        return {"err": e.cat, "code": e.code}


# ----------------------------------------------------------------------------- comparison with native output

def same(ref, nat, fast=True):
    """ref: reference value / {'err': cat}; nat: JSON of the replay binary. -> (bool, why)"""
    if "crash" in nat or nat.get("panic"):
        return False, "native run crashed / panicked"
    if "err" in ref:
        if "err" not in nat:
            return False, "reference rejects (%s: %s), native accepts" % (ref["err"], ref.get("code"))
        kind = nat["err"].get("io_kind")
        if kind is not None and kind != {"eof": "UnexpectedEof", "syntax": "InvalidData"}.get(nat["err"]["cat"], kind):
            return False, "io::Error::from(error) has kind %s for a %s error (%s)" % (kind, nat["err"]["cat"], nat["err"]["code"])
        if ref["err"] != "any" and nat["err"]["cat"] != ref["err"]:
            return False, "error category: reference %s (%s), native %s (%s)" % (ref["err"], ref.get("code"), nat["err"]["cat"], nat["err"]["code"])
        return True, ""
    if "err" in nat:
        return False, "reference accepts as %s, native rejects: %s" % (ref.get("t"), nat["err"]["code"])
    if ref.get("end"):
        return bool(nat.get("end")), "end of input"
    t = ref["t"]
    if t == "num":
        ok, why = numref.compare(ref["text"], nat, fast)
        return ok, why
    if nat.get("t") != t:
        return False, "kind: reference %s, native %s" % (t, nat.get("t"))
    if t in ("nil", "null"):
        return True, ""
    if t in ("bool", "char", "string", "symbol", "keyword", "bytes"):
        return ref["v"] == nat["v"], "%s payload: reference %r, native %r" % (t, ref["v"], nat["v"])
    if t == "vector" or t == "list":
        if len(ref["v"]) != len(nat["v"]):
            return False, "%s length: reference %d, native %d" % (t, len(ref["v"]), len(nat["v"]))
        for a, b in zip(ref["v"], nat["v"]):
            ok, why = same(a, b, fast)
            if not ok:
                return ok, why
        if t == "list":
            return same(ref["tail"], nat["tail"], fast)
        return True, ""
    return False, "unknown kind %r" % t


def same_items(ref, nat, fast=True):
    if "crash" in nat or nat.get("panic"):
        return False, "native run crashed / panicked"
    ri, ni = ref["items"], nat.get("items", [])
    if len(ri) != len(ni):
        return False, "number of items: reference %d, native %d" % (len(ri), len(ni))
    for a, b in zip(ri, ni):
        ok, why = same(a, b, fast)
        if not ok:
            return ok, why
    return True, ""


# ----------------------------------------------------------------------------- reference printer

PRINT_OPTS = {"kw": ("Octothorpe", "ColonPrefix", "ColonPostfix"), "nil": ("Symbol", "Token", "EmptyList", "False"),
              "bool": ("Token", "Symbol"), "vec": ("Octothorpe", "Brackets"), "bytes": ("R6RS", "R7RS", "Elisp"),
              "str": ("R6RS", "Elisp"), "char": ("R6RS", "Elisp")}
PRINT_DEFAULT = {"kw": "Octothorpe", "nil": "Token", "bool": "Token", "vec": "Octothorpe", "bytes": "R7RS", "str": "R6RS", "char": "R6RS"}
PRINT_ELISP = {"kw": "ColonPrefix", "nil": "Symbol", "bool": "Symbol", "vec": "Brackets", "bytes": "Elisp", "str": "Elisp", "char": "Elisp"}
STR_MNEMONIC = {0x22: b'\\"', 0x5C: b"\\\\", 7: b"\\a", 8: b"\\b", 9: b"\\t", 10: b"\\n", 13: b"\\r"}
ELISP_CHAR_ESC = b"()[]\\;|'`#.,"


def popts_str(po):
    return ",".join("%s=%s" % (k, po[k]) for k in ("kw", "nil", "bool", "vec", "bytes", "str", "char"))


def all_print_opts():
    import itertools
    keys = list(PRINT_OPTS)
    for combo in itertools.product(*[PRINT_OPTS[k] for k in keys]):
        yield dict(zip(keys, combo))


class InvalidCombination(Exception):
    pass


def shortest_float_text(bits_hex):
    """the documented float text: shortest digits that read back as the same double, laid out as the ryu crate's `pretty`
    printer does (plain decimal notation with a fraction for decimal exponents -5 < e <= 16, else d[.ddd]e[-]x)"""
    import struct
    x = struct.unpack(">d", bytes.fromhex("%016x" % int(bits_hex, 16)))[0]
    sign = "-" if (int(bits_hex, 16) >> 63) else ""
    x = abs(x)
    if x == 0.0:
        return sign + "0.0"
    r = repr(x)
    mant, _, ex = r.partition("e")
    ip, _, fp = mant.partition(".")
    digits = (ip + fp).lstrip("0")
    e10 = (int(ex) if ex else 0) - len(fp)          # value = int(ip+fp) * 10^e10
    stripped = digits.rstrip("0")
    e10 += len(digits) - len(stripped)
    digits = stripped
    n, k = len(digits), e10
    kk = n + k
    if 0 <= k and kk <= 16:
        return sign + digits + "0" * k + ".0"
    if 0 < kk <= 16:
        return sign + digits[:kk] + "." + digits[kk:]
    if -5 < kk <= 0:
        return sign + "0." + "0" * (-kk) + digits
    if n == 1:
        return sign + digits + "e" + str(kk - 1)
    return sign + digits[0] + "." + digits[1:] + "e" + str(kk - 1)


def ref_print(v, po):
    """documented text of value `v` (replay JSON shape; numbers: {'t':'int','v':str}) under printer options po"""
    t = v["t"]
    if t == "nil":
        ns = po["nil"]
        if ns == "Token":
            return b"#nil"
        if ns == "Symbol":
            return b"nil"
        if ns == "EmptyList":
            return b"()"
        return ref_print(V("bool", v=False), po)
    if t == "null":
        return b"()"
    if t == "bool":
        if po["bool"] == "Symbol":
            return b"t" if v["v"] else b"nil"
        return b"#t" if v["v"] else b"#f"
    if t == "int":
        return str(int(v["v"])).encode()
    if t == "float":
        return shortest_float_text(v["bits"]).encode()
    if t == "symbol":
        return bytes.fromhex(v["v"])
    if t == "keyword":
        n = bytes.fromhex(v["v"])
        return {"Octothorpe": b"#:" + n, "ColonPrefix": b":" + n, "ColonPostfix": n + b":"}[po["kw"]]
    if t == "string":
        out = bytearray(b'"')
        for b in bytes.fromhex(v["v"]):
            if b in STR_MNEMONIC:
                out += STR_MNEMONIC[b]
            elif b < 0x20 or b == 0x7F:
                out += (b"\\x%02X;" % b) if po["str"] == "R6RS" else (b"\\u00%02X" % b)
            else:
                out.append(b)
        return bytes(out + b'"')
    if t == "char":
        n = v["v"]
        if po["char"] == "R6RS":
            return b"#\\" + bytes([n]) if 32 <= n < 127 else b"#\\x%x" % n
        if 32 <= n < 127:
            return (b"?\\" if n in ELISP_CHAR_ESC else b"?") + bytes([n])
        return b"?\\x%x" % n
    if t == "bytes":
        bs = bytes.fromhex(v["v"])
        if po["bytes"] == "Elisp":
            return b'"' + b"".join(b"\\%03o" % b for b in bs) + b'"'
        body = b" ".join(str(b).encode() for b in bs)
        if po["vec"] == "Brackets":
            return b"[" + body + b"]"
        return (b"#vu8(" if po["bytes"] == "R6RS" else b"#u8(") + body + b")"
    if t == "vector":
        body = b" ".join(ref_print(e, po) for e in v["v"])
        return (b"[" + body + b"]") if po["vec"] == "Brackets" else (b"#(" + body + b")")
    if t == "list":
        parts = [ref_print(e, po) for e in v["v"]]
        if v["tail"]["t"] != "null":
            parts += [b".", ref_print(v["tail"], po)]
        return b"(" + b" ".join(parts) + b")"
    raise ValueError(t)


def desc(v):
    """descriptor understood by the replay binary's printbatch"""
    t = v["t"]
    if t == "nil":
        return "N"
    if t == "null":
        return "U"
    if t == "bool":
        return "T" if v["v"] else "F"
    if t == "int":
        return "I:%d" % int(v["v"])
    if t == "float":
        return "D:%s" % v["bits"]
    if t == "string":
        return "S:" + v["v"]
    if t == "char":
        return "C:%d" % v["v"]
    if t == "symbol":
        return "Y:" + v["v"]
    if t == "keyword":
        return "K:" + v["v"]
    if t == "bytes":
        return "B:" + v["v"]
    if t == "vector":
        return " ".join(["V%d" % len(v["v"])] + [desc(e) for e in v["v"]])
    if t == "list":
        return " ".join(["L%d" % len(v["v"])] + [desc(e) for e in v["v"]] + [desc(v["tail"])])
    raise ValueError(t)


def S(s):
    return V("string", v=(s if isinstance(s, bytes) else s.encode("utf-8")).hex())


def Y(s):
    return V("symbol", v=(s if isinstance(s, bytes) else s.encode("utf-8")).hex())


def KW(s):
    return V("keyword", v=s.encode("utf-8").hex())


def I(n):
    return V("int", v=str(n))


def L(*items, tail=None):
    return V("list", v=list(items), tail=tail or V("null"))


def print_corpus():
    """leaf values of every kind over the byte / code point ranges the escapes distinguish, plus structure"""
    out = [V("nil"), V("null"), V("bool", v=True), V("bool", v=False), I(0), I(-1), I(2 ** 64 - 1), I(-2 ** 63), I(1234567890123)]
    for b in range(0, 256):
        out.append(S(chr(b)))
    out += [S(""), S("a\"b\\c"), S("λ\x7f\x00€"), S("tab\there\r\n\x07\x08\x0b\x0c\x1b"), S("\U0001F600 x")]
    for c in list(range(0, 0x180)) + [0x3BB, 0x7FF, 0x800, 0xD7FF, 0xE000, 0xFFFD, 0xFFFF, 0x10000, 0x1F600, 0x10FFFF]:
        out.append(V("char", v=c))
    out += [Y("foo"), Y("+"), Y("..."), Y("λx"), KW("kw"), KW("a-b"), KW("λ")]
    out += [V("bytes", v=""), V("bytes", v=bytes(range(256)).hex()), V("bytes", v="00077fff80"), V("bytes", v="414243")]
    import struct
    for x in (0.0, -0.0, 1.5, -2.25, 0.1, 1e15, 1e16, -1e16, 1e17, 1.2e17, 1e21, -1e21, 1e22, 1.5e300, 1e-5, 1.5e-5, 1e-6, 1e-7, -2e-7, 1.25e-7, 5e-324,
              1.7976931348623157e308, 2.2250738585072014e-308, 123456.789, 1234567890123456.0, 12345678901234567.0, 0.001, 100.0, 1e100, 3.0e-310):
        out.append(V("float", bits="%016x" % struct.unpack(">Q", struct.pack(">d", x))[0]))
    out += [L(I(1), I(2)), L(I(1), tail=I(2)), L(V("nil"), V("null"), V("bool", v=False)), L(L(I(1)), L()),
            V("vector", v=[]), V("vector", v=[I(1), S("a"), V("char", v=0x62)]),
            V("vector", v=[V("vector", v=[I(1)]), L(I(2), tail=Y("t")), V("bytes", v="09")]),
            L(Y("a"), tail=V("vector", v=[I(2)])), L(Y("a"), V("nil"), tail=V("nil")), L(Y("quote"), Y("x")),
            L(KW("k"), S("s\n"), V("char", v=0x28), V("bytes", v="01ff"), tail=V("bool", v=True))]
    return out
