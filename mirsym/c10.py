"""C10 (accessor clause): walking a datum with its list accessor exposes exactly the structure the value's own accessors
expose.  E2 over <datum::ListIter as Iterator>::next as one step of a state machine, from an ARBITRARY cursor state over
an abstract cell (arbitrary car / cdr kinds) whose span information has the shape the builders establish (claims
c10_builder_lockstep / c10_top_lockstep: a SpanInfo::Cons exactly where the value is a pair), and Ref::list_iter."""
import re

import z3

from . import common as K
from . import ctx as C
from . import replay as RP
from . import stubs as S
from .claims import Claim
from .serde import sym_value
from .symex import Agg, Blob, BoolV, EnumV, Int, Opaque, Ref, UnitV, Unsupported


def bv(v, w=64):
    return z3.BitVecVal(v, w)


def shape_of_value(v):
    t = v.get("t")
    if t == "null":
        return ["L"]
    if t == "list":
        return ["L"] + [shape_of_value(x) for x in v["v"]] + ([["."], shape_of_value(v["tail"])] if v["tail"].get("t") != "null" else [])
    if t == "vector":
        return ["V"] + [shape_of_value(x) for x in v["v"]]
    return "a"


def shape_of_spans(sp):
    if "list" in sp:
        out = ["L"]
        for c in sp["list"]:
            if "dot" in c:
                out += [["."], shape_of_spans(c["dot"])]
            else:
                out.append(shape_of_spans(c))
        return out
    if "vec" in sp:
        return ["V"] + [shape_of_spans(c) for c in sp["vec"]]
    return "a"


WALK_CORPUS = [b"#nil", b"(a #nil . b)", b"#(#nil ())", b"'#nil", b"(a b . #nil)", b"(a . #nil)", b"(a . b)", b"(a b)", b"((a . #nil) . #nil)", b"(a . #(1 (2 . #nil)))", b"(a . \"s\")", b"(#nil . #nil)",
               b"(a (b . #nil) c)", b"'(a . #nil)", b"(a . #t)", b"(a . #f)", b"(a . 1)", b"(a . #\\x)", b"(a . #:k)", b"(a . #u8(1))", b"()", b"(())", b"(a . ())"]


def walk_replay(res):
    def f(m=None):
        for text in WALK_CORPUS:
            for src in ("slice", "reader"):
                sp = RP.parse(text, "default", src, "spans")
                va = RP.parse(text, "default", src, "value")
                res.replays += 2
                spans = [s for s in sp.get("spans", []) if "s" in s]
                items = [v for v in va.get("items", []) if "t" in v]
                a, b = [shape_of_spans(s) for s in spans], [shape_of_value(v) for v in items]
                if a != b:
                    return {"replayed": True, "observed": {"datum_walk": a, "value_walk": b, "input": text.decode("latin-1")},
                            "witness": {"kind": "parse", "input_hex": text.hex(), "opts": "default", "src": src, "api": "spans", "fast": True}}
        return {"replayed": False}
    return f


def claim_datum_list_iter(cx, res, kf):
    VAL = cx.enums["Value"]
    LC = cx.enums["ListCursor"]
    SI = cx.enums["SpanInfo"]
    onm = walk_replay(res)
    fn = None
    for name, f in cx.fns.items():
        if "lexpr/src/datum.rs" in name and name.endswith("::next") and "ListIter" in f.local_ty.get(f.args[0], ""):
            fn = f
    if fn is None:
        res.error = "datum::ListIter::next not found"
        return
    eng = C.make_engine(cx, [], loop_mode="cut", timeout_s=120, max_paths=5000)
    info = {}

    def unref(st, v):
        while isinstance(v, Ref):
            v = eng.load(st, v.addr)
        return v

    def mk_meta(st, label, depth):
        """[SpanInfo; 2] for a cell: car meta arbitrary, cdr meta arbitrary (its Cons payload leads to a further array)"""
        def mk_info(lab, d):
            disc = z3.BitVec("%s_kind" % lab, 64)
            c = z3.ULT(disc, bv(len(SI)))
            eng.solver.add(c)
            st.pc.append(c)
            nxt = Agg("array", "[SpanInfo; 2]", [Blob(lab + "_n0"), Blob(lab + "_n1")]) if d <= 0 else mk_meta(st, lab + "_next", d - 1)
            box = Agg("struct", "Box", [Agg("struct", "Unique", [Ref(("V", nxt))]), UnitV()])
            return EnumV("SpanInfo", disc, {SI.index("Prim"): [Blob(lab + "_span")], SI.index("Cons"): [Blob(lab + "_span"), box],
                                            SI.index("Vec"): [Blob(lab + "_span"), Blob(lab + "_elems")]}), nxt
        car_i, _ = mk_info(label + "_carmeta", 0)
        cdr_i, nxt = mk_info(label + "_cdrmeta", depth)
        arr = Agg("array", "[SpanInfo; 2]", [car_i, cdr_i])
        info.setdefault("next_meta", {})[label] = nxt
        return arr

    def h_carcdr(engine, st, fr, callee, argv, m):
        c = unref(st, argv[0])
        if not isinstance(c, Opaque):
            return Ref(("V", Blob("field")))
        return Ref(("V", c.attrs[m.group(1)]))

    def h_as_cons(engine, st, fr, callee, argv, m):
        v = unref(st, argv[0])
        if not isinstance(v, EnumV):
            return S.mk_option(z3.Bool("ascons_%d" % next(engine.fresh)), Ref(("V", Blob("cell"))))
        pay = v.variants.get(VAL.index("Cons"), [Blob("cell")])[0]
        return S.mk_option(v.discr == VAL.index("Cons"), Ref(("V", pay)))
    eng.stubs = [(re.compile(r"^Cons::(car|cdr)$"), h_carcdr), (re.compile(r"^Value::as_cons$"), h_as_cons)] + S.COMBINATOR_STUBS + S.CORE_STUBS

    def init(e, st, fr):
        car = sym_value(cx, e, st, "car", 0)
        cdr = sym_value(cx, e, st, "cdr", 0)
        nxt_cell = Opaque("Cons", "next_cell", {"car": Blob("ncar"), "cdr": Blob("ncdr")})
        cdr.variants[VAL.index("Cons")] = [nxt_cell]
        cell = Opaque("Cons", "cell", {"car": car, "cdr": cdr})
        meta = mk_meta(st, "m", 1)
        rest_v, rest_i = Blob("rest_value"), Blob("rest_info")
        d = z3.BitVec("cursor_kind", 64)
        cur = EnumV("ListCursor", d, {LC.index("Cons"): [Ref(("V", cell)), Ref(("V", meta))],
                                      LC.index("Dot"): [Ref(("V", rest_v)), Ref(("V", rest_i))],
                                      LC.index("Rest"): [Ref(("V", rest_v)), Ref(("V", rest_i))], LC.index("Exhausted"): []})
        st.heap["it"] = Agg("struct", "ListIter", [cur])
        fr.locals[fn.args[0]] = Ref(("H", "it"))
        cdr_meta = meta.fields[1]
        info.update(cell=cell, car=car, cdr=cdr, meta=meta, d=d, rest_v=rest_v, rest_i=rest_i, next_cell=nxt_cell, cdr_meta=cdr_meta)
        # shape invariant of the builders: span information is a Cons node exactly where the value is a pair
        inv = z3.And((cdr_meta.discr == SI.index("Cons")) == (cdr.discr == VAL.index("Cons")),
                     (cdr_meta.discr == SI.index("Vec")) == (cdr.discr == VAL.index("Vector")))
        info["inv"] = inv
        return [z3.ULT(d, bv(len(LC))), inv]
    terms = eng.explore(fn.name, init)
    res.absorb(eng)
    res.assumptions.append("span information has a SpanInfo::Cons node exactly where the value is a pair and a SpanInfo::Vec node exactly where it is a vector (the shape the builders and Datum constructors establish: c10_builder_lockstep, c11_span_points)")
    seen = {k: 0 for k in LC}

    def points_to(st, ref, obj):
        try:
            return isinstance(ref, Ref) and eng.load(st, ref.addr) is obj
        except Exception:  # noqa
            return False

    for t in terms:
        st = t.state
        pc = list(st.pc)
        if t.kind == "PANIC":
            res.must_be_unsat(pc, "datum ListIter::next: reachable panic `%s` on well-shaped span information" % t.info.get("msg"), onm)
            continue
        if t.kind != "RETURN":
            continue
        d0 = K.concrete(z3.simplify(z3.substitute(info["d"], *[])))
        # which start state does this path belong to?
        for si, sname in enumerate(LC):
            r, _ = res.solve(pc + [info["d"] == si])
            if r != z3.sat:
                continue
            seen[sname] += 1
            ret = t.value
            cur = st.heap["it"].fields[0]
            here = pc + [info["d"] == si]
            if sname == "Exhausted":
                res.must_be_unsat(here + [z3.Not(z3.And(ret.discr == 0, cur.discr == LC.index("Exhausted")))], "an exhausted datum list iterator yields something / revives", onm)
            elif sname == "Dot":
                ok = z3.And(ret.discr == 0, cur.discr == LC.index("Rest"))
                res.must_be_unsat(here + [z3.Not(ok)], "after the last element of an improper list the datum iterator does not pause with None before the tail", onm)
                pay = cur.variants.get(LC.index("Rest"), [None, None])
                if not (points_to(st, pay[0], info["rest_v"]) and points_to(st, pay[1], info["rest_i"])):
                    res.must_be_unsat(here, "the tail handed on after the dot is not the list's tail / its span information", onm)
            elif sname == "Rest":
                ok = z3.And(ret.discr == 1, cur.discr == LC.index("Exhausted"))
                res.must_be_unsat(here + [z3.Not(ok)], "the tail of an improper list is not yielded exactly once as the final element", onm)
                rv = ret.variants.get(1, [None])[0]
                if not (isinstance(rv, Agg) and points_to(st, rv.fields[0], info["rest_v"]) and points_to(st, rv.fields[1], info["rest_i"])):
                    res.must_be_unsat(here, "the yielded tail is not the list's tail with its own span information", onm)
            else:
                # Cons: yields the car with the car's span information; the next state follows the cdr kind
                res.must_be_unsat(here + [ret.discr != 1], "a list element is not yielded", onm)
                rv = ret.variants.get(1, [None])[0]
                if not (isinstance(rv, Agg) and points_to(st, rv.fields[0], info["car"]) and points_to(st, rv.fields[1], info["meta"].fields[0])):
                    res.must_be_unsat(here, "the yielded element is not the cell's car with the car's span information", onm)
                cdr = info["cdr"]
                is_pair, is_null = cdr.discr == VAL.index("Cons"), cdr.discr == VAL.index("Null")
                want = z3.If(is_pair, cur.discr == LC.index("Cons"), z3.If(is_null, cur.discr == LC.index("Exhausted"), cur.discr == LC.index("Dot")))
                res.must_be_unsat(here + [z3.Not(want)],
                                  "after an element the datum iterator's next state does not follow the cdr the way the value's own accessors do "
                                  "(pair: next cell; empty list: end; anything else, including #nil: a dotted tail)", onm)
                cd = K.concrete(cur.discr)
                if cd == LC.index("Cons"):
                    pay = cur.variants[cd]
                    nm = info["next_meta"].get("m")
                    if not (points_to(st, pay[0], info["next_cell"]) and points_to(st, pay[1], nm)):
                        res.must_be_unsat(here, "the iterator does not advance to the cdr's cell with that cell's span information", onm)
                elif cd == LC.index("Dot"):
                    pay = cur.variants[cd]
                    if not (points_to(st, pay[0], cdr) and points_to(st, pay[1], info["cdr_meta"])):
                        res.must_be_unsat(here, "the dotted tail recorded is not the cell's cdr with the cdr's span information", onm)
    for k, n in seen.items():
        res.vacuity.append(("ListIter::next from state %s" % k, n > 0))


def claim_datum_list_iter_peek(cx, res, kf):
    """datum::ListIter::peek / is_empty from any of the 4 cursor states: peek is what next would yield WITHOUT advancing - the car
    with the car's span information at a cell, None at the dot marker, the tail with its information after the marker, None when
    exhausted; is_empty exactly when exhausted."""
    VAL = cx.enums["Value"]
    LC = cx.enums["ListCursor"]
    onm = walk_replay(res)

    def find(name):
        for n, f in cx.fns.items():
            if "lexpr/src/datum.rs" in n and n.endswith("::" + name) and "ListIter" in f.local_ty.get(f.args[0], ""):
                return n, f
        return None, None
    for name in ("peek", "is_empty"):
        key, fn = find(name)
        if fn is None:
            res.error = "datum::ListIter::%s not found" % name
            return
        eng = C.make_engine(cx, [], loop_mode="cut", timeout_s=60, max_paths=500)
        info = {}

        def h_car(e, st, fr, callee, argv, m):
            return Ref(("V", Opaque("Value", "the %s of the cell" % m.group(1))))
        eng.stubs = [(re.compile(r"^Cons::(car|cdr)$"), h_car)] + S.COMBINATOR_STUBS + S.CORE_STUBS

        def init(e, st, fr, fn=fn):
            st.heap["meta"] = Agg("array", "[SpanInfo; 2]", [Opaque("SpanInfo", "slot 0"), Opaque("SpanInfo", "slot 1")])
            d = z3.BitVec("cursor_kind", 64)
            cur = EnumV("ListCursor", d, {LC.index("Cons"): [Ref(("V", Opaque("Cons", "the cell"))), Ref(("H", "meta"))],
                                          LC.index("Dot"): [Ref(("V", Opaque("Value", "the tail"))), Ref(("V", Opaque("SpanInfo", "tail info")))],
                                          LC.index("Rest"): [Ref(("V", Opaque("Value", "the tail"))), Ref(("V", Opaque("SpanInfo", "tail info")))],
                                          LC.index("Exhausted"): []})
            st.heap["it"] = Agg("struct", "ListIter", [cur])
            fr.locals[fn.args[0]] = Ref(("H", "it"))
            info["d"] = d
            return [z3.ULT(d, bv(len(LC)))]
        try:
            terms = eng.explore(key, init)
        except Unsupported as e:
            res.error = "unsupported: datum::ListIter::%s: %s" % (name, e)
            return
        res.absorb(eng)
        d = info["d"]
        n_paths = 0

        def lab(st, x):
            while isinstance(x, Ref):
                x = eng.load(st, x.addr)
            return getattr(x, "label", repr(x))
        for t in terms:
            pc = list(t.state.pc)
            if t.kind != "RETURN":
                res.must_be_unsat(pc, "datum::ListIter::%s: ends in %s" % (name, t.kind), onm)
                continue
            it_after = t.state.heap.get("it")
            cur_after = it_after.fields[0] if isinstance(it_after, Agg) else None
            if not (isinstance(cur_after, EnumV) and z3.eq(z3.simplify(cur_after.discr), z3.simplify(d))):
                res.must_be_unsat(pc, "datum::ListIter::%s moves the cursor" % name, onm)
            n_paths += 1
            if name == "is_empty":
                rv = t.value
                res.must_be_unsat(pc + [rv.e != (d == LC.index("Exhausted"))], "datum::ListIter::is_empty is not `exhausted`", onm)
                continue
            rv = t.value
            dd = K.concrete(rv.discr) if isinstance(rv, EnumV) else None
            if dd is None:
                res.must_be_unsat(pc, "datum::ListIter::peek returns %r" % (rv,), onm)
                continue
            if dd == 0:
                res.must_be_unsat(pc + [z3.Not(z3.Or(d == LC.index("Dot"), d == LC.index("Exhausted")))],
                                  "datum::ListIter::peek is None although an element / the tail is next", onm)
            else:
                r = rv.variants[1][0]
                got = (lab(t.state, r.fields[0]), lab(t.state, r.fields[1])) if isinstance(r, Agg) and len(r.fields) == 2 else (repr(r), "")
                at_cell = got == ("the car of the cell", "slot 0")
                at_rest = got == ("the tail", "tail info")
                if not (at_cell or at_rest):
                    res.must_be_unsat(pc, "datum::ListIter::peek yields %r" % (got,), onm)
                elif at_cell:
                    res.must_be_unsat(pc + [d != LC.index("Cons")], "datum::ListIter::peek yields a car although the cursor is not at a cell", onm)
                else:
                    res.must_be_unsat(pc + [d != LC.index("Rest")], "datum::ListIter::peek yields the tail at the dot marker (next() yields None there first) "
                                      "or in another state", onm)
        res.vacuity.append(("datum::ListIter::%s paths" % name, n_paths >= (4 if name == "peek" else 2)))


def claim_ref_list_iter(cx, res, kf):
    """Ref::list_iter (and Datum::list_iter through it): an iterator exactly for pairs and the empty list - what
    Value::list_iter answers for the same value - and None for everything else (#nil, atoms, vectors)."""
    SI = cx.enums["SpanInfo"]
    VAL = cx.enums["Value"]
    LC = cx.enums["ListCursor"]
    onm = walk_replay(res)
    fn = None
    for n, f in cx.fns.items():
        if "lexpr/src/datum.rs" in n and n.endswith("::list_iter") and "Ref" in f.local_ty.get(f.args[0], ""):
            fn = f
    if fn is None:
        res.error = "Ref::list_iter not found"
        return
    eng = C.make_engine(cx, [], loop_mode="cut", timeout_s=60, max_paths=2000)
    eng.stubs = S.COMBINATOR_STUBS + S.CORE_STUBS
    info = {}

    def init(e, st, fr):
        v = sym_value(cx, e, st, "v", 0)
        v.variants[VAL.index("Cons")] = [Opaque("Cons", "the cell", {})]
        kd = z3.BitVec("info_kind", 64)
        st.heap["metaarr"] = Agg("array", "[SpanInfo; 2]", [Blob("car info"), Blob("cdr info")])
        box = Agg("struct", "Box", [Agg("struct", "Unique", [Ref(("H", "metaarr"))]), UnitV()])
        inf = EnumV("SpanInfo", kd, {SI.index("Prim"): [Blob("span")], SI.index("Cons"): [Blob("span"), box], SI.index("Vec"): [Blob("span"), Blob("els")]})
        st.heap["ref"] = Agg("struct", "Ref", [Ref(("V", v)), Ref(("V", inf))])
        fr.locals[fn.args[0]] = Ref(("H", "ref"))
        info.update(v=v, kd=kd)
        # shape established by the constructors (c10_datum_constructors): list node exactly for pairs
        return [z3.ULT(kd, bv(len(SI))), (kd == SI.index("Cons")) == (v.discr == VAL.index("Cons")), (kd == SI.index("Vec")) == (v.discr == VAL.index("Vector"))]
    terms = eng.explore(fn.name, init)
    res.absorb(eng)
    n = {"some": 0, "none": 0}
    v = info["v"]
    is_pair, is_null = v.discr == VAL.index("Cons"), v.discr == VAL.index("Null")
    for t in terms:
        pc = list(t.state.pc)
        if t.kind == "PANIC":
            res.must_be_unsat(pc, "Ref::list_iter: reachable panic", onm)
            continue
        if t.kind != "RETURN" or not isinstance(t.value, EnumV):
            continue
        d = K.concrete(t.value.discr)
        if d == 1:
            n["some"] += 1
            res.must_be_unsat(pc + [z3.Not(z3.Or(is_pair, is_null))], "the datum list accessor offers an iterator for a value that is neither a pair nor the "
                              "empty list (the value's own list_iter says it is not a list)", onm)
            it = t.value.variants[1][0]
            cur = it.fields[0] if isinstance(it, Agg) else None
            if isinstance(cur, EnumV):
                cd = K.concrete(cur.discr)
                if cd is not None:
                    res.must_be_unsat(pc + [z3.Not(z3.If(is_pair, z3.BoolVal(LC[cd] == "Cons"), z3.BoolVal(LC[cd] == "Exhausted")))],
                                      "the datum list iterator does not start at the pair / is not empty for the empty list", onm)
        elif d == 0:
            n["none"] += 1
            res.must_be_unsat(pc + [z3.Or(is_pair, is_null)], "the datum list accessor refuses a pair / the empty list", onm)
    for k, c in n.items():
        res.vacuity.append(("Ref::list_iter returns %s" % k, c > 0))


def claim_ref_pair_vector(cx, res, kf):
    """Ref::as_pair / Ref::vector_iter: the two fields of a pair each with ITS span information (car with slot 0, cdr with slot 1);
    an iterator pairing the elements with the element span information, in order, exactly for vectors; None for every other
    value; no panic on span information shaped as the constructors shape it."""
    SI = cx.enums["SpanInfo"]
    VAL = cx.enums["Value"]
    onm = walk_replay(res)
    from . import confirm as CF
    onm2 = CF.confirm(("spans",), res)

    def both(m=None):
        r = onm(m)
        return r if r.get("replayed") else onm2(m)

    def find(name):
        for n, f in cx.fns.items():
            if "lexpr/src/datum.rs" in n and n.endswith("::" + name) and "Ref" in f.local_ty.get(f.args[0], ""):
                return f
        return None
    for name in ("as_pair", "vector_iter"):
        fn = find(name)
        if fn is None:
            res.error = "Ref::%s not found" % name
            return
        eng = C.make_engine(cx, [], loop_mode="cut", timeout_s=60, max_paths=2000)
        info = {}

        def h_value_as_pair(e, st, fr, callee, argv, m):
            v = argv[0]
            while isinstance(v, Ref):
                v = e.load(st, v.addr)
            st.events.append(("value.as_pair",))
            is_pair = v.discr == VAL.index("Cons")
            return EnumV("Option", z3.If(is_pair, bv(1), bv(0)), {1: [Agg("tuple", None, [Ref(("V", Opaque("Value", "the car"))), Ref(("V", Opaque("Value", "the cdr")))])], 0: []})

        def h_len(e, st, fr, callee, argv, m):
            return Int(info["meta_len"], "usize")

        def h_index(e, st, fr, callee, argv, m):
            i = argv[1]
            c = K.concrete(i.e) if isinstance(i, Int) else None
            st.events.append(("meta_index", c))
            return Ref(("V", Opaque("SpanInfo", "slot %r" % (c,))))

        def h_ref_new(e, st, fr, callee, argv, m):
            def lab(x):
                while isinstance(x, Ref):
                    x = e.load(st, x.addr)
                return getattr(x, "label", repr(x))
            st.events.append(("ref_new", lab(argv[0]), lab(argv[1])))
            return Opaque("Ref", "ref(%s | %s)" % (lab(argv[0]), lab(argv[1])))

        def h_iter(e, st, fr, callee, argv, m):
            x = argv[0]
            while isinstance(x, Ref):
                x = e.load(st, x.addr)
            return Opaque("Iter", "iter over %s" % getattr(x, "label", repr(x)))

        def h_zip(e, st, fr, callee, argv, m):
            def lab(x):
                while isinstance(x, Ref):
                    x = e.load(st, x.addr)
                return getattr(x, "label", repr(x))
            st.events.append(("zip", lab(argv[0]), lab(argv[1])))
            return Opaque("Zip", "zip")
        eng.stubs = [(re.compile(r"^Value::as_pair$"), h_value_as_pair),
                     (re.compile(r"^(?:core::slice::<impl \[SpanInfo\]>|<\[SpanInfo\]>)::len$|^<Box<\[SpanInfo; 2\]> as Deref>::deref$"), h_len),
                     (re.compile(r"^(?:datum::)?Ref::(?:<'_>::)?new$"), h_ref_new),
                     (re.compile(r"^core::slice::<impl \[Value\]>::iter$"), h_iter),
                     (re.compile(r"^<std::slice::Iter<'_, Value> as Iterator>::zip::<"), h_zip),
                     ] + S.COMBINATOR_STUBS + S.CORE_STUBS

        def init(e, st, fr):
            v = sym_value(cx, e, st, "v", 0)
            v.variants[VAL.index("Cons")] = [Opaque("Cons", "the cell", {})]
            st.heap["elems"] = Opaque("[Value]", "the elements", {})
            v.variants[VAL.index("Vector")] = [Agg("struct", "Box", [Agg("struct", "Unique", [Ref(("H", "elems"))]), UnitV()])]
            kd = z3.BitVec("info_kind", 64)
            st.heap["metaarr"] = Agg("array", "[SpanInfo; 2]", [Opaque("SpanInfo", "slot 0"), Opaque("SpanInfo", "slot 1")])
            box = Agg("struct", "Box", [Agg("struct", "Unique", [Ref(("H", "metaarr"))]), UnitV()])
            inf = EnumV("SpanInfo", kd, {SI.index("Prim"): [Blob("span")], SI.index("Cons"): [Blob("span"), box],
                                         SI.index("Vec"): [Blob("span"), Opaque("Vec<SpanInfo>", "element infos", {})]})
            st.heap["ref"] = Agg("struct", "Ref", [Ref(("V", v)), Ref(("V", inf))])
            fr.locals[fn.args[0]] = Ref(("H", "ref"))
            info.update(v=v, kd=kd, meta_len=bv(2))
            return [z3.ULT(kd, bv(len(SI))), (kd == SI.index("Cons")) == (v.discr == VAL.index("Cons")), (kd == SI.index("Vec")) == (v.discr == VAL.index("Vector"))]
        try:
            terms = eng.explore(fn.name, init)
        except Unsupported as e:
            res.error = "unsupported: Ref::%s: %s" % (name, e)
            return
        res.absorb(eng)
        v = info["v"]
        want = v.discr == VAL.index("Cons" if name == "as_pair" else "Vector")
        n = {"some": 0, "none": 0}
        for t in terms:
            pc = list(t.state.pc)
            if t.kind == "PANIC":
                res.must_be_unsat(pc, "Ref::%s: reachable panic `%s` on span information of the constructors' shape" % (name, t.info.get("msg")), both)
                continue
            if t.kind != "RETURN" or not isinstance(t.value, EnumV):
                res.must_be_unsat(pc, "Ref::%s: ends in %s" % (name, t.kind), both)
                continue
            d = K.concrete(t.value.discr)
            if d is None:
                r1, _ = res.solve(pc + [t.value.discr == 1, z3.Not(want)])
                r0, _ = res.solve(pc + [t.value.discr != 1, want])
                if r1 == z3.sat or r0 == z3.sat:
                    res.must_be_unsat(pc + [(t.value.discr == 1) != want], "Ref::%s answers Some / None for the wrong kind of value" % name, both)
                continue
            if d == 1:
                n["some"] += 1
                res.must_be_unsat(pc + [z3.Not(want)], "Ref::%s gives a result for a value of another kind" % name, both)
                ev = t.state.events
                if name == "as_pair":
                    refs = [e_ for e_ in ev if e_[0] == "ref_new"]
                    got = [(e_[1], e_[2]) for e_ in refs]
                    if got != [("the car", "slot 0"), ("the cdr", "slot 1")]:
                        res.must_be_unsat(pc, "Ref::as_pair pairs %r, expected the car with slot 0 and the cdr with slot 1 of the span information" % (got,), both)
                else:
                    z = [e_ for e_ in ev if e_[0] == "zip"]
                    if len(z) != 1 or z[0][1:] != ("iter over the elements", "element infos"):
                        res.must_be_unsat(pc, "Ref::vector_iter does not pair the elements with the element span information in order (%r)" % (z,), both)
            else:
                n["none"] += 1
                res.must_be_unsat(pc + [want], "Ref::%s refuses a %s" % (name, "pair" if name == "as_pair" else "vector"), both)
        for k, c in n.items():
            res.vacuity.append(("Ref::%s returns %s" % (name, k), c > 0))


def claim_datum_constructors(cx, res, kf):
    """The four Datum constructors pair a value with span information of the SAME shape (what c10_datum_list_iter assumes and
    the accessors rely on): primitive -> Prim, vec -> Vec with the element infos, cons -> Cons over the given pair of infos,
    quotation -> the two-element list (name quoted) with Cons(head = the shorthand's span, Cons(quoted's info, Prim))."""
    SI = cx.enums["SpanInfo"]
    VAL = cx.enums["Value"]
    onm = walk_replay(res)
    from . import c11 as C11
    onm_spans = C11.span_replay(res)

    def both(m=None):
        r = onm(m)
        return r if r.get("replayed") else onm_spans(m)

    def explore(name):
        fn = None
        for n, f in cx.fns.items():
            if "lexpr/src/datum.rs" in n and n.endswith("::" + name) and "{closure" not in n and (f.ret_ty or "").strip().endswith("Datum"):
                fn = f
        if fn is None:
            raise Unsupported("Datum::%s not found" % name)
        eng = C.make_engine(cx, [], loop_mode="cut", timeout_s=60, max_paths=2000)

        def unref(st, v):
            while isinstance(v, Ref):
                v = eng.load(st, v.addr)
            return v

        def h_box_new(engine, st, fr, callee, argv, m):
            n = st.notes.get("nbox", 0) + 1
            st.notes["nbox"] = n
            st.heap["box%d" % n] = argv[0]
            return Agg("struct", "Box", [Agg("struct", "Unique", [Ref(("H", "box%d" % n))]), UnitV()])

        def h_new_uninit(engine, st, fr, callee, argv, m):
            st.heap["vecbox"] = Agg("struct", "MaybeUninit", [UnitV(), Agg("struct", "ManuallyDrop", [Agg("struct", "MaybeDangling", [Blob("uninit")])])])
            return Agg("struct", "Box", [Agg("struct", "Unique", [Ref(("H", "vecbox"))]), UnitV()])

        def h_assume_init(engine, st, fr, callee, argv, m):
            arr = st.heap["vecbox"].fields[1].fields[0].fields[0]
            return Opaque("Vec<Value>", "vec", {"items": tuple(arr.fields) if isinstance(arr, Agg) else ("?",)})

        def h_list(engine, st, fr, callee, argv, m):
            v = unref(st, argv[0])
            return Opaque("Value", "list", {"items": v.attrs.get("items") if isinstance(v, Opaque) else None})

        def h_symbol(engine, st, fr, callee, argv, m):
            return Opaque("Value", "symbol", {"name": unref(st, argv[0])})

        def h_span_new(engine, st, fr, callee, argv, m):
            return Agg("struct", "Span", [argv[0], argv[1]])

        def h_into_box(engine, st, fr, callee, argv, m):
            return Opaque("Box<[Value]>", "boxed elements", {"of": unref(st, argv[0])})
        eng.stubs = [
            (re.compile(r"^Box::<\[SpanInfo; 2\]>::new$"), h_box_new),
            (re.compile(r"^Box::<\[Value; 2\]>::new_uninit$"), h_new_uninit),
            (re.compile(r"box_assume_init_into_vec_unsafe"), h_assume_init),
            (re.compile(r"^Value::list::<"), h_list), (re.compile(r"^Value::symbol::<"), h_symbol),
            (re.compile(r"^(?:datum::)?Span::new$"), h_span_new),
            (re.compile(r"^<Vec<Value> as Into<Box<\[Value\]>>>::into$"), h_into_box),
        ] + S.COMBINATOR_STUBS + S.CORE_STUBS
        return eng, fn, unref

    def pos(label):
        return Agg("struct", "Position", [Int(z3.BitVec(label + "_line", 64), "usize"), Int(z3.BitVec(label + "_col", 64), "usize")])

    def same_pos(a, b):
        return z3.And(a.fields[0].e == b.fields[0].e, a.fields[1].e == b.fields[1].e)

    def info_kind(v):
        return SI[K.concrete(v.discr)] if isinstance(v, EnumV) and K.concrete(v.discr) is not None else None
    done = 0
    # ---- primitive / vec / cons
    for name in ("primitive", "vec", "cons"):
        eng, fn, unref = explore(name)
        args = {}

        def init(e, st, fr, name=name, fn=fn):
            a = list(fn.args)
            if name == "primitive":
                vals = [Opaque("Value", "the value", {}), pos("s"), pos("e")]
            elif name == "vec":
                vals = [Opaque("Vec<Value>", "elements", {"items": ("els",)}), Opaque("Vec<SpanInfo>", "element infos", {}), pos("s"), pos("e")]
            else:
                vals = [Opaque("Cons", "the cell", {}), Agg("array", "[SpanInfo; 2]", [Opaque("SpanInfo", "car info", {}), Opaque("SpanInfo", "cdr info", {})]), pos("s"), pos("e")]
            for x, v in zip(a, vals):
                fr.locals[x] = v
            args["v"] = vals
            return []
        terms = eng.explore(fn.name, init)
        res.absorb(eng)
        for t in terms:
            st = t.state
            pc = list(st.pc)
            if t.kind != "RETURN" or not isinstance(t.value, Agg):
                res.must_be_unsat(pc, "Datum::%s does not return a datum" % name, both)
                continue
            done += 1
            value, inf = t.value.fields[0], t.value.fields[1]
            vals = args["v"]
            want_kind = {"primitive": "Prim", "vec": "Vec", "cons": "Cons"}[name]
            if info_kind(inf) != want_kind:
                res.must_be_unsat(pc, "Datum::%s attaches %s span information" % (name, info_kind(inf)), both)
                continue
            pay = inf.variants[K.concrete(inf.discr)]
            sp = pay[0]
            s_, e_ = vals[-2], vals[-1]
            if not (isinstance(sp, Agg) and len(sp.fields) == 2):
                res.must_be_unsat(pc, "Datum::%s: span is not built from the given positions" % name, both)
            else:
                res.must_be_unsat(pc + [z3.Not(z3.And(same_pos(sp.fields[0], s_), same_pos(sp.fields[1], e_)))], "Datum::%s: span is not (start, end) as given" % name, both)
            if name == "primitive":
                ok = isinstance(value, Opaque) and value.label == "the value"
            elif name == "vec":
                ok = isinstance(value, EnumV) and K.concrete(value.discr) == VAL.index("Vector") and isinstance(pay[1], Opaque) and pay[1].label == "element infos"
                bx = value.variants.get(VAL.index("Vector"), [None])[0] if isinstance(value, EnumV) else None
                ok = ok and isinstance(bx, Opaque) and isinstance(bx.attrs.get("of"), Opaque) and bx.attrs["of"].label == "elements"
            else:
                ok = isinstance(value, EnumV) and K.concrete(value.discr) == VAL.index("Cons")
                cell = value.variants.get(VAL.index("Cons"), [None])[0] if isinstance(value, EnumV) else None
                arr = unref(st, pay[1].fields[0].fields[0]) if isinstance(pay[1], Agg) else None
                ok = ok and isinstance(cell, Opaque) and cell.label == "the cell" and isinstance(arr, Agg) and \
                    [getattr(x, "label", None) for x in arr.fields] == ["car info", "cdr info"]
            if not ok:
                res.must_be_unsat(pc, "Datum::%s does not pair the given value with the given span information in order" % name, both)
    # ---- quotation
    eng, fn, unref = explore("quotation")
    qa = {}

    def init_q(e, st, fr):
        qspan = Agg("struct", "Span", [pos("qs"), pos("qe")])
        inner_span = Agg("struct", "Span", [pos("is"), pos("ie")])
        kd = z3.BitVec("quoted_info_kind", 64)
        st.heap["qbox"] = Agg("array", "[SpanInfo; 2]", [Blob("a"), Blob("b")])
        qinfo = EnumV("SpanInfo", kd, {SI.index("Prim"): [inner_span], SI.index("Cons"): [inner_span, Blob("box")], SI.index("Vec"): [inner_span, Blob("els")]})
        quoted = Agg("struct", "Datum", [Opaque("Value", "quoted value", {}), qinfo])
        vals = [Opaque("&str", "name", {}), quoted, qspan]
        for x, v in zip(fn.args, vals):
            fr.locals[x] = v
        qa.update(qspan=qspan, inner=inner_span, qinfo=qinfo)
        return [z3.ULT(kd, bv(len(SI)))]
    terms = eng.explore(fn.name, init_q)
    res.absorb(eng)
    for t in terms:
        st = t.state
        pc = list(st.pc)
        if t.kind != "RETURN" or not isinstance(t.value, Agg):
            res.must_be_unsat(pc, "Datum::quotation does not return a datum (%s)" % t.kind, both)
            continue
        done += 1
        value, inf = t.value.fields[0], t.value.fields[1]
        items = value.attrs.get("items") if isinstance(value, Opaque) and value.label == "list" else None
        okv = items is not None and len(items) == 2 and isinstance(items[0], Opaque) and items[0].label == "symbol" and \
            getattr(items[0].attrs.get("name"), "label", None) == "name" and isinstance(items[1], Opaque) and items[1].label == "quoted value"
        if not okv:
            res.must_be_unsat(pc, "Datum::quotation: the value is not the two-element list (name quoted)", both)
            continue
        if info_kind(inf) != "Cons":
            res.must_be_unsat(pc, "Datum::quotation: span information is not a list node", both)
            continue
        sp, bx = inf.variants[SI.index("Cons")]
        outer = unref(st, bx.fields[0].fields[0])
        head, rest = outer.fields[0], outer.fields[1]
        if not (info_kind(head) == "Prim" and info_kind(rest) == "Cons"):
            res.must_be_unsat(pc, "Datum::quotation: span information is not shaped like (head . (quoted . ()))", both)
            continue
        rsp, rbx = rest.variants[SI.index("Cons")]
        inner = unref(st, rbx.fields[0].fields[0])
        second, tail = inner.fields[0], inner.fields[1]
        shape_ok = isinstance(second, EnumV) and second.discr is qa["qinfo"].discr or (isinstance(second, EnumV) and z3.eq(second.discr, qa["qinfo"].discr))
        if not (shape_ok and info_kind(tail) == "Prim"):
            res.must_be_unsat(pc, "Datum::quotation: the second element does not carry the quoted datum's own span information / tail is not a leaf", both)
            continue
        hsp = head.variants[SI.index("Prim")][0]
        q, i_ = qa["qspan"], qa["inner"]
        conds = [same_pos(hsp.fields[0], q.fields[0]), same_pos(hsp.fields[1], q.fields[1]),         # head = the shorthand characters
                 same_pos(sp.fields[0], q.fields[0]), same_pos(sp.fields[1], i_.fields[1]),           # whole = shorthand start .. quoted end
                 same_pos(rsp.fields[0], i_.fields[0]), same_pos(rsp.fields[1], i_.fields[1])]        # rest cell = the quoted datum's span
        res.must_be_unsat(pc + [z3.Not(z3.And(*conds))], "Datum::quotation: spans are not (whole = shorthand start..quoted end, head = shorthand, rest = quoted datum)", both)
    res.vacuity.append(("datum constructors evaluated", done >= 4))


CLAIMS = [
    Claim("c10_datum_list_iter", "C10", "quick", claim_datum_list_iter,
          "one step of the datum list iterator from any cursor state over an abstract cell: yields the car with the car's span, "
          "then continues with the cdr's cell (pair), ends (empty list) or pauses with None and yields the tail once (anything "
          "else, #nil included) - the structure the value's own accessors expose; no panic on span information shaped by the builders",
          "arbitrary car / cdr kinds, all 4 cursor states (one-step induction over any list length)", configs=("fast",)),
    Claim("c10_datum_list_iter_peek", "C10", "quick", claim_datum_list_iter_peek,
          "datum::ListIter::peek / is_empty from any cursor state: peek is what next would yield, without advancing (car with the car's "
          "span information at a cell, None at the dot marker, the tail with its information after it, None when exhausted); is_empty "
          "exactly when exhausted - as the value's own list iterator answers",
          "all 4 cursor states, abstract cell and span information", configs=("fast",), confirm=("spans",)),
    Claim("c10_ref_list_iter", "C10", "quick", claim_ref_list_iter,
          "Ref::list_iter gives an iterator exactly for pairs (starting at the pair) and the empty list (already exhausted) and None "
          "for every other value, #nil included - as Value::list_iter does for the same value",
          "arbitrary value kind with span information of the constructors' shape", configs=("fast",)),
    Claim("c10_ref_pair_vector", "C10", "quick", claim_ref_pair_vector,
          "Ref::as_pair gives (car with span slot 0, cdr with span slot 1) exactly for pairs, Ref::vector_iter pairs the elements with "
          "the element span information in order exactly for vectors; None for every other kind; no panic on span information of "
          "the constructors' shape",
          "arbitrary value kind with span information of the constructors' shape", configs=("fast",), also=("C11",)),
    Claim("c10_datum_constructors", "C10", "quick", claim_datum_constructors,
          "Datum::primitive / vec / cons / quotation pair the given value with span information of the same shape and the given "
          "positions: Prim; Vec with the element infos; Cons over the given (car, cdr) infos; for quote shorthands the list "
          "(name quoted) with head span = the shorthand, rest = the quoted datum's info, whole = shorthand start .. quoted end",
          "arbitrary positions and quoted-datum kinds", configs=("fast",), also=("C11",)),
]
