"""C10 (accessor clause): walking a datum with its list accessor exposes exactly the structure the value's own accessors
expose.  E2 over <datum::ListIter as Iterator>::next as one step of a state machine, from an ARBITRARY cursor state over
an abstract cell (arbitrary car / cdr kinds) whose span information has the shape the builders establish (claims
c10_builder_lockstep / c10_top_lockstep: a SpanInfo::Cons exactly where the value is a pair), and Ref::list_iter."""
import re

import z3

from . import common as K
from . import ctx as C
from . import replay as RP
from . import stubs as S
from .claims import Claim
from .serde import sym_value
from .symex import Agg, Blob, BoolV, EnumV, Int, Opaque, Ref, UnitV, Unsupported


def bv(v, w=64):
    return z3.BitVecVal(v, w)


def shape_of_value(v):
    t = v.get("t")
    if t == "null":
        return ["L"]
    if t == "list":
        return ["L"] + [shape_of_value(x) for x in v["v"]] + ([["."], shape_of_value(v["tail"])] if v["tail"].get("t") != "null" else [])
    if t == "vector":
        return ["V"] + [shape_of_value(x) for x in v["v"]]
    return "a"


def shape_of_spans(sp):
    if "list" in sp:
        out = ["L"]
        for c in sp["list"]:
            if "dot" in c:
                out += [["."], shape_of_spans(c["dot"])]
            else:
                out.append(shape_of_spans(c))
        return out
    if "vec" in sp:
        return ["V"] + [shape_of_spans(c) for c in sp["vec"]]
    return "a"


WALK_CORPUS = [b"(a b . #nil)", b"(a . #nil)", b"(a . b)", b"(a b)", b"((a . #nil) . #nil)", b"(a . #(1 (2 . #nil)))", b"(a . \"s\")", b"(#nil . #nil)",
               b"(a (b . #nil) c)", b"'(a . #nil)", b"(a . #t)", b"(a . #f)", b"(a . 1)", b"(a . #\\x)", b"(a . #:k)", b"(a . #u8(1))", b"()", b"(())", b"(a . ())"]


def walk_replay(res):
    def f(m=None):
        for text in WALK_CORPUS:
            for src in ("slice", "reader"):
                sp = RP.parse(text, "default", src, "spans")
                va = RP.parse(text, "default", src, "value")
                res.replays += 2
                spans = [s for s in sp.get("spans", []) if "s" in s]
                items = [v for v in va.get("items", []) if "t" in v]
                a, b = [shape_of_spans(s) for s in spans], [shape_of_value(v) for v in items]
                if a != b:
                    return {"replayed": True, "observed": {"datum_walk": a, "value_walk": b, "input": text.decode("latin-1")},
                            "witness": {"kind": "parse", "input_hex": text.hex(), "opts": "default", "src": src, "api": "spans", "fast": True}}
        return {"replayed": False}
    return f


def claim_datum_list_iter(cx, res, kf):
    VAL = cx.enums["Value"]
    LC = cx.enums["ListCursor"]
    SI = cx.enums["SpanInfo"]
    onm = walk_replay(res)
    fn = None
    for name, f in cx.fns.items():
        if "lexpr/src/datum.rs" in name and name.endswith("::next") and "ListIter" in f.local_ty.get(f.args[0], ""):
            fn = f
    if fn is None:
        res.error = "datum::ListIter::next not found"
        return
    eng = C.make_engine(cx, [], loop_mode="cut", timeout_s=120, max_paths=5000)
    info = {}

    def unref(st, v):
        while isinstance(v, Ref):
            v = eng.load(st, v.addr)
        return v

    def mk_meta(st, label, depth):
        """[SpanInfo; 2] for a cell: car meta arbitrary, cdr meta arbitrary (its Cons payload leads to a further array)"""
        def mk_info(lab, d):
            disc = z3.BitVec("%s_kind" % lab, 64)
            c = z3.ULT(disc, bv(len(SI)))
            eng.solver.add(c)
            st.pc.append(c)
            nxt = Agg("array", "[SpanInfo; 2]", [Blob(lab + "_n0"), Blob(lab + "_n1")]) if d <= 0 else mk_meta(st, lab + "_next", d - 1)
            box = Agg("struct", "Box", [Agg("struct", "Unique", [Ref(("V", nxt))]), UnitV()])
            return EnumV("SpanInfo", disc, {SI.index("Prim"): [Blob(lab + "_span")], SI.index("Cons"): [Blob(lab + "_span"), box],
                                            SI.index("Vec"): [Blob(lab + "_span"), Blob(lab + "_elems")]}), nxt
        car_i, _ = mk_info(label + "_carmeta", 0)
        cdr_i, nxt = mk_info(label + "_cdrmeta", depth)
        arr = Agg("array", "[SpanInfo; 2]", [car_i, cdr_i])
        info.setdefault("next_meta", {})[label] = nxt
        return arr

    def h_carcdr(engine, st, fr, callee, argv, m):
        c = unref(st, argv[0])
        if not isinstance(c, Opaque):
            return Ref(("V", Blob("field")))
        return Ref(("V", c.attrs[m.group(1)]))

    def h_as_cons(engine, st, fr, callee, argv, m):
        v = unref(st, argv[0])
        if not isinstance(v, EnumV):
            return S.mk_option(z3.Bool("ascons_%d" % next(engine.fresh)), Ref(("V", Blob("cell"))))
        pay = v.variants.get(VAL.index("Cons"), [Blob("cell")])[0]
        return S.mk_option(v.discr == VAL.index("Cons"), Ref(("V", pay)))
    eng.stubs = [(re.compile(r"^Cons::(car|cdr)$"), h_carcdr), (re.compile(r"^Value::as_cons$"), h_as_cons)] + S.COMBINATOR_STUBS + S.CORE_STUBS

    def init(e, st, fr):
        car = sym_value(cx, e, st, "car", 0)
        cdr = sym_value(cx, e, st, "cdr", 0)
        nxt_cell = Opaque("Cons", "next_cell", {"car": Blob("ncar"), "cdr": Blob("ncdr")})
        cdr.variants[VAL.index("Cons")] = [nxt_cell]
        cell = Opaque("Cons", "cell", {"car": car, "cdr": cdr})
        meta = mk_meta(st, "m", 1)
        rest_v, rest_i = Blob("rest_value"), Blob("rest_info")
        d = z3.BitVec("cursor_kind", 64)
        cur = EnumV("ListCursor", d, {LC.index("Cons"): [Ref(("V", cell)), Ref(("V", meta))],
                                      LC.index("Dot"): [Ref(("V", rest_v)), Ref(("V", rest_i))],
                                      LC.index("Rest"): [Ref(("V", rest_v)), Ref(("V", rest_i))], LC.index("Exhausted"): []})
        st.heap["it"] = Agg("struct", "ListIter", [cur])
        fr.locals[fn.args[0]] = Ref(("H", "it"))
        cdr_meta = meta.fields[1]
        info.update(cell=cell, car=car, cdr=cdr, meta=meta, d=d, rest_v=rest_v, rest_i=rest_i, next_cell=nxt_cell, cdr_meta=cdr_meta)
        # shape invariant of the builders: span information is a Cons node exactly where the value is a pair
        inv = z3.And((cdr_meta.discr == SI.index("Cons")) == (cdr.discr == VAL.index("Cons")),
                     (cdr_meta.discr == SI.index("Vec")) == (cdr.discr == VAL.index("Vector")))
        info["inv"] = inv
        return [z3.ULT(d, bv(len(LC))), inv]
    terms = eng.explore(fn.name, init)
    res.absorb(eng)
    res.assumptions.append("span information has a SpanInfo::Cons node exactly where the value is a pair and a SpanInfo::Vec node exactly where it is a vector (the shape the builders and Datum constructors establish: c10_builder_lockstep, c11_span_points)")
    seen = {k: 0 for k in LC}

    def points_to(st, ref, obj):
        try:
            return isinstance(ref, Ref) and eng.load(st, ref.addr) is obj
        except Exception:  # noqa
            return False

    for t in terms:
        st = t.state
        pc = list(st.pc)
        if t.kind == "PANIC":
            res.must_be_unsat(pc, "datum ListIter::next: reachable panic `%s` on well-shaped span information" % t.info.get("msg"), onm)
            continue
        if t.kind != "RETURN":
            continue
        d0 = K.concrete(z3.simplify(z3.substitute(info["d"], *[])))
        # which start state does this path belong to?
        for si, sname in enumerate(LC):
            r, _ = res.solve(pc + [info["d"] == si])
            if r != z3.sat:
                continue
            seen[sname] += 1
            ret = t.value
            cur = st.heap["it"].fields[0]
            here = pc + [info["d"] == si]
            if sname == "Exhausted":
                res.must_be_unsat(here + [z3.Not(z3.And(ret.discr == 0, cur.discr == LC.index("Exhausted")))], "an exhausted datum list iterator yields something / revives", onm)
            elif sname == "Dot":
                ok = z3.And(ret.discr == 0, cur.discr == LC.index("Rest"))
                res.must_be_unsat(here + [z3.Not(ok)], "after the last element of an improper list the datum iterator does not pause with None before the tail", onm)
                pay = cur.variants.get(LC.index("Rest"), [None, None])
                if not (points_to(st, pay[0], info["rest_v"]) and points_to(st, pay[1], info["rest_i"])):
                    res.must_be_unsat(here, "the tail handed on after the dot is not the list's tail / its span information", onm)
            elif sname == "Rest":
                ok = z3.And(ret.discr == 1, cur.discr == LC.index("Exhausted"))
                res.must_be_unsat(here + [z3.Not(ok)], "the tail of an improper list is not yielded exactly once as the final element", onm)
                rv = ret.variants.get(1, [None])[0]
                if not (isinstance(rv, Agg) and points_to(st, rv.fields[0], info["rest_v"]) and points_to(st, rv.fields[1], info["rest_i"])):
                    res.must_be_unsat(here, "the yielded tail is not the list's tail with its own span information", onm)
            else:
                # Cons: yields the car with the car's span information; the next state follows the cdr kind
                res.must_be_unsat(here + [ret.discr != 1], "a list element is not yielded", onm)
                rv = ret.variants.get(1, [None])[0]
                if not (isinstance(rv, Agg) and points_to(st, rv.fields[0], info["car"]) and points_to(st, rv.fields[1], info["meta"].fields[0])):
                    res.must_be_unsat(here, "the yielded element is not the cell's car with the car's span information", onm)
                cdr = info["cdr"]
                is_pair, is_null = cdr.discr == VAL.index("Cons"), cdr.discr == VAL.index("Null")
                want = z3.If(is_pair, cur.discr == LC.index("Cons"), z3.If(is_null, cur.discr == LC.index("Exhausted"), cur.discr == LC.index("Dot")))
                res.must_be_unsat(here + [z3.Not(want)],
                                  "after an element the datum iterator's next state does not follow the cdr the way the value's own accessors do "
                                  "(pair: next cell; empty list: end; anything else, including #nil: a dotted tail)", onm)
                cd = K.concrete(cur.discr)
                if cd == LC.index("Cons"):
                    pay = cur.variants[cd]
                    nm = info["next_meta"].get("m")
                    if not (points_to(st, pay[0], info["next_cell"]) and points_to(st, pay[1], nm)):
                        res.must_be_unsat(here, "the iterator does not advance to the cdr's cell with that cell's span information", onm)
                elif cd == LC.index("Dot"):
                    pay = cur.variants[cd]
                    if not (points_to(st, pay[0], cdr) and points_to(st, pay[1], info["cdr_meta"])):
                        res.must_be_unsat(here, "the dotted tail recorded is not the cell's cdr with the cdr's span information", onm)
    for k, n in seen.items():
        res.vacuity.append(("ListIter::next from state %s" % k, n > 0))


CLAIMS = [
    Claim("c10_datum_list_iter", "C10", "quick", claim_datum_list_iter,
          "one step of the datum list iterator from any cursor state over an abstract cell: yields the car with the car's span, "
          "then continues with the cdr's cell (pair), ends (empty list) or pauses with None and yields the tail once (anything "
          "else, #nil included) - the structure the value's own accessors expose; no panic on span information shaped by the builders",
          "arbitrary car / cdr kinds, all 4 cursor states (one-step induction over any list length)", configs=("fast",)),
]
