"""Helpers shared by the E2 claims: parser state construction, exit stubs, outcome classification."""
import re

import z3

from . import ctx as C
from . import stubs as S
from .symex import Agg, BoolV, EnumV, F64, Int, Opaque, Ref, UnitV, Unsupported, INT_TY

OPT_ENUMS = {"nil_symbol": "NilSymbol", "t_symbol": "TSymbol", "brackets": "Brackets",
             "string_syntax": "StringSyntax", "char_syntax": "CharSyntax"}


def sym_enum(engine, name, hint):
    n = len(engine.enums[name])
    d = z3.BitVec("%s_%d" % (hint, next(engine.fresh)), 64)
    return EnumV(name, d, {}), z3.ULT(d, z3.BitVecVal(n, 64))


def parser_state(ctx, engine, st, opts=None, depth=None):
    """Creates heap['parser'] = Parser { read, scratch, remaining_depth, options } following the field order of the
    source; options fields symbolic unless given in `opts` (dict field -> python int/bool). Returns (ref, constraints,
    optvars) where optvars maps option field -> z3 expr."""
    cons = []
    pf = ctx.structs.get("Parser")
    of = None
    # parse::Options (not print::Options): the one with keyword_syntaxes
    import os
    from .ctx import parse_structs_from_source, REPO
    of = parse_structs_from_source([os.path.join(REPO, "lexpr/src/parse/mod.rs")]).get("Options")
    if not pf or not of:
        raise Unsupported("cannot read Parser/Options layout from source")
    optvars = {}
    ofields = []
    for f in of:
        given = None if opts is None else opts.get(f)
        if f == "keyword_syntaxes":
            v = engine.sym_int("u8", "kw")
            if given is not None:
                cons.append(v.e == given)
            else:
                cons.append(z3.ULT(v.e, z3.BitVecVal(8, 8)))
            optvars[f] = v.e
            ofields.append(v)
        elif f in OPT_ENUMS:
            ev, c = sym_enum(engine, OPT_ENUMS[f], f)
            cons.append(c if given is None else ev.discr == given)
            optvars[f] = ev.discr
            ofields.append(ev)
        else:
            b = engine.sym_bool(f)
            if given is not None:
                cons.append(b.e == bool(given))
            optvars[f] = b.e
            ofields.append(b)
    fields = []
    for f in pf:
        if f == "read":
            fields.append(Opaque("R", "read"))
        elif f == "scratch":
            fields.append(Opaque("Vec<u8>", "scratch"))
        elif f == "remaining_depth":
            d = engine.sym_int("u8", "depth")
            if depth is not None:
                cons.append(d.e == depth)
            optvars["remaining_depth"] = d.e
            fields.append(d)
        elif f == "options":
            fields.append(Agg("struct", "Options", ofields))
        else:
            raise Unsupported("unknown Parser field " + f)
    st.heap["parser"] = Agg("struct", "Parser", fields)
    return Ref(("H", "parser")), cons, optvars


def depth_of(ctx, st):
    pf = ctx.structs.get("Parser")
    return st.heap["parser"].fields[pf.index("remaining_depth")]


def exit_stub(ctx, engine, names, ok_payload=None):
    """Stubs for sibling parser methods treated as exits: log ('call', name, args, idx) and return an arbitrary
    Result (Ok with opaque / fresh payload, or Err with an opaque error)."""
    out = []
    for nm in names:
        def h(engine, st, fr, callee, argv, m, nm=nm):
            f = C.resolve_callee(ctx, callee)
            ret = f.ret_ty if f else ""
            st.events.append(("call", nm, argv[1:], st.notes.get("idx")))
            is_err = z3.Bool("ret_err_%s_%d" % (nm, next(engine.fresh)))
            if ok_payload and nm in ok_payload:
                okv = ok_payload[nm](engine, st, argv)
            elif "Result<f64" in ret:
                okv = engine.sym_f64("ret_" + nm)
            elif "Result<()" in ret or ret.strip() == "()":
                okv = UnitV()
            else:
                okv = Opaque(ret, "ret:" + nm, {"args": argv[1:]})
            if not ret.startswith("std::result::Result"):
                return okv
            return S.mk_result(engine, is_err, okv, Opaque("Error", "from:" + nm, {"kind": "callee", "callee": nm}))
        out.append((re.compile(r"^Parser::<[^>]*>::%s$" % re.escape(nm)), h))
    return out


def concrete(e):
    v = z3.simplify(e)
    if z3.is_bv_value(v):
        return v.as_long()
    if z3.is_true(v):
        return True
    if z3.is_false(v):
        return False
    return None


def classify_return(engine, t):
    """For a RETURN terminal whose value is a Result: ('ok', payload) | ('err', errobj) | ('sym', value)"""
    v = t.value
    if isinstance(v, EnumV) and v.name == "Result":
        d = concrete(v.discr)
        if d == 0:
            return "ok", v.variants[0][0] if v.variants.get(0) else None
        if d == 1:
            return "err", v.variants[1][0] if v.variants.get(1) else None
        return "sym", v
    return "val", v


def err_code_index(engine, err):
    """ErrorCode variant index of an Opaque Error produced by Error::syntax, else None."""
    if isinstance(err, Opaque) and err.attrs.get("kind") == "syntax":
        c = err.attrs["code"]
        if isinstance(c, EnumV):
            return concrete(c.discr)
    return None


def code_name(engine, idx):
    return engine.enums["ErrorCode"][idx] if idx is not None else None


def calls(st, name=None):
    return [e for e in st.events if e[0] == "call" and (name is None or e[1] == name)]


def last_call(st):
    cs = calls(st)
    return cs[-1] if cs else None


def model_bytes(m, reader, n):
    out = []
    for i in range(n):
        v = m.eval(z3.Select(reader.inp, z3.BitVecVal(i, 64)), model_completion=True)
        out.append(v.as_long())
    return bytes(out)


def mval(m, e):
    v = m.eval(e, model_completion=True)
    if z3.is_bv_value(v):
        return v.as_long()
    if z3.is_true(v):
        return True
    if z3.is_false(v):
        return False
    return v


def base_case(res, st, k, done, cond_fn, what, onm=None):
    """Base case of a loop-cut induction: the state in which the k-th loop header of the path is first reached (before it
    is replaced by the arbitrary loop state) must satisfy `cond_fn(arrival)`, under the path condition up to that point.
    arrival = {'locals': {local: value}, 'idx': cursor, 'pc_len', 'nev', 'fn'}.  Decided once per distinct arrival."""
    arr = st.notes.get("arrivals", ())
    if len(arr) <= k:
        return
    bb, a = arr[k]
    if id(a) in done:
        return
    done.add(id(a))
    cond = cond_fn(a)
    if cond is None:
        res.violations.append({"what": what + " (state not available at loop entry)", "replayed": None})
        return
    res.must_be_unsat(list(st.pc[:a["pc_len"]]) + [z3.Not(cond)], what, onm)
