"""C08 — each parser option governs exactly its tokens: parse_token against a declarative classifier (E2)."""
import re

import z3

from . import common as K
from . import ctx as C
from . import replay as RP
from . import stubs as S
from .claims import Claim
from .symex import Agg, Blob, BoolV, EnumV, Int, Opaque, Ref, UnitV, Unsupported


def bv(v, w=8):
    return z3.BitVecVal(v, w)


SYMBOL_TERMINATORS = (0x20, 0x0A, 0x09, 0x0D, ord(")"), ord("]"), ord("("), ord("["), ord(";"))
SYMBOL_EXTENDED = b"!$%&*./:<=>?@^_~"
SIGN_SUBSEQUENT_EXTRA = b"!$%&*/:<=>?@^_~-+@"


def token_stubs(cx, engine):
    def seq(st, kind):
        n = st.notes.get("nseq", 0) + 1
        st.notes["nseq"] = n
        return "%s_%d" % (kind, n)

    def new_name(engine, st, how, prefix=None):
        nm = seq(st, "name")
        ends = z3.Bool(nm + "_ends_colon")
        isnil = z3.Bool(nm + "_is_nil")
        ist = z3.Bool(nm + "_is_t")
        cons = [z3.Not(z3.And(isnil, ist)), z3.Implies(isnil, z3.Not(ends)), z3.Implies(ist, z3.Not(ends))]
        b0 = getattr(engine, "tok_b0", None)
        at_start = b0 is not None and z3.eq(st.notes.get("idx"), engine.tok_idx0) and how == "parse_symbol"
        if prefix is not None and prefix != b"":
            # a name that starts with the given literal prefix can be neither `nil` nor `t`
            cons += [z3.Not(isnil), z3.Not(ist)]
        elif how == "parse_symbol_scratch_suffix":
            cons += [z3.Not(isnil), z3.Not(ist)]
        elif at_start:
            # the name begins with the token's first byte
            cons += [z3.Implies(isnil, b0 == bv(ord("n"))), z3.Implies(ist, b0 == bv(ord("t"))),
                     z3.Implies(b0 == bv(ord(":")), z3.And(z3.Not(isnil), z3.Not(ist)))]
        for c in cons:
            engine.solver.add(c)
            st.pc.append(c)
        st.events.append(("name", how, prefix, st.notes.get("idx")))
        st.notes["names"] = st.notes.get("names", ()) + ((ends, isnil, ist),)
        return Opaque("String", nm, {"ends": ends, "isnil": isnil, "ist": ist, "how": how, "popped": False})

    def h_parse_symbol(engine, st, fr, callee, argv, m):
        how = m.group(1)
        prefix = None
        if how == "parse_symbol_suffix":
            prefix = S.bytes_of(engine, argv[1])
        is_err = z3.Bool(seq(st, "symerr"))
        return S.mk_result(engine, is_err, new_name(engine, st, how, prefix), Opaque("Error", "from:" + how, {"kind": "callee"}))

    def unref(engine, st, v):
        while isinstance(v, Ref):
            v = engine.load(st, v.addr)
        return v

    def h_ends_with(engine, st, fr, callee, argv, m):
        s = unref(engine, st, argv[0])
        ch = argv[1]
        if isinstance(s, Opaque) and "ends" in s.attrs and K.concrete(ch.e) == ord(":"):
            return BoolV(s.attrs["ends"])
        raise Unsupported("ends_with on %r" % (s,))

    def h_str_eq(engine, st, fr, callee, argv, m):
        a = unref(engine, st, argv[0])
        lit = S.bytes_of(engine, unref(engine, st, argv[1]) if not isinstance(argv[1], Opaque) else argv[1])
        if lit is None:
            b = unref(engine, st, argv[1])
            lit = S.bytes_of(engine, b)
        if isinstance(a, Opaque) and "isnil" in a.attrs:
            if lit == b"nil":
                return BoolV(a.attrs["isnil"])
            if lit == b"t":
                return BoolV(a.attrs["ist"])
        raise Unsupported("String == %r" % (lit,))

    def h_deref(engine, st, fr, callee, argv, m):
        return argv[0]

    def h_trim(engine, st, fr, callee, argv, m):
        s_ = unref(engine, st, argv[0])
        st.events.append(("trim", m.group(1), s_.label if isinstance(s_, Opaque) else None))
        return Ref(("V", Opaque("str", "trimmed", {"of": s_})))

    def h_pop(engine, st, fr, callee, argv, m):
        s = unref(engine, st, argv[0])
        st.events.append(("pop", s.label if isinstance(s, Opaque) else None))
        return Blob("popped")

    def h_enum_cmp(engine, st, fr, callee, argv, m):
        a, b = unref(engine, st, argv[0]), unref(engine, st, argv[1])
        eq = a.discr == b.discr
        return BoolV(eq if m.group(1) == "eq" else z3.Not(eq))

    def mk_exit(nm, payload=None):
        def h(engine, st, fr, callee, argv, m):
            is_err = z3.Bool(seq(st, nm + "_err"))
            st.events.append(("call", nm, tuple(argv[1:]), st.notes.get("idx")))
            return S.mk_result(engine, is_err, payload(engine, st) if payload else Blob("ret:" + nm),
                               Opaque("Error", "from:" + nm, {"kind": "callee"}))
        return h

    def h_is_alpha(engine, st, fr, callee, argv, m):
        b = z3.Bool(seq(st, "alpha"))
        st.notes["alpha"] = b
        return BoolV(b)

    def h_sub_ctor(engine, st, fr, callee, argv, m):
        st.events.append(("sub", "from_slice_custom"))
        return Blob("subparser")

    def h_sub_call(engine, st, fr, callee, argv, m):
        meth = m.group(1)
        nm = seq(st, "sub_" + meth)
        is_err = z3.Bool(nm + "_err")
        st.events.append(("sub", meth, is_err))
        if meth in ("peek", "next_char"):
            some = z3.Bool(nm + "_some")
            st.events[-1] = ("sub", meth, is_err, some)
            return S.mk_result(engine, is_err, S.mk_option(some, Int(z3.BitVec(nm + "_b", 8), "u8")), Opaque("Error", "sub", {"kind": "callee"}))
        if meth == "expect_end":
            return S.mk_result(engine, is_err, UnitV(), Opaque("Error", "sub", {"kind": "callee"}))
        return S.mk_result(engine, is_err, Blob("ret:sub"), Opaque("Error", "sub", {"kind": "callee"}))

    P = r"^Parser::<R>::"
    return [
        (re.compile(P + r"(parse_symbol|parse_symbol_suffix|parse_symbol_scratch_suffix)$"), h_parse_symbol),
        (re.compile(r"^core::str::<impl str>::ends_with::<char>$"), h_ends_with),
        (re.compile(r"^<(?:String as PartialEq<&str>|str as PartialEq|&str as PartialEq<&str>|&str as PartialEq|String as PartialEq<str>)>::eq$"), h_str_eq),
        (re.compile(r"^(?:String::as_str|<String as Deref>::deref|<String as AsRef<str>>::as_ref|String::as_mut_str)$"), lambda e, st, fr, c, a, mm: a[0]),
        (re.compile(r"^<String as Deref>::deref$"), h_deref),
        (re.compile(r"^String::pop$"), h_pop),
        (re.compile(r"^core::str::<impl str>::(bytes|chars|char_indices)$"), lambda e, st, fr, c, a, m: Opaque("StrIter", "iter", {"of": a[0]})),
        (re.compile(r"^<(?:std::str::|core::str::)?(?:Bytes|Chars)<'_> as Iterator>::(any|all|position|count)::<"), lambda e, st, fr, c, a, m: BoolV(z3.Bool("striter_%s_%d" % (m.group(1), next(e.fresh))))),
        (re.compile(r"^core::str::<impl str>::(trim_end_matches|trim_start_matches|trim_matches|trim_end|trim)(?:::<.*>)?$"), h_trim),
        (re.compile(r"^String::as_bytes$"), h_deref),
        (re.compile(r"^<(?:NilSymbol|TSymbol|CharSyntax|StringSyntax|Brackets) as PartialEq>::(eq|ne)$"), h_enum_cmp),
        (re.compile(P + r"expect_ident$"), lambda e, st, fr, c, a, m: mk_exit("expect_ident:" + (S.bytes_of(e, a[1]) or b"?").decode())(e, st, fr, c, a, m)),
        (re.compile(P + r"parse_radix_literal$"), mk_exit("parse_radix_literal")),
        (re.compile(P + r"parse_num_literal$"), mk_exit("parse_num_literal")),
        (re.compile(r"^<R as (?:parse::)?read::Read<'_>>::(parse_r6rs_char)$"), mk_exit("parse_r6rs_char", lambda e, st: e.sym_int("char", "ch"))),
        (re.compile(r"^<R as (?:parse::)?read::Read<'_>>::(parse_elisp_char)$"), mk_exit("parse_elisp_char", lambda e, st: e.sym_int("char", "ch"))),
        (re.compile(r"^<R as (?:parse::)?read::Read<'_>>::(parse_r6rs_str)$"), mk_exit("parse_r6rs_str")),
        (re.compile(r"^<R as (?:parse::)?read::Read<'_>>::(parse_elisp_str)$"), mk_exit("parse_elisp_str")),
        (re.compile(r"^decode_utf8_sequence::<"), mk_exit("decode_utf8_sequence", lambda e, st: e.sym_int("char", "uch"))),
        (re.compile(r"^char::methods::<impl char>::is_alphabetic$"), h_is_alpha),
        (re.compile(r"^Parser::<SliceRead<'_>>::from_slice_custom$"), h_sub_ctor),
        (re.compile(r"^Parser::<SliceRead<'_>>::(\w+)$"), h_sub_call),
    ]


def explore_token(cx, res, opts=None):
    eng = C.make_engine(cx, [], loop_mode="unroll", unroll=3, timeout_s=300, max_paths=40000)
    rd = S.Reader(eng, with_io_errors=False)
    eng.stubs = (token_stubs(cx, eng) + S.reader_stubs(rd) + S.SCRATCH_STUBS + S.COMBINATOR_STUBS + S.BUILDER_STUBS
                 + S.CORE_STUBS)
    fn = C.resolve_callee(cx, "Parser::<R>::parse_token")
    info = {}

    def init(e, st, fr):
        ref, cons, ov = K.parser_state(cx, e, st, opts=opts)
        fr.locals[1] = ref
        idx0 = z3.BitVec("idx0", 64)
        st.notes["idx"] = idx0
        b0 = rd.at(idx0)
        fr.locals[2] = Int(b0, "u8")
        info.update(ov=ov, idx0=idx0, b0=b0)
        e.tok_b0, e.tok_idx0 = b0, idx0
        # parse_token is entered on a byte parse_whitespace returned: present, not trivia
        triv = z3.Or(*[b0 == bv(c) for c in (0x20, 0x09, 0x0A, 0x0D, 0x0C, ord(";"))])
        return cons + rd.base + [z3.ULT(idx0, z3.BitVecVal(1 << 40, 64)), z3.ULT(idx0, rd.len), z3.Not(triv)]
    terms = eng.explore(fn.name, init)
    res.absorb(eng)
    return eng, rd, info, terms


def token_outcome(eng, t):
    """('tok', KindName, payload fields) | ('err', CodeName|label) | (other,)"""
    if t.kind != "RETURN":
        return (t.kind,)
    kind, payload = K.classify_return(eng, t)
    if kind == "err":
        ci = K.err_code_index(eng, payload)
        if ci is not None:
            return ("err", K.code_name(eng, ci))
        return ("err", payload.label if isinstance(payload, Opaque) else "?")
    if kind == "ok" and isinstance(payload, EnumV) and payload.name == "Token":
        d = K.concrete(payload.discr)
        return ("tok", eng.enums["Token"][d], payload.variants.get(d, []))
    return (kind,)


def in_set(b, chars):
    return z3.Or(*[b == bv(c) for c in chars])


def claim_token_dispatch(cx, res, kf):
    res.assumptions += [
        "the name scanners, number scanners, string / char scanners and the UTF-8 decoder are arbitrary-result callees "
        "here (own claims); a scanned name is abstracted to three predicates (is `nil`, is `t`, ends with ':')",
        "char::is_alphabetic is an uninterpreted predicate",
    ]
    eng, rd, info, terms = explore_token(cx, res)
    ov, b0, idx0 = info["ov"], info["b0"], info["idx0"]
    b1 = rd.at(idx0 + 1)
    eof1 = z3.UGE(idx0 + 1, rd.len)
    kw = ov["keyword_syntaxes"]
    kw_prefix, kw_postfix, kw_octo = (kw & 1) != 0, (kw & 2) != 0, (kw & 4) != 0
    NS = cx.enums["NilSymbol"]
    nil_empty, nil_default, nil_special = [ov["nil_symbol"] == NS.index(n) for n in ("EmptyList", "Default", "Special")]
    t_true = ov["t_symbol"] == cx.enums["TSymbol"].index("True")
    br_vec = ov["brackets"] == cx.enums["Brackets"].index("Vector")
    ss_elisp = ov["string_syntax"] == cx.enums["StringSyntax"].index("Elisp")
    cs_elisp = ov["char_syntax"] == cx.enums["CharSyntax"].index("Elisp")
    racket, digsym = ov["racket_hash_percent_symbols"], ov["leading_digit_symbols"]
    letter = z3.Or(z3.And(z3.UGE(b0, bv(97)), z3.ULE(b0, bv(122))), z3.And(z3.UGE(b0, bv(65)), z3.ULE(b0, bv(90))))
    digit = z3.And(z3.UGE(b0, bv(48)), z3.ULE(b0, bv(57)))
    seen = {}

    def calls_of(st):
        return [e for e in st.events if e[0] == "call"]

    def names_of(st):
        return [e for e in st.events if e[0] == "name"]

    def check(t, cond_allowed, what, onm=None):
        res.must_be_unsat(list(t.state.pc) + [z3.Not(cond_allowed)], what, onm)

    def replay_corpus(corpus):
        """corpus: list of (text, opts dict, expected item predicate description, fn(item)->bool)"""
        def f(m):
            for text, opts, pred in corpus:
                nat = RP.parse(text, opts, "slice", "value")
                res.replays += 1
                items = nat.get("items", [])
                if not pred(items):
                    return {"replayed": True, "observed": nat,
                            "witness": {"kind": "parse", "input_hex": text.hex(), "opts": RP.opts_str(opts), "src": "slice", "api": "value", "fast": True}}
            return {"replayed": False}
        return f

    def first_is(tp, val=None):
        def p(items):
            if not items or items[0].get("t") != tp:
                return False
            return val is None or items[0].get("v") == val
        return p
    hexs = lambda s: s.encode().hex()  # noqa
    BASE = {"k": 4, "nil": 1, "t": 1, "br": 0, "ss": 0, "cs": 0, "rk": 0, "dg": 0}

    def O(**kwargs):
        d = dict(BASE)
        d.update(kwargs)
        return d
    KW_CORPUS = [
        (b"a:", O(k=2), first_is("keyword", hexs("a"))), (b"a:", O(k=5), first_is("symbol", hexs("a:"))),
        (b"_a:", O(k=2), first_is("keyword", hexs("_a"))), (b"+:", O(k=2), first_is("keyword", hexs("+"))),
        (b"<=:", O(k=2), first_is("keyword", hexs("<="))), (b"\xce\xbb:", O(k=2), first_is("keyword", "cebb")),
        (b":a", O(k=1), first_is("keyword", hexs("a"))), (b":a", O(k=6), first_is("symbol", hexs(":a"))),
        (b"#:a", O(k=4), first_is("keyword", hexs("a"))), (b"1a:", O(k=2, dg=1), first_is("keyword", hexs("1a"))),
    ]
    NIL_CORPUS = [
        (b"nil", O(nil=0), first_is("null")), (b"nil", O(nil=1), first_is("symbol", hexs("nil"))), (b"nil", O(nil=2), first_is("nil")),
        (b"t", O(t=0), first_is("bool", True)), (b"t", O(t=1), first_is("symbol", hexs("t"))),
        (b"nilx", O(nil=0), first_is("symbol", hexs("nilx"))), (b"tt", O(t=0), first_is("symbol", hexs("tt"))),
    ]
    SIGN_CORPUS = [
        (b"[a +]", O(br=1), lambda it: bool(it) and it[0].get("t") == "vector" and len(it[0]["v"]) == 2 and it[0]["v"][1].get("v") == hexs("+")),
        (b"[a -]", O(br=0), lambda it: bool(it) and it[0].get("t") == "list" and len(it[0]["v"]) == 2 and it[0]["v"][1].get("v") == hexs("-")),
        (b"(+;c\n)", O(), lambda it: bool(it) and it[0].get("t") == "list" and it[0]["v"][0].get("v") == hexs("+")),
        (b"(- 1)", O(), lambda it: bool(it) and it[0].get("t") == "list" and len(it[0]["v"]) == 2),
        (b"-5", O(), first_is("int", "-5")), (b"+5", O(), first_is("int", "5")), (b"-a", O(), first_is("symbol", hexs("-a"))),
        (b"...", O(), first_is("symbol", hexs("..."))),
    ]
    DIGIT_CORPUS = [
        (b"1+", O(dg=1), first_is("symbol", hexs("1+"))), (b"1-", O(dg=1), first_is("symbol", hexs("1-"))),
        (b"12ab", O(dg=1), first_is("symbol", hexs("12ab"))), (b"1e3", O(dg=1), first_is("float")),
        (b"123", O(dg=1), first_is("int", "123")), (b"1.5", O(dg=1), first_is("float")), (b"1.5.6", O(dg=1), first_is("symbol", hexs("1.5.6"))),
        (b"0x10", O(dg=1), first_is("symbol", hexs("0x10"))), (b"1/2", O(dg=1), first_is("symbol", hexs("1/2"))),
        (b"123", O(dg=0), first_is("int", "123")),
    ]
    for t in terms:
        st = t.state
        pc = list(st.pc)
        if t.kind == "PANIC":
            res.must_be_unsat(pc, "parse_token: reachable panic `%s`" % t.info.get("msg"))
            continue
        if t.kind == "UNREACHABLE":
            # `otherwise` arm of an exhaustive match over an abstracted (Blob) enum: a model artefact, rustc guarantees
            # these are not reachable
            seen["UNREACHABLE"] = seen.get("UNREACHABLE", 0) + 1
            continue
        out = token_outcome(eng, t)
        cs = calls_of(st)
        nms = names_of(st)
        key = out[1] if out[0] in ("tok", "err") else out[0]
        seen[key] = seen.get(key, 0) + 1
        callnames = [c[1] for c in cs]
        # the dispatch table: which scanner the token start is handed to (first scanner event of the path), on EVERY path
        firsts = [e for e in st.events if e[0] in ("call", "name", "sub")]
        if firsts:
            f0 = firsts[0]
            fname0 = f0[1] if f0[0] != "sub" else "sub"
            sign = in_set(b0, b"+-")
            b1n = z3.Or(eof1, in_set(b1, SYMBOL_TERMINATORS + (0, 0x0C, ord("|"), ord('"'))), in_set(b1, SIGN_SUBSEQUENT_EXTRA),
                        z3.And(z3.UGE(b1, bv(65)), z3.ULE(b1, bv(90))), z3.And(z3.UGE(b1, bv(97)), z3.ULE(b1, bv(122))))
            hashb = lambda c_: z3.And(b0 == bv(ord("#")), z3.Not(eof1), b1 == bv(ord(c_)))  # noqa
            ENTRY = {
                "parse_r6rs_str": z3.And(b0 == bv(ord('"')), z3.Not(ss_elisp)), "parse_elisp_str": z3.And(b0 == bv(ord('"')), ss_elisp),
                "parse_r6rs_char": hashb("\\"), "parse_elisp_char": z3.And(b0 == bv(ord("?")), cs_elisp),
                "decode_utf8_sequence": z3.UGT(b0, bv(127)),
                "parse_radix_literal": z3.Or(hashb("b"), hashb("o"), hashb("d"), hashb("x")),
                "expect_ident:il": hashb("n"), "expect_ident:u8": hashb("v"), "expect_ident:8": hashb("u"),
                "sub": z3.And(digit, digsym),
            }
            cond0 = ENTRY.get(fname0)
            if f0[0] == "name":
                how0, prefix0 = f0[1], f0[2]
                if how0 == "parse_symbol":
                    cond0 = z3.Or(letter, z3.And(in_set(b0, SYMBOL_EXTENDED), z3.Not(z3.And(b0 == bv(ord("?")), cs_elisp))),
                                  z3.And(b0 == bv(ord(":"))), z3.And(hashb(":"), kw_octo), z3.And(digit, digsym))
                elif how0 == "parse_symbol_suffix" and prefix0 in (b"-", b"+"):
                    cond0 = z3.And(sign, b0 == bv(prefix0[0]), b1n)
                elif how0 == "parse_symbol_suffix" and prefix0 == b"#%":
                    cond0 = z3.And(hashb("%"), racket)
                else:
                    cond0 = None
            if cond0 is not None:
                check(t, cond0, "token dispatch: `%s` is entered on a token start / option set it is not documented for" % fname0, None)
            # a name read "on top of the scratch buffer" is only sound right after the first character of this very token was decoded
            # into it; anywhere else the buffer holds whatever the previous token left there
            for i_, e_ in enumerate(firsts):
                if e_[0] == "name" and e_[1] == "parse_symbol_scratch_suffix":
                    prev = firsts[i_ - 1] if i_ > 0 else None
                    if not (prev is not None and prev[0] == "call" and prev[1] == "decode_utf8_sequence"):
                        check(t, z3.BoolVal(False), "a name is read on top of the scratch buffer without clearing it first (only sound directly "
                              "after this token's first character was decoded into it): bytes left by an earlier token become part of the name", None)
        # WHICH scanner a token start is handed to is decided before the scanner runs: checked on every path, whatever the
        # scanner then returns (an `invalid number` for `++` is the symptom of the sign being sent down the number path)
        if "sub" not in [e[0] for e in st.events] and "parse_num_literal" in callnames and "parse_radix_literal" not in callnames:
            c0 = [x for x in cs if x[1] == "parse_num_literal"][0]
            r0, pos0 = c0[2][0].e, c0[2][1].e
            b1_name0 = z3.Or(in_set(b1, SYMBOL_TERMINATORS + (0, 0x0C, ord("|"), ord('"'))), in_set(b1, SIGN_SUBSEQUENT_EXTRA),
                             z3.And(z3.UGE(b1, bv(65)), z3.ULE(b1, bv(90))), z3.And(z3.UGE(b1, bv(97)), z3.ULE(b1, bv(122))))
            is_digit0 = z3.And(digit, z3.Not(digsym), pos0, c0[3] == idx0)
            signnum0 = z3.And(in_set(b0, b"+-"), pos0 == (b0 == bv(ord("+"))), c0[3] == idx0 + 1, z3.Not(eof1), z3.Not(b1_name0))
            check(t, z3.And(r0 == 10, z3.Or(is_digit0, signnum0)), "the decimal number scanner is entered on a token start that is not a digit / a sign "
                  "followed by something that cannot continue a name (`+`, `-`, `-x`, `++`, `-+` are names)", None)
        if out[0] == "err" and out[1].startswith("from:"):
            # an error of a callee is passed on unchanged: nothing to classify
            continue
        if out[0] == "tok":
            kind = out[1]
            if kind == "Bool":
                v = out[2][0].e if isinstance(out[2][0], BoolV) else None
                is_hash = z3.And(b0 == bv(ord("#")), z3.Not(eof1), z3.Or(z3.And(b1 == bv(ord("t")), v), z3.And(b1 == bv(ord("f")), z3.Not(v))))
                nm = st.notes.get("names", ())
                from_t = z3.And(t_true, nm[0][2], v, z3.Not(z3.And(kw_postfix, nm[0][0])), z3.Not(z3.And(z3.Not(nil_default), nm[0][1]))) if nm else z3.BoolVal(False)
                check(t, z3.Or(is_hash, from_t), "Bool token produced for something other than #t / #f / `t` with TSymbol::True",
                      replay_corpus(NIL_CORPUS))
            elif kind == "Nil":
                nm = st.notes.get("names", ())
                from_hash = z3.And(b0 == bv(ord("#")), z3.Not(eof1), b1 == bv(ord("n")))
                if "expect_ident:il" in callnames:
                    check(t, from_hash, "#nil token on a different spelling")
                else:
                    c = z3.And(nil_special, nm[0][1], z3.Not(z3.And(kw_postfix, nm[0][0]))) if nm else z3.BoolVal(False)
                    check(t, c, "special nil value produced although `nil` is not configured as special", replay_corpus(NIL_CORPUS))
            elif kind == "Null":
                nm = st.notes.get("names", ())
                c = z3.And(nil_empty, nm[0][1], z3.Not(z3.And(kw_postfix, nm[0][0]))) if nm else z3.BoolVal(False)
                check(t, c, "empty list produced for a name although `nil` is not configured as the empty list", replay_corpus(NIL_CORPUS))
            elif kind == "Keyword":
                nm = st.notes.get("names", ())
                octo = z3.And(b0 == bv(ord("#")), z3.Not(eof1), b1 == bv(ord(":")), kw_octo)
                pre = z3.And(b0 == bv(ord(":")), kw_prefix)
                post = z3.And(kw_postfix, nm[0][0]) if nm else z3.BoolVal(False)
                popped = any(e[0] == "pop" for e in st.events)
                if popped:
                    check(t, post, "postfix keyword produced although name: keywords are disabled or the name has no trailing colon",
                          replay_corpus(KW_CORPUS))
                else:
                    check(t, z3.Or(octo, pre), "keyword produced although that keyword spelling is disabled", replay_corpus(KW_CORPUS))
            elif kind == "Symbol":
                # a name is a plain symbol only if no enabled special reading applies to it
                nm = st.notes.get("names", ())
                if not nm:
                    res.violations.append({"what": "Symbol token without a scanned name", "replayed": None})
                    continue
                ends, isnil, ist = nm[0]
                how = nms[0][1]
                prefix = nms[0][2]
                if "sub" in [e[0] for e in st.events]:
                    # digit-initial name kept as a symbol: only with leading_digit_symbols
                    check(t, z3.And(digit, digsym), "digit-initial symbol although leading-digit symbols are disabled", replay_corpus(DIGIT_CORPUS))
                    check(t, z3.Not(z3.And(kw_postfix, ends)), "digit-initial name with trailing colon is read as a symbol although name: keywords are enabled",
                          replay_corpus(KW_CORPUS))
                    # ... and only when the token is NOT a complete numeric literal: the number sub-parser accepted it and nothing was left over
                    subs = [e for e in st.events if e[0] == "sub"]
                    numev = [e for e in subs if len(e) >= 3 and e[1] not in ("peek", "next_char", "expect_end", "parse_whitespace", "from_slice_custom")]
                    asked_ = [e for e in subs if e[1] in ("peek", "next_char") and len(e) >= 4]
                    if numev and asked_:
                        res.must_be_unsat(pc + [z3.Not(numev[0][2]), z3.Not(asked_[-1][2]), z3.Not(asked_[-1][3])],
                                          "with leading-digit symbols a token that IS a complete numeric literal (the number scanner accepted it, nothing "
                                          "left over) is read as a name: `1e21`, `2.5e-7` become symbols", None)
                    elif numev:
                        res.must_be_unsat(pc + [z3.Not(numev[0][2])],
                                          "with leading-digit symbols a token the number scanner ACCEPTED is read as a name without asking whether "
                                          "anything is left over (complete literals such as `1e21` become symbols)", None)
                    continue
                not_special = z3.And(z3.Not(z3.And(kw_postfix, ends)),
                                     z3.Not(z3.And(z3.Not(nil_default), isnil)), z3.Not(z3.And(t_true, ist)))
                check(t, not_special, "a name that the enabled options read specially (name: keyword, nil, t) is returned as a plain symbol "
                      "(initial byte class decides instead of the option)", replay_corpus(KW_CORPUS + NIL_CORPUS))
                # where may plain symbols start
                if prefix in (b"-", b"+"):
                    sign_ok = z3.Or(eof1, in_set(b1, SYMBOL_TERMINATORS + (0, 0x0C, ord("|"), ord('"'))), in_set(b1, SIGN_SUBSEQUENT_EXTRA),
                                    z3.And(z3.UGE(b1, bv(65)), z3.ULE(b1, bv(90))), z3.And(z3.UGE(b1, bv(97)), z3.ULE(b1, bv(122))))
                    check(t, z3.And(in_set(b0, b"+-"), sign_ok), "sign followed by this byte read as a symbol", replay_corpus(SIGN_CORPUS))
                elif prefix == b"#%":
                    check(t, z3.And(b0 == bv(ord("#")), b1 == bv(ord("%")), racket), "#% symbol although Racket symbols are disabled")
                elif b"decode_utf8_sequence" in [c.encode() for c in callnames]:
                    check(t, z3.And(z3.UGT(b0, bv(127)), st.notes.get("alpha", z3.BoolVal(False))), "non-ASCII symbol start that is not alphabetic")
                else:
                    start_ok = z3.Or(letter, in_set(b0, SYMBOL_EXTENDED), z3.And(b0 == bv(ord(":")), z3.Not(kw_prefix)))
                    check(t, z3.And(start_ok, z3.Not(z3.And(b0 == bv(ord("?")), cs_elisp))), "symbol started by a byte that is not a symbol initial",
                          None)
            elif kind == "Number":
                if "sub" in [e[0] for e in st.events]:
                    # leading-digit mode: a number only if the WHOLE name is a numeric literal, i.e. the sub-parser
                    # must be asked whether anything is left after the literal
                    evs = [e for e in st.events if e[0] == "sub"]
                    asked = [e for e in evs if e[1] in ("peek", "next_char", "expect_end", "parse_whitespace")]
                    check(t, z3.And(digit, digsym), "leading-digit number path without the option")
                    if not asked:
                        res.must_be_unsat(pc, "with leading-digit symbols a token is read as a number as soon as a PREFIX of it is a "
                                          "numeric literal (nothing checks for leftover characters: 1+ reads as 1)", replay_corpus(DIGIT_CORPUS))
                    else:
                        a = asked[-1]
                        if a[1] in ("peek", "next_char"):
                            check(t, z3.And(z3.Not(a[2]), z3.Not(a[3])), "number accepted although characters are left over after the literal",
                                  replay_corpus(DIGIT_CORPUS))
                if "sub" not in [e[0] for e in st.events]:
                    # the literal must be the whole token: after the number scanner returns, the next byte is inspected and
                    # must be a token terminator (or the end of input)
                    nc = [x for x in cs if x[1] in ("parse_num_literal", "parse_radix_literal")][-1]
                    i_call = st.events.index(nc)
                    later = [e for e in st.events[i_call + 1:] if e[0] in ("peek", "next")]
                    NUM_CORPUS = [
                        (b"(1+ 2)", O(), lambda it: not (it and it[0].get("t") == "list" and len(it[0].get("v", [])) == 3)),
                        (b"1x", O(), lambda it: not (len(it) >= 2 and it[0].get("t") == "int" and it[1].get("t") == "symbol")),
                        (b"#x10g", O(), lambda it: not (len(it) >= 2 and it[0].get("t") == "int" and it[1].get("t") == "symbol")),
                        (b"1.5.6", O(), lambda it: not (it and it[0].get("t") == "float")),
                        (b"-1a", O(), lambda it: not (it and it[0].get("t") == "int")),
                        (b"(1)", O(), lambda it: bool(it) and it[0].get("t") == "list"), (b"1 2", O(), lambda it: len(it) == 3),
                        (b"1;c", O(), first_is("int", "1")), (b"[1]", O(br=1), first_is("vector")), (b"1\"a\"", O(), first_is("int", "1")),
                    ]
                    if not later:
                        res.must_be_unsat(pc, "a number is returned without looking at what follows it: `1+`, `1x`, `1.5.6` read as a "
                                          "number followed by another token", replay_corpus(NUM_CORPUS))
                    else:
                        pidx = later[-1][1]
                        nb = rd.at(pidx)
                        term_ok = z3.Or(z3.UGE(pidx, rd.len), in_set(nb, SYMBOL_TERMINATORS + (0x0C, ord("|"), ord('"'))))
                        check(t, term_ok, "a number directly followed by a non-terminator byte is accepted", replay_corpus(NUM_CORPUS))
                if "sub" in [e[0] for e in st.events]:
                    pass
                elif "parse_radix_literal" in callnames:
                    c = [x for x in cs if x[1] == "parse_radix_literal"][0]
                    r = c[2][0].e
                    check(t, z3.And(b0 == bv(ord("#")), z3.Or(z3.And(b1 == bv(ord("b")), r == 2), z3.And(b1 == bv(ord("o")), r == 8),
                                                              z3.And(b1 == bv(ord("d")), r == 10), z3.And(b1 == bv(ord("x")), r == 16))),
                          "radix prefix mapped to the wrong radix")
                else:
                    c = [x for x in cs if x[1] == "parse_num_literal"][0]
                    r, pos = c[2][0].e, c[2][1].e
                    is_digit = z3.And(digit, z3.Not(digsym), pos, c[3] == idx0)
                    # after a sign the number path is taken exactly when the next byte cannot continue a peculiar identifier
                    # (`+`/`-` alone, `-x`, `++`, `-+` ... are names): not a terminator / delimiter / NUL, not a letter, not a
                    # <sign subsequent> character
                    b1_name = z3.Or(in_set(b1, SYMBOL_TERMINATORS + (0, 0x0C, ord("|"), ord('"'))), in_set(b1, SIGN_SUBSEQUENT_EXTRA),
                                    z3.And(z3.UGE(b1, bv(65)), z3.ULE(b1, bv(90))), z3.And(z3.UGE(b1, bv(97)), z3.ULE(b1, bv(122))))
                    signnum = z3.And(in_set(b0, b"+-"), pos == (b0 == bv(ord("+"))), c[3] == idx0 + 1, z3.Not(eof1), z3.Not(b1_name))
                    check(t, z3.And(r == 10, z3.Or(is_digit, signnum)), "decimal number path entered wrongly (a sign followed by a "
                          "token terminator is the symbol + / -)", replay_corpus(SIGN_CORPUS))
            elif kind in ("ListOpen", "VecOpen", "ByteVecOpen"):
                close = out[2][0].e
                if kind == "ListOpen":
                    ok = z3.Or(z3.And(b0 == bv(ord("(")), close == ord(")")), z3.And(b0 == bv(ord("[")), z3.Not(br_vec), close == ord("]")))
                elif kind == "VecOpen":
                    ok = z3.Or(z3.And(b0 == bv(ord("#")), b1 == bv(ord("(")), close == ord(")")), z3.And(b0 == bv(ord("[")), br_vec, close == ord("]")))
                else:
                    ok = z3.And(b0 == bv(ord("#")), in_set(b1, b"vu"), close == ord(")"))
                check(t, ok, "%s token with the wrong opener / closer / bracket option" % kind)
            elif kind == "Char":
                if "parse_elisp_char" in callnames:
                    check(t, z3.And(b0 == bv(ord("?")), cs_elisp), "?c read as a character without Emacs character syntax")
                else:
                    check(t, z3.And(b0 == bv(ord("#")), b1 == bv(ord("\\"))), "#\\ character on a different spelling")
            elif kind in ("String", "Bytes"):
                if "parse_elisp_str" in callnames:
                    check(t, z3.And(b0 == bv(ord('"')), ss_elisp), "Emacs string scanner used without Emacs string syntax")
                else:
                    check(t, z3.And(b0 == bv(ord('"')), z3.Not(ss_elisp), kind == "String"), "R6RS string scanner used under Emacs string syntax")
            elif kind == "Quotation":
                lit = S.bytes_of(eng, out[2][0])
                exp = {b"quote": z3.And(b0 == bv(ord("'"))), b"quasiquote": b0 == bv(ord("`")),
                       b"unquote": z3.And(b0 == bv(ord(",")), z3.Or(eof1, b1 != bv(ord("@")))),
                       b"unquote-splicing": z3.And(b0 == bv(ord(",")), z3.Not(eof1), b1 == bv(ord("@")))}.get(lit)
                if exp is None:
                    res.violations.append({"what": "quotation with unknown head %r" % (lit,), "replayed": None})
                else:
                    check(t, exp, "quote shorthand mapped to the wrong head symbol (%s)" % lit.decode())
            continue
        if out[0] == "err":
            code = out[1]
            if code == "ExpectedSomeValue":
                notstart = z3.And(z3.Not(letter), z3.Not(digit), z3.Not(in_set(b0, SYMBOL_EXTENDED)), z3.Not(in_set(b0, b"#-+\"([:'`,")),
                                  z3.Not(z3.And(b0 == bv(ord("?")), cs_elisp)))
                check(t, z3.Or(z3.And(z3.ULE(b0, bv(127)), notstart), z3.And(z3.UGT(b0, bv(127)), z3.Not(st.notes.get("alpha", z3.BoolVal(True))))),
                      "a byte that starts a token is rejected as ExpectedSomeValue")
            elif code == "ExpectedSomeIdent":
                known = z3.Or(in_set(b1, b"tfn(vubodx\\"), z3.And(b1 == bv(ord(":")), kw_octo), z3.And(b1 == bv(ord("%")), racket))
                check(t, z3.And(b0 == bv(ord("#")), z3.Not(eof1), z3.Not(known)), "a known #-token is rejected (option / spelling mismatch)",
                      replay_corpus(KW_CORPUS))
            elif code.startswith("Eof"):
                check(t, z3.And(b0 == bv(ord("#")), eof1), "EOF error although input continues")
            elif code == "InvalidNumber" and [x for x in cs if x[1] in ("parse_num_literal", "parse_radix_literal")]:
                # a literal followed directly by a non-terminator byte: `1x`
                nc = [x for x in cs if x[1] in ("parse_num_literal", "parse_radix_literal")][-1]
                later = [e for e in st.events[st.events.index(nc) + 1:] if e[0] in ("peek", "next")]
                if not later:
                    res.violations.append({"what": "InvalidNumber raised by parse_token without inspecting the byte after the literal", "replayed": None})
                else:
                    pidx = later[-1][1]
                    nb = rd.at(pidx)
                    check(t, z3.And(z3.ULT(pidx, rd.len), z3.Not(in_set(nb, SYMBOL_TERMINATORS))),
                          "a number followed by a token terminator / end of input is rejected")
            else:
                res.violations.append({"what": "parse_token raises %s itself" % code, "replayed": None})
            continue
        res.violations.append({"what": "unclassified path %r" % (out,), "replayed": None})
    for k in ("Bool", "Nil", "Null", "Keyword", "Symbol", "Number", "ListOpen", "VecOpen", "ByteVecOpen", "Char", "String", "Bytes",
              "Quotation", "ExpectedSomeValue", "ExpectedSomeIdent"):
        res.vacuity.append(("parse_token reaches " + k, seen.get(k, 0) > 0))


CLAIMS = [
    Claim("c08_token_dispatch", "C08", "quick", claim_token_dispatch,
          "parse_token, for every first byte, lookahead byte, all 1536 option sets and every abstract name: each token "
          "kind is produced exactly under the spelling and option the documentation gives it (nil / t / the three keyword "
          "spellings / brackets / ?c / #% / leading-digit symbols / string and char syntax / quote shorthands / radix "
          "prefixes / sign followed by a terminator), independent of the name's first byte class; numbers in leading-digit "
          "mode only when the whole token is a literal",
          "first byte and one lookahead byte symbolic, all option fields symbolic, names abstracted to 3 predicates", configs=("fast",),
          also=("C01", "C02", "C13", "C17")),
]
