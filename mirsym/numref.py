"""Independent reference for numeric literals (C05), written from the property text, using Python big integers
and Python's correctly rounded float()."""
import math
import re
import struct

PRE_RE = re.compile(rb"^(?:#([bodxBODX]))?([+-])?(.*)$", re.S)
DEC_RE = re.compile(rb"^([0-9]+)(?:\.([0-9]+))?(?:[eE]([+-]?[0-9]+))?$")
RADIX = {b"b": 2, b"o": 8, b"d": 10, b"x": 16}
DIGITS = {2: rb"^[01]+$", 8: rb"^[0-7]+$", 16: rb"^[0-9a-fA-F]+$"}


def split(text):
    """-> (radix, neg, digits, frac, exp) or None"""
    m = PRE_RE.match(text)
    pre, sign, body = m.groups()
    radix = RADIX[pre.lower()] if pre else 10
    neg = sign == b"-"
    if radix == 10:
        mm = DEC_RE.match(body)
        if not mm:
            return None
        return radix, neg, mm.group(1), mm.group(2), mm.group(3)
    if not re.match(DIGITS[radix], body):
        return None
    return radix, neg, body, None, None


def ref_number(text):
    """-> ('int', n) | ('float', f) | ('range',) | None if `text` is not a literal of the C05 grammar."""
    sp = split(text)
    if sp is None:
        return None
    radix, neg, digs, frac, exp = sp
    mag = int(digs, radix)
    if frac is None and exp is None:
        v = -mag if neg else mag
        if -(1 << 63) <= v <= (1 << 64) - 1:
            return ("int", v)
        try:
            f = float(v)
        except OverflowError:
            return ("range",)
        return ("float", f)
    s = (b"-" if neg else b"") + digs + (b"." + frac if frac else b"") + (b"e" + exp if exp else b"")
    try:
        f = float(s.decode())
    except (ValueError, OverflowError):
        return ("range",)
    if math.isinf(f):
        return ("range",)
    return ("float", f)


def bits(f):
    return struct.unpack("<Q", struct.pack("<d", f))[0]


def exact_region(text, fast):
    """True when C05 demands the correctly rounded double for this decimal literal."""
    sp = split(text)
    if sp is None:
        return False
    radix, neg, digs, frac, exp = sp
    if frac is None and exp is None:
        return False
    alld = (digs + (frac or b"")).lstrip(b"0") or b"0"
    e = int(exp) if exp else 0
    e10 = e - len(frac or b"")
    if int(alld) <= (1 << 53) and abs(e10) <= 22:
        return True
    if not fast and len(alld) <= 19:
        return True
    return False


def compare(text, native, fast=True):
    """native: JSON item from the replay binary ({'t':'int','v':..} | {'t':'float','bits':..} | {'err':{...}}).
    -> (agrees: bool, explanation)"""
    ref = ref_number(text)
    if ref is None:
        return True, "not a literal of the grammar"
    if "crash" in native:
        return False, "native crashed: %r" % (native,)
    if ref[0] == "range":
        ok = "err" in native and native["err"]["code"] == "number out of range"
        return ok, "expected out-of-range rejection, got %r" % (native,)
    if "err" in native:
        return False, "literal %r denotes %r but was rejected: %r" % (text, ref, native["err"])
    if ref[0] == "int":
        ok = native.get("t") == "int" and int(native["v"]) == ref[1]
        return ok, "expected int %d, got %r" % (ref[1], native)
    f = ref[1]
    if native.get("t") != "float":
        return False, "expected float %r, got %r" % (f, native)
    nb = int(native["bits"], 16)
    nf = struct.unpack("<d", struct.pack("<Q", nb))[0]
    if math.isinf(nf) or math.isnan(nf):
        return False, "returned non-finite %r for %r" % (nf, text)
    if exact_region(text, fast):
        ok = nb == bits(f) or (f == 0 and nf == 0 and (nb >> 63) == (bits(f) >> 63))
        return ok, "expected correctly rounded %r (bits %016x), got %r (bits %016x)" % (f, bits(f), nf, nb)
    if f == 0:
        return nf == 0 or abs(nf) < 1e-300, "expected ~0 got %r" % nf
    if abs(f) < 2.3e-308:
        # subnormal range: relative accuracy is not meaningful; allow a few units of the subnormal spacing
        ok = abs(nf - f) <= 8 * 2.0 ** -1074
        return ok, "expected %r within 8 subnormal ulps, got %r" % (f, nf)
    rel = abs(nf - f) / abs(f)
    return rel <= 2.0 ** -50, "expected %r within 2^-50, got %r (rel %g)" % (f, nf, rel)
