"""Claim registry and runner for E2 (mirsym)."""
import importlib
import time
import traceback

import z3

from . import ctx as C
from .symex import Unsupported

MODULES = ["c05", "c03", "c12", "builders", "c19", "c08", "kernels", "printer", "serde", "c06", "c11", "c15", "c16", "scanners", "c10", "options", "shape", "conswalk", "errpos", "utf8dec", "numconv", "entry"]


class Claim:
    def __init__(self, name, prop, tier, fn, text, bound, configs=("fast",), crate="lexpr", also=(), confirm=()):
        self.name, self.prop, self.tier, self.fn = name, prop, tier, fn
        self.also = tuple(also)   # further properties this claim is evidence for
        # native confirmation domains (mirsym.confirm) tried when a counterexample has no reproducing model-directed replay
        self.confirm = tuple(confirm)
        self.text, self.bound, self.configs, self.crate = text, bound, configs, crate


class Result:
    def __init__(self, claim, cfg):
        self.claim = claim
        self.cfg = cfg
        self.queries = 0
        self.paths = 0
        self.solver_s = 0.0
        self.functions = set()
        self.assumptions = []
        self.violations = []     # dicts: {'what', 'model', 'replayed': bool|None, 'replay': {...}}
        self.vacuity = []        # (label, ok)
        self.notes = []
        self.replays = 0
        self.known = []          # known-finding keys that excused a counterexample region
        self.error = None

    # solver helper ---------------------------------------------------------
    def solve(self, constraints, timeout_ms=60000):
        s = z3.Solver()
        s.set("timeout", timeout_ms)
        for c in constraints:
            s.add(c)
        t0 = time.time()
        r = s.check()
        self.solver_s += time.time() - t0
        self.queries += 1
        if r == z3.unsat and getattr(self, "cross_check", False):
            self.cvc5_check(s)
        return r, s

    def cvc5_check(self, s):
        """thorough tier: every `unsat` verdict of z3 is re-decided by cvc5 on the SMT-LIB2 dump of the same query; a `sat`
        from cvc5 is a solver disagreement (the claim becomes inconclusive), unknown / timeout is only counted"""
        import os
        import subprocess
        import tempfile
        self.xc = getattr(self, "xc", {"agree": 0, "unknown": 0, "disagree": 0, "seconds": 0.0})
        txt = "(set-logic ALL)\n" + s.to_smt2()
        for op in ("bvudiv", "bvurem", "bvsdiv", "bvsrem", "bvsmod"):
            txt = txt.replace(op + "_i", op)      # z3's internal total-division names
        fd, path = tempfile.mkstemp(suffix=".smt2", dir=os.path.join(os.path.dirname(os.path.dirname(os.path.abspath(__file__))), ".work"))
        try:
            with os.fdopen(fd, "w") as f:
                f.write(txt)
            t0 = time.time()
            try:
                p = subprocess.run(["cvc5", "--lang", "smt2", "--tlimit", "20000", path], capture_output=True, text=True, timeout=40)
                out = p.stdout.strip().split("\n")[0] if p.stdout.strip() else ""
            except subprocess.TimeoutExpired:
                out = "timeout"
            self.xc["seconds"] += time.time() - t0
            if out == "unsat":
                self.xc["agree"] += 1
            elif out == "sat":
                self.xc["disagree"] += 1
                self.error = "solver disagreement: z3 says unsat, cvc5 says sat (query kept at %s)" % path
                path = None
            else:
                self.xc["unknown"] += 1
                if "why_unknown" not in self.xc:
                    self.xc["why_unknown"] = (out or "no output")[:160]
        finally:
            if path:
                try:
                    os.unlink(path)
                except OSError:
                    pass

    def must_be_unsat(self, constraints, what, on_model=None, timeout_ms=60000):
        """The negated property together with the path condition must be unsat."""
        r, s = self.solve(constraints, timeout_ms)
        if r == z3.unsat:
            return True
        if r == z3.unknown:
            self.error = "solver returned unknown for: " + what
            return False
        m = s.model()
        v = {"what": what, "model": str(m)[:1500], "replayed": None}
        if on_model:
            try:
                v.update(on_model(m) or {})
            except Exception as e:  # noqa
                v["replay_error"] = repr(e)
        self.violations.append(v)
        return False

    def must_be_sat(self, constraints, label, timeout_ms=60000):
        r, s = self.solve(constraints, timeout_ms)
        ok = (r == z3.sat)
        self.vacuity.append((label, ok))
        return s.model() if ok else None

    def absorb(self, engine):
        self.queries += engine.queries
        self.solver_s += engine.solver_s
        self.paths += len(engine.terminals)
        self.functions |= set(short_fn(n) for n in engine.functions_touched)
        for u in sorted(getattr(engine, "unmodelled", ())):
            a = "unmodelled library call over-approximated by an arbitrary result: " + u
            if a not in self.assumptions:
                self.assumptions.append(a)


def short_fn(n):
    import re
    n = re.sub(r"<impl at ([^:>]+):(\d+):[^>]*>", lambda m: "<impl %s:%s>" % (m.group(1).split("/")[-1], m.group(2)), n)
    return n


# claim -> native confirmation domains (see mirsym/confirm.py)
DEFAULT_CONFIRM = {
    "c01_r6rs_escape": ("strings",), "c02_elisp_escape": ("strings",), "c01_escape_composition": ("strings",),
    "c01_r6rs_char": ("chars",), "c02_elisp_char": ("chars",),
    "c03_kernel_totality": ("strings", "chars", "truncation", "tokens"), "c19_kernel_eof": ("truncation", "strings", "chars"),
    "c08_token_dispatch": ("tokens", "numbers", "lists", "histories"), "c08_list_protocol": ("lists", "lists_datum", "value_vs_datum", "tokens"), "c03_builder_depth": ("lists",),
    "c01_byte_list": ("lists",), "c10_builder_lockstep": ("value_vs_datum", "lists_datum", "tokens_datum", "lists", "tokens"),
    "c10_top_lockstep": ("value_vs_datum", "lists_datum", "tokens_datum", "lists", "toplevel"),
    "c12_whitespace": ("lists", "toplevel"), "c12_adapters": ("iteration", "toplevel", "lists"),
    "c19_tables": ("truncation",), "c19_truncation_numbers": ("truncation", "numbers"), 
    "c03_depth_next_value": ("lists",), "c03_depth_next_datum": ("lists",), "c03_initial_depth": ("lists",),
    "c05_num_literal_step": ("numbers",), "c05_num_tail": ("numbers",), "c05_long_integer_step": ("numbers",), "c05_decimal_step": ("numbers",),
    "c05_exponent_step": ("numbers",), "c05_exponent_overflow": ("numbers",), "c05_f64_fast_finite": ("numbers",), "c05_f64_fast_exact": ("numbers",),
    "c05_f64_std": ("numbers",),
    "c07_leaf_emissions": ("print",), "c07_escape_emissions": ("print",), "c07_char_emissions": ("print",),
    "c01_print_list_structure": ("print",),
    "c08_vector_protocol": ("lists", "truncation"), "c14_ser_shapes": ("serde",), "c02_digit_loops": ("strings", "chars"),
    "c14_de_kind_tables": ("serde",), "c14_option": ("serde",), "c18_access_steps": ("serde",), "c04_ser_scalars": ("serde",),
    "c18_error_category": ("serde",), "c15_alist_lookup": ("alist",), "c07_write_discipline": ("printcheck",),
    "c06_symbol_scanners": ("tokens", "lists"), "c06_string_scanners": ("strings",), "c17_unchecked_sites": ("strings", "tokens"),
}


def all_claims():
    out = []
    for m in MODULES:
        try:
            mod = importlib.import_module("mirsym." + m)
        except ImportError as e:
            if "No module named 'mirsym.%s'" % m in str(e):
                continue
            raise
        out.extend(mod.CLAIMS)
    return out


def run(prop, tier, seed, kf_keys, only=None):
    res = []
    claims = [c for c in all_claims() if (c.prop == prop or prop in getattr(c, 'also', ())) and (tier == "thorough" or c.tier == "quick")]
    if only:
        claims = [c for c in claims if only in c.name] or []
    for c in claims:
        for cfg in c.configs:
            t0 = time.time()
            r = Result(c, cfg)
            r.cross_check = (tier == "thorough")
            try:
                cx = C.load(c.crate, fast_float=(cfg == "fast"))
                c.fn(cx, r, set(kf_keys))
                domains = c.confirm or DEFAULT_CONFIRM.get(c.name, ())
                if r.violations and domains and not any(v.get("replayed") for v in r.violations):
                    from . import confirm as CF
                    out = CF.confirm(domains, r, fast=(cfg == "fast"))(None)
                    r.violations[0].update(out)
            except Unsupported as e:
                r.error = "unsupported: %s" % e
            except Exception as e:  # noqa
                r.error = "engine error: %r\n%s" % (e, traceback.format_exc()[-1500:])
            res.append(summarize(r, time.time() - t0))
    return res


def summarize(r, wall):
    c = r.claim
    name = "%s[%s]" % (c.name, r.cfg)
    vac_ok = all(ok for _, ok in r.vacuity)
    d = {"name": name, "text": c.text, "bound": c.bound, "queries": r.queries, "paths": r.paths,
         "solver_s": round(r.solver_s, 2), "wall_s": round(wall, 1), "functions": sorted(r.functions),
         "assumptions": r.assumptions, "vacuity_ok": vac_ok, "replays": r.replays,
         "vacuity": [l for l, ok in r.vacuity if not ok], "notes": r.notes, "known": r.known}
    if getattr(r, "xc", None):
        d["cvc5_cross_check"] = {k: (round(v, 1) if isinstance(v, float) else v) for k, v in r.xc.items()}
    if r.error:
        d["status"] = "inconclusive"
        d["detail"] = r.error
    elif r.violations:
        rep = [v for v in r.violations if v.get("replayed")]
        d["witness"] = (rep or r.violations)[0]
        if rep:
            d["status"] = "violation"
            d["replayed"] = True
            d["replay_path"] = save_replay(c.prop, name, rep[0])
            d["props"] = (c.prop,) + c.also
        else:
            d["status"] = "violation"
            d["replayed"] = False
    elif not vac_ok:
        d["status"] = "inconclusive"
        d["detail"] = "vacuity witnesses not satisfied: %s" % d["vacuity"]
    else:
        d["status"] = "held"
    return d


def save_replay(prop, name, v):
    import json
    import os
    from . import replay as RP
    ddir = os.path.join(RP.VERIF, "replays", prop)
    os.makedirs(ddir, exist_ok=True)
    p = os.path.join(ddir, name.replace("[", "_").replace("]", "") + ".json")
    with open(p, "w") as f:
        json.dump({"engine": "mirsym", "claim": name, "what": v.get("what"), "model": v.get("model"),
                   "witness": v.get("witness"), "observed": v.get("observed")}, f, indent=1)
    return p
