"""Option sets (C08 / C02): what the user builds with the public builder API is exactly the field state the parser / printer
claims quantify over.  Every `with_*` builder changes its own field and nothing else, the getters return the fields, the
keyword flags are non-zero and pairwise disjoint (so `keyword_syntax(s)` tests exactly s), the presets are the documented ones."""
import os
import re

import z3

from . import common as K
from . import ctx as C
from . import replay as RP
from . import stubs as S
from .claims import Claim
from .symex import Agg, Blob, BoolV, EnumV, Int, Opaque, Ref, UnitV, Unsupported

PARSE_ENUM = {"nil_symbol": "NilSymbol", "t_symbol": "TSymbol", "brackets": "Brackets", "string_syntax": "StringSyntax", "char_syntax": "CharSyntax"}
PRINT_ENUM = {"keyword_syntax": "KeywordSyntax", "nil_syntax": "NilSyntax", "bool_syntax": "BoolSyntax", "vector_syntax": "VectorSyntax",
              "bytes_syntax": "BytesSyntax", "string_syntax": "StringSyntax", "char_syntax": "CharSyntax"}
PARSE_PRESETS = {
    "new": {"keyword_syntaxes": set(), "nil_symbol": "Default", "t_symbol": "Default", "brackets": "List", "string_syntax": "R6RS",
            "char_syntax": "R6RS", "racket_hash_percent_symbols": False, "leading_digit_symbols": False},
    "default": {"keyword_syntaxes": {"Octothorpe"}, "nil_symbol": "Default", "t_symbol": "Default", "brackets": "List", "string_syntax": "R6RS",
                "char_syntax": "R6RS", "racket_hash_percent_symbols": False, "leading_digit_symbols": False},
    "elisp": {"keyword_syntaxes": {"ColonPrefix"}, "nil_symbol": "EmptyList", "t_symbol": "Default", "brackets": "Vector", "string_syntax": "Elisp",
              "char_syntax": "Elisp", "racket_hash_percent_symbols": False, "leading_digit_symbols": True},
}
PRINT_PRESETS = {
    "default": {"keyword_syntax": "Octothorpe", "nil_syntax": "Token", "bool_syntax": "Token", "vector_syntax": "Octothorpe", "bytes_syntax": "R7RS",
                "string_syntax": "R6RS", "char_syntax": "R6RS"},
    "elisp": {"keyword_syntax": "ColonPrefix", "nil_syntax": "Symbol", "bool_syntax": "Symbol", "vector_syntax": "Brackets", "bytes_syntax": "Elisp",
              "string_syntax": "Elisp", "char_syntax": "Elisp"},
}


def fields_of(path):
    return C.parse_structs_from_source([os.path.join(C.REPO, path)]).get("Options")


def find(cx, file_part, name, self_part=None, nargs=None):
    for n, f in cx.fns.items():
        if file_part in n and n.endswith("::" + name) and "{closure" not in n:
            if nargs is not None and len(f.args) != nargs:
                continue
            if self_part is None or (f.args and self_part in f.local_ty.get(f.args[0], "")) or (not f.args and self_part in (f.ret_ty or "")):
                return f
    return None


def keyword_flags(cx, res):
    """concrete run of KeywordSyntax::to_flag for each variant -> {variant: int}"""
    fn = find(cx, "lexpr/src/syntax.rs", "to_flag")
    KS = cx.enums["KeywordSyntax"]
    out = {}
    if fn is None:
        return None
    for i, nm in enumerate(KS):
        eng = C.make_engine(cx, [], loop_mode="cut", timeout_s=30)
        eng.stubs = S.CORE_STUBS

        def init(e, st, fr, i=i):
            fr.locals[fn.args[0]] = EnumV("KeywordSyntax", i, {})
            return []
        terms = eng.explore(fn.name, init)
        res.absorb(eng)
        vals = [K.concrete(t.value.e) for t in terms if t.kind == "RETURN" and isinstance(t.value, Int)]
        if len(vals) != 1 or vals[0] is None:
            return None
        out[nm] = vals[0]
    return out


def options_replay(res):
    def f(m=None):
        # the presets and builders through the public API: option-sensitive tokens under each constructed option set
        from . import confirm as CF
        return CF.confirm(("tokens", "print"), res)(None)
    return f


def sym_options(cx, e, fields, enum_map, label):
    vals, cons, ov = [], [], {}
    for f in fields:
        if f == "keyword_syntaxes":
            v = e.sym_int("u8", label + "_kw")
        elif f in enum_map:
            v, c = K.sym_enum(e, enum_map[f], label + "_" + f)
            cons.append(c)
        else:
            v = e.sym_bool(label + "_" + f)
        vals.append(v)
        ov[f] = v
    return Agg("struct", "Options", vals), cons, ov


def same(a, b):
    ae = a.discr if isinstance(a, EnumV) else a.e
    be = b.discr if isinstance(b, EnumV) else b.e
    if isinstance(ae, int):
        ae = z3.BitVecVal(ae, 64)
    if isinstance(be, int):
        be = z3.BitVecVal(be, 64)
    return ae == be


def claim_options_api(cx, res, kf):
    onm = options_replay(res)
    flags = keyword_flags(cx, res)
    KS = cx.enums["KeywordSyntax"]
    if not flags:
        res.error = "KeywordSyntax::to_flag could not be evaluated"
        return
    fl = [flags[k] for k in KS]
    if any(f == 0 or f > 255 for f in fl) or any(fl[i] & fl[j] for i in range(len(fl)) for j in range(i + 1, len(fl))):
        v = {"what": "keyword syntax flags %r are not non-zero and pairwise disjoint: enabling one spelling enables / tests another" % flags, "replayed": None}
        v.update(onm() or {})
        res.violations.append(v)
    if (flags.get("ColonPrefix"), flags.get("ColonPostfix"), flags.get("Octothorpe")) != (1, 2, 4):
        res.notes.append("keyword flag values differ from the (1, 2, 4) the token claims use for the raw field")
        res.violations.append({"what": "keyword flag values %r differ from the encoding assumed by the token claims (c08_token_dispatch)" % flags, "replayed": None})
    n_ok = 0
    for path, enum_map, presets, self_ty in (("lexpr/src/parse/mod.rs", PARSE_ENUM, PARSE_PRESETS, "parse::Options"),
                                             ("lexpr/src/print.rs", PRINT_ENUM, PRINT_PRESETS, "print::Options")):
        fields = fields_of(path)
        if not fields:
            res.error = "Options fields not found in %s" % path
            return
        is_parse = "parse" in path

        def flag_of(sv):
            out = z3.BitVecVal(0, 8)
            for i, nm in enumerate(KS):
                out = z3.If(sv.discr == i, z3.BitVecVal(flags[nm], 8), out)
            return out
        # ---- builders
        for f in fields:
            bname = "with_" + ("keyword_syntax" if f == "keyword_syntaxes" else f)
            fn = find(cx, path, bname, "Options", nargs=2)
            if fn is None:
                res.violations.append({"what": "%s::%s not found" % (self_ty, bname), "replayed": None})
                continue
            eng = C.make_engine(cx, [], loop_mode="cut", timeout_s=30)
            eng.stubs = S.COMBINATOR_STUBS + S.CORE_STUBS
            info = {}

            def init(e, st, fr, f=f, fn=fn):
                o, cons, ov = sym_options(cx, e, fields, enum_map, "o")
                fr.locals[fn.args[0]] = o
                if f == "keyword_syntaxes":
                    a, c = K.sym_enum(e, "KeywordSyntax", "arg")
                    cons.append(c)
                elif f in enum_map:
                    a, c = K.sym_enum(e, enum_map[f], "arg")
                    cons.append(c)
                else:
                    a = e.sym_bool("arg")
                fr.locals[fn.args[1]] = a
                info.update(ov=ov, arg=a)
                return cons
            terms = eng.explore(fn.name, init)
            res.absorb(eng)
            for t in terms:
                pc = list(t.state.pc)
                if t.kind != "RETURN" or not isinstance(t.value, Agg):
                    res.must_be_unsat(pc, "%s::%s does not return an option set (%s)" % (self_ty, bname, t.kind), onm)
                    continue
                n_ok += 1
                for g, nv in zip(fields, t.value.fields):
                    old = info["ov"][g]
                    if g == f:
                        if f == "keyword_syntaxes":
                            want = nv.e == (old.e | flag_of(info["arg"]))
                            res.must_be_unsat(pc + [z3.Not(want)], "%s::%s does not ADD the given keyword spelling to the enabled ones" % (self_ty, bname), onm)
                        else:
                            res.must_be_unsat(pc + [z3.Not(same(nv, info["arg"]))], "%s::%s does not store the given value" % (self_ty, bname), onm)
                    else:
                        res.must_be_unsat(pc + [z3.Not(same(nv, old))], "%s::%s also changes `%s`" % (self_ty, bname, g), onm)
        # ---- getters (parse options only have them)
        if is_parse:
            for f in fields:
                if f == "keyword_syntaxes":
                    continue
                fn = find(cx, path, f, "Options", nargs=1)
                if fn is None:
                    continue
                eng = C.make_engine(cx, [], loop_mode="cut", timeout_s=30)
                eng.stubs = S.CORE_STUBS
                info = {}

                def init(e, st, fr, fn=fn):
                    o, cons, ov = sym_options(cx, e, fields, enum_map, "o")
                    fr.locals[fn.args[0]] = o
                    info.update(ov=ov)
                    return cons
                terms = eng.explore(fn.name, init)
                res.absorb(eng)
                for t in terms:
                    if t.kind == "RETURN":
                        n_ok += 1
                        res.must_be_unsat(list(t.state.pc) + [z3.Not(same(t.value, info["ov"][f]))], "parse::Options::%s() does not return that option" % f, onm)
            fn = find(cx, path, "keyword_syntax", "Options", nargs=2)
            if fn is not None:
                eng = C.make_engine(cx, [], loop_mode="cut", timeout_s=30)
                eng.stubs = S.CORE_STUBS
                info = {}

                def init(e, st, fr, fn=fn):
                    o, cons, ov = sym_options(cx, e, fields, enum_map, "o")
                    a, c = K.sym_enum(e, "KeywordSyntax", "arg")
                    fr.locals[fn.args[0]], fr.locals[fn.args[1]] = o, a
                    info.update(ov=ov, arg=a)
                    return cons + [c]
                terms = eng.explore(fn.name, init)
                res.absorb(eng)
                for t in terms:
                    if t.kind == "RETURN":
                        n_ok += 1
                        want = (info["ov"]["keyword_syntaxes"].e & flag_of(info["arg"])) != 0
                        res.must_be_unsat(list(t.state.pc) + [t.value.e != want], "parse::Options::keyword_syntax(s) is not `the flag of s is set`", onm)
        # ---- presets
        for pname, want in presets.items():
            if pname == "default":
                fn = None
                for n, f_ in cx.fns.items():
                    if path in n and n.endswith("::default") and not f_.args and "Options" in (f_.ret_ty or ""):
                        fn = f_
            else:
                fn = find(cx, path, pname, "Options", nargs=0)
            if fn is None:
                res.violations.append({"what": "%s::%s() not found" % (self_ty, pname), "replayed": None})
                continue
            eng = C.make_engine(cx, [], loop_mode="cut", timeout_s=30)
            eng.stubs = S.COMBINATOR_STUBS + S.CORE_STUBS
            terms = eng.explore(fn.name, lambda e, st, fr: [])
            res.absorb(eng)
            rets = [t for t in terms if t.kind == "RETURN" and isinstance(t.value, Agg)]
            if len(rets) != 1:
                res.violations.append({"what": "%s::%s() does not evaluate to one option set" % (self_ty, pname), "replayed": None})
                continue
            n_ok += 1
            for g, nv in zip(fields, rets[0].value.fields):
                w = want[g]
                if g == "keyword_syntaxes":
                    wv = 0
                    for s_ in w:
                        wv |= flags[s_]
                    got = K.concrete(nv.e)
                    okv = got == wv
                elif isinstance(w, bool):
                    got = K.concrete(nv.e)
                    okv = got == w
                else:
                    en = cx.enums[enum_map[g]]
                    got = K.concrete(nv.discr) if isinstance(nv, EnumV) else None
                    okv = got is not None and en[got] == w
                    got = en[got] if got is not None and got < len(en) else got
                if not okv:
                    v = {"what": "%s::%s(): `%s` is %r, documented %r" % (self_ty, pname, g, got, sorted(w) if isinstance(w, set) else w), "replayed": None}
                    v.update(preset_replay(res, is_parse, pname)() or {})
                    res.violations.append(v)
    res.vacuity.append(("option builders / getters / presets evaluated", n_ok >= 25))


def preset_replay(res, is_parse, pname):
    """native: the preset option string of the replay binary against the explicit field encoding"""
    def f(m=None):
        from . import refimpl as R
        from . import confirm as CF
        if is_parse:
            want = {"default": R.POpts.default(), "elisp": R.POpts.elisp(), "new": R.POpts(k=0)}[pname]
            if pname == "new":
                return {"replayed": False}
            cases = [(pre + tok + post, want) for tok in CF.TOKENS for pre, post in CF.CONTEXTS[:4]]
            nat = RP.parse_batch([(d, pname) for d, _ in cases], "slice", "single")
            res.replays += len(cases)
            for (d, o), nv in zip(cases, nat):
                ok, why = R.same(R.read_single(d, o), nv)
                if not ok:
                    return {"replayed": True, "observed": {"input": d.decode("latin-1"), "preset": pname, "why": why},
                            "witness": {"kind": "parse", "input_hex": d.hex(), "opts": pname, "src": "slice", "api": "single", "fast": True}}
            return {"replayed": False}
        want = {"default": R.PRINT_DEFAULT, "elisp": R.PRINT_ELISP}[pname]
        vals = R.print_corpus()
        nat = RP.print_batch([(pname, R.desc(v)) for v in vals])
        res.replays += len(vals)
        for v, g in zip(vals, nat):
            w = R.ref_print(v, want)
            if g != w:
                return {"replayed": True, "observed": {"value": R.desc(v), "preset": pname, "printed": g.decode("latin-1") if isinstance(g, bytes) else g, "expected": w.decode("latin-1")},
                        "witness": {"kind": "print", "value": R.desc(v), "print_opts": pname, "expect_text_hex": w.hex(), "fast": True}}
        return {"replayed": False}
    return f


CLAIMS = [
    Claim("c08_options_api", "C08", "quick", claim_options_api,
          "parser and printer option sets: every with_* builder changes exactly its own field (with_keyword_syntax adds the "
          "spelling's flag), every getter returns its field, keyword_syntax(s) tests exactly the flag of s, the flags are non-zero "
          "and pairwise disjoint, and new() / default() / elisp() are the documented presets",
          "arbitrary option sets and arguments; 15 builders, 8 getters, 5 presets", configs=("fast",), also=("C02", "C13")),
]
