"""Builds the analysis context from /repo's current working tree: MIR dumps (nightly rustc), parsed functions,
static tables, enum/struct layouts read from the source, and the function-resolution index."""
import glob
import os
import re
import subprocess
import time

from . import mirparse
from .symex import Engine, parse_enums_from_source, strip_generics

REPO = os.environ.get("LEXPR_REPO", "/repo")
VERIF = os.path.dirname(os.path.dirname(os.path.abspath(__file__)))
WORK = os.path.join(VERIF, ".work", "mir")


class Context:
    def __init__(self, crate="lexpr", fast_float=True):
        self.crate = crate
        self.fast_float = fast_float
        self.fns = {}
        self.statics = {}
        self.enums = {}
        self.structs = {}
        self.index = {}
        self.dump_s = 0.0
        self.mir_path = None

    def key(self):
        return "%s-%s" % (self.crate, "fast" if self.fast_float else "nofast")


_CACHE = {}


def dump_mir(crate, fast_float):
    os.makedirs(WORK, exist_ok=True)
    tag = "%s-%s" % (crate, "fast" if fast_float else "nofast")
    out = os.path.join(WORK, tag + ".mir")
    cdir = os.path.join(REPO, crate)
    env = dict(os.environ)
    env["CARGO_NET_OFFLINE"] = "true"
    env.pop("RUSTFLAGS", None)
    cmd = ["cargo", "+nightly", "rustc", "--offline", "--lib", "--target-dir", os.path.join(WORK, "target-" + tag)]
    if crate == "lexpr" and not fast_float:
        cmd += ["--no-default-features"]
    cmd += ["--", "-Zunpretty=mir", "-C", "debug-assertions=off", "-C", "overflow-checks=on"]
    # force re-emission: touch lib.rs mtime is not allowed to modify /repo -> use a distinct target dir + cargo clean -p
    subprocess.run(["cargo", "+nightly", "clean", "--offline", "-p", crate.replace("-", "_") if False else crate,
                    "--target-dir", os.path.join(WORK, "target-" + tag)], cwd=cdir, env=env,
                   stdout=subprocess.DEVNULL, stderr=subprocess.DEVNULL)
    t0 = time.time()
    p = subprocess.run(cmd, cwd=cdir, env=env, capture_output=True, text=True, timeout=600)
    if p.returncode != 0 or len(p.stdout) < 1000:
        raise RuntimeError("MIR dump failed for %s: %s" % (tag, p.stderr[-2000:]))
    tmp = "%s.%d.tmp" % (out, os.getpid())
    with open(tmp, "w") as f:
        f.write(p.stdout)
    os.replace(tmp, out)      # atomic: a concurrent check never reads a half-written dump
    return out, time.time() - t0


def source_files(crate):
    return sorted(glob.glob(os.path.join(REPO, crate, "src", "**", "*.rs"), recursive=True))


def parse_structs_from_source(paths):
    out = {}
    for p in paths:
        try:
            src = open(p).read()
        except OSError:
            continue
        src = re.sub(r"//[^\n]*", "", src)
        for m in re.finditer(r"\bstruct\s+([A-Za-z_][A-Za-z0-9_]*)\s*(?:<[^>{;(]*>)?\s*(?:where[^{]*)?\{", src):
            j = mirparse.find_matching(src, m.end() - 1)
            body = src[m.end():j]
            fields = []
            for item in mirparse.split_top(body):
                item = re.sub(r"#\[[^\]]*\]", "", item).strip()
                mm = re.match(r"(?:pub(?:\([^)]*\))?\s+)?([A-Za-z_][A-Za-z0-9_]*)\s*:", item)
                if mm:
                    fields.append(mm.group(1))
            out.setdefault(m.group(1), fields)
    return out


IMPL_RE = re.compile(r"impl\s*(?:<[^{]*?>)?\s*(?:(?P<trait>[A-Za-z_][\w:]*(?:<[^{]*?>)?)\s+for\s+)?(?P<ty>&?\s*(?:'\w+\s+)?(?:mut\s+)?[A-Za-z_][\w:]*)")


def build_index(ctx):
    """Resolution keys for function definitions: 'Type::method', '<Type as Trait>::method', 'mod::free_fn', 'free_fn'."""
    idx = {}
    count = {}
    multi = {}
    src_cache = {}
    for name, f in ctx.fns.items():
        base = re.sub(r"#\d+$", "", name)
        keys = []
        m = re.search(r"<impl at ([^:>]+):(\d+):(\d+): (\d+):(\d+)>::(.+)$", base)
        if m:
            path = os.path.join(REPO, m.group(1))
            if path not in src_cache:
                try:
                    src_cache[path] = open(path).read().split("\n")
                except OSError:
                    src_cache[path] = []
            lines = src_cache[path]
            ln = int(m.group(2)) - 1
            text = " ".join(lines[ln:ln + 4]) if ln < len(lines) else ""
            text = text[int(m.group(3)) - 1:] if ln < len(lines) else ""
            mm = IMPL_RE.match(text.strip())
            meth = m.group(6)
            if mm:
                ty = re.sub(r"'\w+\s*", "", mm.group("ty")).replace("&", "").replace("mut ", "").strip().split("::")[-1]
                if mm.group("trait"):
                    tr = strip_generics(mm.group("trait")).split("::")[-1]
                    keys.append("<%s as %s>::%s" % (ty, tr, meth))
                else:
                    keys.append("%s::%s" % (ty, meth))
            else:
                keys.append("?derive::" + meth)
        else:
            keys.append(base)
            keys.append(base.split("::")[-1] if "{closure" not in base else base)
        if "{closure" in base and f.args:
            tag = f.local_ty.get(f.args[0], "").replace("&mut ", "").replace("&", "").strip()
            if tag.startswith("{closure@"):
                keys.append(tag)
        for k in keys:
            count[k] = count.get(k, 0) + 1
            idx.setdefault(k, f)
            multi.setdefault(k, []).append(f)
    ctx.index = idx
    ctx.index_count = count
    ctx.index_multi = multi


def resolve_callee(ctx, callee):
    c = callee.strip()
    c = re.sub(r"::<[^<>]*>$", "", c)      # trailing method generics  ...::write_bool::<W>
    if c.startswith("<"):
        # <Type as Trait>::method  (generic args stripped from both sides)
        m = re.match(r"^<(.+) as (.+)>::(\w+)$", c)
        if not m:
            return None
        ty = strip_generics(m.group(1)).replace("&", "").replace("mut ", "").strip().split("::")[-1]
        tr = strip_generics(m.group(2)).split("::")[-1]
        key = "<%s as %s>::%s" % (ty, tr, m.group(3))
        cands = ctx.index_multi.get(key, [])
        if len(cands) > 1:
            # macro-generated impls share one span: pick by the trait's generic argument == first parameter type
            ga = re.search(r"<(.*)>\s*$", m.group(2))
            if ga:
                want = ga.group(1).strip()
                for f in cands:
                    if f.args and f.local_ty.get(f.args[0], "").strip() == want:
                        return f
            return None
        return ctx.index.get(key)
    s = strip_generics(c)
    parts = s.split("::")
    for k in range(len(parts)):
        key = "::".join(parts[k:])
        if key in ctx.index:
            if k == len(parts) - 1 and ctx.index_count.get(key, 0) > 1 and len(parts) > 1:
                continue
            cands = ctx.index_multi.get(key, [])
            if len(cands) > 1 and len(parts) == 1:
                # a bare name printed by rustc is a free function: prefer the definition whose parent path segment is a
                # module (lower case) over trait / type methods of the same name
                free = []
                for f in cands:
                    segs = re.sub(r"#\d+$", "", f.name).split("::")
                    if "<impl" in f.name:
                        continue
                    if len(segs) == 1 or segs[-2][:1].islower():
                        free.append(f)
                if free:
                    return free[0]
            return ctx.index[key]
    return None


def load(crate="lexpr", fast_float=True, force=False):
    key = (crate, fast_float)
    if key in _CACHE and not force:
        return _CACHE[key]
    ctx = Context(crate, fast_float)
    ctx.mir_path, ctx.dump_s = dump_mir(crate, fast_float)
    ctx.fns, ctx.statics = mirparse.parse_mir(open(ctx.mir_path).read())
    srcs = source_files(crate)
    if crate != "lexpr":
        srcs += source_files("lexpr")
    ctx.enums = parse_enums_from_source(srcs)
    ctx.structs = parse_structs_from_source(srcs)
    build_index(ctx)
    _CACHE[key] = ctx
    return ctx


def make_engine(ctx, stubs, **kw):
    e = Engine(ctx.fns, ctx.statics, ctx.enums, stubs, **kw)
    e.ctx = ctx
    e.find_fn = lambda callee: resolve_callee(ctx, callee)
    return e
