"""C03 — recursion is bounded: the depth-counter protocol of next_value / next_datum (E2)."""
import z3

from . import common as K
from . import ctx as C
from . import replay as RP
from . import stubs as S
from .claims import Claim
from .symex import Agg, Blob, BoolV, EnumV, F64, Int, Opaque, ENUM_PAYLOADS, UNINIT


def bv(v, w=64):
    return z3.BitVecVal(v, w)


def sym_token(engine):
    """An arbitrary Token: symbolic discriminant, payloads fresh per variant."""
    names = engine.enums["Token"]
    d = z3.BitVec("tok_%d" % next(engine.fresh), 64)
    variants = {}
    for i, n in enumerate(names):
        tys = ENUM_PAYLOADS.get("Token", {}).get(n, [])
        flds = []
        for ty in tys:
            v = engine.fresh_for_type(ty, "tokp")
            flds.append(v if v is not None else Blob("tok:" + n))
        variants[i] = flds
    return EnumV("Token", d, variants), z3.ULT(d, bv(len(names)))


def depth_stubs(cx, engine, rec_names, builder_names):
    """parse_token -> arbitrary token or error; builders / recursive calls / end_seq -> arbitrary Result, with the
    depth counter observed at the moment of the call."""
    import re

    def h_token(engine, st, fr, callee, argv, m):
        tok, c = sym_token(engine)
        engine.solver.add(c)
        st.pc.append(c)
        is_err = z3.Bool("tok_err_%d" % next(engine.fresh))
        st.events.append(("call", "parse_token", argv[1:], st.notes.get("idx")))
        st.notes["token"] = tok.discr
        return S.mk_result(engine, is_err, tok, Opaque("Error", "from:parse_token", {"kind": "callee"}))

    def mk(nm, may_reenter):
        def h(engine, st, fr, callee, argv, m):
            f = C.resolve_callee(cx, callee)
            ret = f.ret_ty if f else ""
            d = K.depth_of(cx, st)
            st.events.append(("call", nm, argv[1:], d.e, may_reenter))
            is_err = z3.Bool("ret_err_%s_%d" % (nm, next(engine.fresh)))
            if "Result<Option<" in ret:
                pres = z3.Bool("ret_some_%d" % next(engine.fresh))
                okv = S.mk_option(pres, Blob("ret:" + nm))
            elif "Result<()" in ret:
                from .symex import UnitV
                okv = UnitV()
            else:
                okv = Blob("ret:" + nm)
            return S.mk_result(engine, is_err, okv, Opaque("Error", "from:" + nm, {"kind": "callee"}))
        return (re.compile(r"^Parser::<[^>]*>::%s$" % nm), h)
    out = [(re.compile(r"^Parser::<[^>]*>::parse_token$"), h_token)]
    out += [mk(n, True) for n in rec_names + builder_names]
    out += [mk(n, False) for n in ["end_seq", "parse_byte_list", "parse_whitespace_never"]]
    return out


def replay_depth(res, text, api, expect_crash_is_violation=True):
    nat = RP.parse(text, "default", "slice", api, fast=True, timeout=60)
    res.replays += 1
    return nat


def claim_depth(which):
    builders = {"next_value": ["parse_vector", "parse_list"], "next_datum": ["parse_vector_meta", "parse_list_meta"]}[which]

    def run(cx, res, kf):
        res.assumptions += [
            "parse_token returns an arbitrary token (any of the 13 kinds, arbitrary payload) or an error; the list/"
            "vector builders, end_seq, parse_byte_list and the recursive call return arbitrary results (their own "
            "claims); what is decided here is the depth-counter protocol of this function for every such behaviour",
            "remaining_depth >= 1 on entry (shown inductively: initial value 128, every callee entered with >= 1)",
        ]
        eng = C.make_engine(cx, [], loop_mode="cut", timeout_s=200, max_paths=20000)
        rd = S.Reader(eng, with_io_errors=True)
        eng.stubs = (S.reader_stubs(rd) + depth_stubs(cx, eng, [which], builders) + S.COMBINATOR_STUBS + S.BUILDER_STUBS
                     + S.CORE_STUBS)
        fn = C.resolve_callee(cx, "Parser::<R>::" + which)
        info = {}

        def init(e, st, fr):
            ref, cons, ov = K.parser_state(cx, e, st)
            fr.locals[1] = ref
            info["d0"] = ov["remaining_depth"]
            st.notes["idx"] = z3.BitVec("idx0", 64)
            return cons + rd.base + [z3.UGE(info["d0"], bv(1, 8))]
        terms = eng.explore(fn.name, init)
        res.absorb(eng)
        d0 = info["d0"]
        names = eng.enums["Token"]
        opens = [names.index(n) for n in ("ListOpen", "VecOpen")]
        quot = names.index("Quotation")
        RLE = eng.enums["ErrorCode"].index("RecursionLimitExceeded")
        seen = {"builder": 0, "rec": 0, "limit": 0, "ret": 0}

        def deep(open_char, n):
            return (open_char * n + b"x").decode("latin-1").encode("latin-1")
        for t in terms:
            st = t.state
            pc = list(st.pc)
            if t.kind == "PANIC":
                res.must_be_unsat(pc, "%s: reachable panic `%s` with depth >= 1" % (which, t.info["msg"]))
                continue
            if t.kind == "LOOP_BACK":
                # whitespace loop inside parse_whitespace: depth untouched
                continue
            if t.kind != "RETURN":
                res.violations.append({"what": "unexpected terminal %r" % (t,), "replayed": None})
                continue
            seen["ret"] += 1
            dend = K.depth_of(cx, st).e

            def on_drift(m):
                # call history on ONE parser: 140 failing items of some shape, then a well-formed 100-level datum,
                # which must still be accepted (and nothing may crash)
                api = "valuec" if which == "next_value" else "datumc"
                good = b"(" * 100 + b"x" + b")" * 100
                last = None
                for bad in (b"(" * 130 + b" ", b"'#z ", b"`#z ", b",@#z ", b"#(" * 130 + b" ", b"'(" * 70 + b" ", b"') ", b"(1 . ') "):
                    text = bad * 140 + b" " + good
                    nat = RP.parse(text, "default", "slice", api, fast=True, timeout=120)
                    res.replays += 1
                    last = nat
                    broken = "crash" in nat or not nat.get("trace", "").endswith("o") or \
                        "recursion limit" in nat.get("last_err", "") and nat.get("trace", "e")[-1] != "o"
                    if broken:
                        return {"replayed": True, "witness": {"kind": "parse", "input_hex": text.hex(), "opts": "default",
                                                              "src": "slice", "api": api, "fast": True,
                                                              "expect": {"trace_endswith": "o"}},
                                "observed": str(nat)[:300]}
                return {"replayed": False, "observed": str(last)[:300]}
            res.must_be_unsat(pc + [dend != d0], "%s: a return path leaves remaining_depth changed (drifts towards 0 - 1)" % which, on_drift)
            for ev in st.events:
                if ev[0] != "call" or len(ev) < 5:
                    continue
                nm, dcall, reenter = ev[1], ev[3], ev[4]
                if nm in builders:
                    seen["builder"] += 1
                    res.must_be_unsat(pc[:] + [z3.Not(z3.And(dcall == d0 - 1, z3.UGE(dcall, bv(1, 8))))],
                                      "%s: builder %s entered without charging one level (or with depth 0)" % (which, nm))
                elif nm == which:
                    seen["rec"] += 1

                    def on_quote(m):
                        text = b"'" * 200000 + b"x"
                        nat = RP.parse(text, "default", "slice", "value" if which == "next_value" else "datum", fast=True, timeout=120)
                        res.replays += 1
                        bad = "crash" in nat
                        return {"replayed": bad, "witness": {"kind": "parse", "input": "' x 200000 + x", "opts": "default",
                                                             "src": "slice", "api": "value", "fast": True, "gen": "quotes200000"},
                                "observed": str(nat)[:300]}
                    res.must_be_unsat(pc[:] + [z3.Not(z3.And(z3.ULT(dcall, d0), z3.UGE(dcall, bv(1, 8))))],
                                      "%s: recursive call for a quote shorthand does not decrease the depth counter "
                                      "(unbounded recursion through ' ` , ,@)" % which, on_quote)
            kind, payload = K.classify_return(eng, t)
            if kind == "err" and K.err_code_index(eng, payload) == RLE:
                seen["limit"] += 1
                res.must_be_unsat(pc + [z3.UGE(d0, bv(2, 8))], "%s: recursion-limit error although at least 2 levels remain" % which)
        for k, n in seen.items():
            res.vacuity.append(("%s reaches %s" % (which, k), n > 0))
    return run


def claim_initial_depth(cx, res, kf):
    """Parser::new / with_options start with remaining_depth = 128 (>= 101 so that 100 levels are accepted)."""
    for ctor in ("new", "with_options"):
        eng = C.make_engine(cx, [], loop_mode="unroll", unroll=1, timeout_s=60)
        eng.stubs = S.opaque_builder([r"^Vec::<u8>::with_capacity$", r"^<parse::Options as Default>::default$"]) + S.CORE_STUBS
        fn = C.resolve_callee(cx, "Parser::<R>::" + ctor)
        if fn is None:
            res.error = "constructor %s not found" % ctor
            return

        def init(e, st, fr):
            fr.locals[1] = Opaque("R", "read")
            if len(fn.args) > 1:
                fr.locals[2] = Opaque("Options", "opts")
            return []
        terms = eng.explore(fn.name, init)
        res.absorb(eng)
        ok = 0
        for t in terms:
            if t.kind == "RETURN" and isinstance(t.value, Agg):
                pf = cx.structs["Parser"]
                d = t.value.fields[pf.index("remaining_depth")]
                res.must_be_unsat(list(t.state.pc) + [z3.Not(z3.And(z3.UGE(d.e, bv(101, 8)), z3.ULE(d.e, bv(200, 8))))],
                                  "Parser::%s: initial depth budget outside [101, 200]" % ctor)
                ok += 1
        res.vacuity.append(("Parser::%s returns a parser" % ctor, ok == 1))


CLAIMS = [
    Claim("c03_depth_next_value", "C03", "quick", claim_depth("next_value"),
          "next_value: for every token kind and every behaviour of its callees, every return path restores the depth "
          "counter, every call that can re-enter the parser (list/vector builders, quote shorthands) happens at a "
          "strictly smaller non-zero depth, no counter underflow, limit error only when fewer than 2 levels remain",
          "all u8 depths >= 1, all 13 token kinds, arbitrary callee results, EOF / I/O error anywhere", configs=("fast",),
          also=("C01", "C04", "C13", "C16")),
    Claim("c03_depth_next_datum", "C03", "quick", claim_depth("next_datum"),
          "next_datum: same depth protocol as next_value", "as c03_depth_next_value", configs=("fast",), also=("C10", "C16")),
    Claim("c03_initial_depth", "C03", "quick", claim_initial_depth,
          "both Parser constructors start with a depth budget in [101, 200] (>= 100 levels accepted, documented limit 128)",
          "constructors new / with_options", configs=("fast",)),
]
