"""E2 over the list / vector builders (parse_list, parse_list_meta, parse_vector, parse_vector_meta, end_seq):
 * depth invariance (C03), * closer / dotted-tail protocol (C08, C12), * value-vs-datum lockstep (C10)."""
import re

import z3

from . import common as K
from . import ctx as C
from . import replay as RP
from . import stubs as S
from .claims import Claim
from .symex import Agg, Blob, BoolV, EnumV, Int, Opaque, UnitV, Unsupported


def bv(v, w=64):
    return z3.BitVecVal(v, w)


def builder_stubs(cx, engine):
    """Deterministically named stubs so that two explorations can be compared path by path."""

    def seq(st, kind):
        n = st.notes.get("nseq", 0) + 1
        st.notes["nseq"] = n
        return "%s_%d" % (kind, n)

    def h_ws(engine, st, fr, callee, argv, m):
        nm = seq(st, "ws")
        is_err, some = z3.Bool(nm + "_err"), z3.Bool(nm + "_some")
        byte = z3.BitVec(nm + "_byte", 8)
        st.events.append(("ws", nm, is_err, some, byte))
        # parse_whitespace never hands back a trivia byte (claim c12_whitespace)
        triv = z3.Or(*[byte == c for c in (0x20, 0x09, 0x0A, 0x0D, 0x0C, ord(";"))])
        engine.solver.add(z3.Not(triv))
        st.pc.append(z3.Not(triv))
        st.notes["peeked"] = (some, byte)
        return S.mk_result(engine, is_err, S.mk_option(some, Int(byte, "u8")), Opaque("Error", "io", {"kind": "io"}))

    def h_expect(engine, st, fr, callee, argv, m):
        nm = seq(st, "expect")
        is_err = z3.Bool(nm + "_err")
        d = K.depth_of(cx, st)
        st.events.append(("expect", nm, is_err, d.e))
        st.notes["peeked"] = None
        return S.mk_result(engine, is_err, Blob("item"), Opaque("Error", "from:expect", {"kind": "callee"}))

    def h_symsuffix(engine, st, fr, callee, argv, m):
        nm = seq(st, "symsuffix")
        is_err = z3.Bool(nm + "_err")
        st.events.append(("symsuffix", nm, is_err))
        st.notes["peeked"] = None
        return S.mk_result(engine, is_err, Blob("name"), Opaque("Error", "from:symbol", {"kind": "callee"}))

    def h_symscratch(engine, st, fr, callee, argv, m):
        nm = seq(st, "symscratch")
        is_err = z3.Bool(nm + "_err")
        st.events.append(("symscratch", m.group(1), is_err))
        st.notes["peeked"] = None
        return S.mk_result(engine, is_err, Blob("name"), Opaque("Error", "from:symbol", {"kind": "callee"}))

    def h_name_token(engine, st, fr, callee, argv, m):
        # in the builders name_token is applied to a name that starts with a dot: not `nil` / `t`, so (c08_token_dispatch:
        # those tokens arise only from exactly these names) the result is a keyword or a symbol
        st.events.append(("name_token", argv[1:]))
        TK = cx.enums.get("Token")
        if not TK:
            return Blob("token")
        d = z3.BitVec(seq(st, "tokkind"), 64)
        c = z3.Or(d == TK.index("Keyword"), d == TK.index("Symbol"))
        engine.solver.add(c)
        st.pc.append(c)
        return EnumV("Token", d, {TK.index("Keyword"): [Blob("kwname")], TK.index("Symbol"): [Blob("symname")]})

    def h_eat(engine, st, fr, callee, argv, m):
        st.events.append(("eat", st.notes.get("peeked") is not None))
        st.notes["peeked"] = None
        return UnitV()

    def h_peek_or_null(engine, st, fr, callee, argv, m):
        nm = seq(st, "pk")
        is_err = z3.Bool(nm + "_err")
        byte = z3.BitVec(nm + "_byte", 8)
        st.events.append(("peek_or_null", nm, is_err, byte))
        st.notes["peeked"] = (z3.BoolVal(True), byte)
        return S.mk_result(engine, is_err, Int(byte, "u8"), Opaque("Error", "io", {"kind": "io"}))

    def h_rawread(engine, st, fr, callee, argv, m):
        # any other direct use of the reader (peek / next_char / next_char_or_null): an abstract, named read
        op = m.group(1)
        nm = seq(st, op)
        is_err, some = z3.Bool(nm + "_err"), z3.Bool(nm + "_some")
        byte = z3.BitVec(nm + "_byte", 8)
        st.events.append(("raw:" + op, nm, is_err, some, byte))
        if op.endswith("or_null"):
            return S.mk_result(engine, is_err, Int(z3.If(some, byte, z3.BitVecVal(0, 8)), "u8"), Opaque("Error", "io", {"kind": "io"}))
        return S.mk_result(engine, is_err, S.mk_option(some, Int(byte, "u8")), Opaque("Error", "io", {"kind": "io"}))

    def h_peek_error(engine, st, fr, callee, argv, m):
        st.events.append(("error", argv[1]))
        return Opaque("Error", "syntax", {"kind": "syntax", "code": argv[1]})

    def h_blob(engine, st, fr, callee, argv, m):
        return Blob(callee.split("::<")[0])

    def h_position(engine, st, fr, callee, argv, m):
        return Agg("struct", "Position", [engine.sym_int("usize", "line"), engine.sym_int("usize", "col")])

    P = r"^Parser::<[^>]*>::"
    return [
        (re.compile(P + r"parse_whitespace$"), h_ws),
        (re.compile(P + r"(expect_value|expect_datum)$"), h_expect),
        (re.compile(P + r"parse_symbol_suffix$"), h_symsuffix),
        (re.compile(P + r"(parse_symbol_scratch_suffix|parse_symbol)$"), h_symscratch),
        (re.compile(P + r"name_token$"), h_name_token),
        (re.compile(P + r"eat_char$"), h_eat),
        (re.compile(P + r"peek_or_null$"), h_peek_or_null),
        (re.compile(P + r"peek_error$"), h_peek_error),
        (re.compile(P + r"error$"), h_peek_error),
        (re.compile(P + r"(peek|next_char|next_char_or_null)$"), h_rawread),
        (re.compile(r"^<R as (?:parse::)?read::Read<'_>>::(position|peek_position)$"), h_position),
        (re.compile(r"^(Cons::|Value::|Vec::<|Option::<&mut|<Value as From|Box::<|(?:datum::)?Span::|(?:datum::)?Datum::|"
                    r"(?:datum::)?SpanInfo::|<\[SpanInfo; 2\] as Clone>|<.* as Clone>::clone|core::mem::|std::mem::|"
                    r"<.* as Index|<.* as IndexMut|<.* as Deref|<String as Into<Box<str>>>::into|<&str as Into<Box<str>>>::into)"), h_blob),
    ]


def explore_builder(cx, res, fname):
    eng = C.make_engine(cx, [], loop_mode="cut", timeout_s=200, max_paths=20000)
    eng.stable_names = True
    eng.stubs = builder_stubs(cx, eng) + S.COMBINATOR_STUBS + S.CORE_STUBS
    fn = C.resolve_callee(cx, "Parser::<R>::" + fname)
    if fn is None:
        raise Unsupported("builder %s not found" % fname)
    info = {}

    def init(e, st, fr):
        ref, cons, ov = K.parser_state(cx, e, st)
        fr.locals[1] = ref
        term = Int(z3.BitVec("terminator", 8), "u8")
        fr.locals[2] = term
        info["term"] = term.e
        info["d0"] = ov["remaining_depth"]
        st.notes["in"] = ()
        return cons + [z3.Or(term.e == ord(")"), term.e == ord("]")), z3.UGE(info["d0"], bv(1, 8))]

    def havoc(e, st, fr, bb):
        st.notes["in"] = st.notes["in"] + ((bb, {}),)
        st.notes["events_at_header"] = len(st.events)
        st.notes["nseq"] = 0
        return []
    eng.havoc_hook = havoc
    terms = eng.explore(fn.name, init)
    res.absorb(eng)
    return eng, fn, info, terms


def step_events(st):
    return st.events[st.notes.get("events_at_header", 0):]


def outcome(eng, t):
    if t.kind == "LOOP_BACK":
        return ("loop",)
    if t.kind != "RETURN":
        return (t.kind,)
    kind, payload = K.classify_return(eng, t)
    if kind == "err":
        ci = K.err_code_index(eng, payload)
        if ci is not None:
            return ("err", K.code_name(eng, ci))
        if isinstance(payload, Opaque):
            return ("err", payload.label)
        return ("err", "?")
    if kind == "ok":
        # Ok(Value::Null) / Ok(None) vs Ok(list): distinguishable by whether the payload is the empty marker
        p = payload
        if isinstance(p, EnumV) and p.name == "Value":
            return ("ok", "null" if K.concrete(p.discr) == eng.enums["Value"].index("Null") else "value")
        if isinstance(p, EnumV) and p.name == "Option":
            return ("ok", "null" if K.concrete(p.discr) == 0 else "value")
        return ("ok", "value")
    return (kind,)


def trace_key(ev):
    """comparable shape of one event: (kind, [z3 terms])"""
    if ev[0] == "ws":
        return ("ws", [ev[2], ev[3], ev[4]])
    if ev[0] == "expect":
        return ("expect", [ev[2]])
    if ev[0] == "symsuffix":
        return ("symsuffix", [ev[2]])
    if ev[0] == "eat":
        return ("eat", [])
    if ev[0] == "peek_or_null":
        return ("peek_or_null", [ev[2], ev[3]])
    if ev[0].startswith("raw:"):
        return (ev[0], [ev[2], ev[3], ev[4]])
    if ev[0] == "error":
        c = ev[1]
        return ("error:%s" % (K.concrete(c.discr) if isinstance(c, EnumV) else "?"), [])
    return (ev[0], [])


# ----------------------------------------------------------------------------- claims

def claim_builder_depth(cx, res, kf):
    """C03: the builders neither change the depth counter nor call back into the parser at another depth."""
    for fname in ("parse_list", "parse_list_meta", "parse_vector", "parse_vector_meta", "end_seq"):
        eng, fn, info, terms = explore_builder(cx, res, fname)
        n_calls = 0
        for t in terms:
            pc = list(t.state.pc)
            if t.kind == "PANIC":
                res.must_be_unsat(pc, "%s: reachable panic `%s`" % (fname, t.info["msg"]))
                continue
            dend = K.depth_of(cx, t.state).e

            def on_model(m, fname=fname):
                good = b"(" * 100 + b"x" + b")" * 100
                api = "valuec" if "meta" not in fname else "datumc"
                for deep in (b"(a . " * 400 + b"a" + b")" * 400, b"(a " * 400 + b")" * 400, b"#(a " * 400 + b")" * 400,
                             b"(1 . (2 . " * 200 + b"3" + b"))" * 200):
                    nat = RP.parse(deep + b" " + good, "default", "slice", api, fast=True, timeout=120)
                    res.replays += 1
                    tr = nat.get("trace", "")
                    # an input nested 400 deep must be rejected, and the well-formed 100-level datum after it accepted
                    if "crash" in nat or (tr[:1] == "o") or not tr.endswith("o"):
                        return {"replayed": True, "witness": {"kind": "parse", "input_hex": (deep + b" " + good).hex(), "opts": "default",
                                                              "src": "slice", "api": api, "fast": True}, "observed": str(nat)[:300]}
                return {"replayed": False}
            res.must_be_unsat(pc + [dend != info["d0"]], "%s: leaves the depth counter changed" % fname, on_model)
            for ev in t.state.events:
                if ev[0] == "expect":
                    n_calls += 1
                    res.must_be_unsat(pc + [ev[3] != info["d0"]],
                                      "%s: re-enters the parser at a different depth than it was entered with "
                                      "(nesting through this construct is not charged)" % fname, on_model)
        if fname != "end_seq":
            res.vacuity.append(("%s calls back into the parser" % fname, n_calls > 0))


def claim_list_protocol(cx, res, kf):
    """C08/C12: closer and dotted-tail protocol of parse_list / parse_list_meta."""
    EC = None
    for fname in ("parse_list", "parse_list_meta"):
        eng, fn, info, terms = explore_builder(cx, res, fname)
        EC = eng.enums["ErrorCode"]
        term = info["term"]
        seen = {"close": 0, "mismatch": 0, "dotted_ok": 0, "dotted_trailing": 0, "elem": 0, "dotsym": 0, "eof": 0}
        base_done = set()
        from . import confirm as CF
        CF_lists = CF.confirm(("lists",), res)
        hv = z3.Bool("hv_have_value_0")
        for t in terms:
            st = t.state
            pc = list(st.pc)
            if t.kind == "PANIC":
                continue
            evs = step_events(st)
            if not st.notes.get("in"):
                res.violations.append({"what": "%s: path never reaches the element loop: %r" % (fname, t), "replayed": None})
                continue
            hvl = fn.local_by_debug("have_value")
            K.base_case(res, st, 0, base_done, lambda a: z3.Not(a["locals"][hvl].e) if hvl in a["locals"] else None,
                        "%s: the element loop starts as if an element had already been read (`(. x)` / `()` would be misread)" % fname,
                        CF_lists)
            out = outcome(eng, t)
            kinds = [e[0] for e in evs]
            if not evs or evs[0][0] != "ws":
                res.violations.append({"what": "%s: loop step does not start by skipping trivia: %r" % (fname, kinds), "replayed": None})
                continue
            w = evs[0]
            werr, wsome, wb = w[2], w[3], w[4]
            is_close = z3.And(z3.Not(werr), wsome, z3.Or(wb == ord(")"), wb == ord("]")))
            is_dot = z3.And(z3.Not(werr), wsome, wb == ord("."))
            if len(evs) == 1 and out[0] == "ok":
                seen["close"] += 1
                res.must_be_unsat(pc + [z3.Not(z3.And(is_close, wb == term))], "%s: list closed by something other than its own closer" % fname)
                # empty list iff nothing was read
                want_null = z3.Not(hv)
                res.must_be_unsat(pc + [z3.Not(want_null == (out[1] == "null"))], "%s: `()` / non-empty list confusion at the closer" % fname)
                continue
            if out == ("err", "MismatchedParenthesis"):
                seen["mismatch"] += 1
                res.must_be_unsat(pc + [z3.Not(z3.And(is_close, wb != term))], "%s: MismatchedParenthesis without a wrong closer" % fname)
                continue
            if out == ("err", "EofWhileParsingList") and len(evs) == 2 and evs[1][0] == "error":
                seen["eof"] += 1
                res.must_be_unsat(pc + [z3.Not(z3.And(z3.Not(werr), z3.Not(wsome)))], "%s: EOF error without end of input" % fname)
                continue
            if "symscratch" in kinds:
                from . import confirm as CF
                v = {"what": "%s: a `.name` is scanned on top of whatever the scratch buffer still holds (the scan does not go through "
                     "parse_symbol_suffix, which clears it): bytes of the previous token end up in the name" % fname, "replayed": None}
                v.update(CF.confirm(("lists", "tokens"), res)(None))
                res.violations.append(v)
                continue
            la = next((e for e in evs[1:] if e[0] == "peek_or_null" or e[0].startswith("raw:")), None)
            if la is None and "symsuffix" in kinds:
                res.violations.append({"what": "%s: a `.name` symbol is read without looking at the byte after the dot" % fname, "replayed": None})
                continue
            if la is not None:
                # the '.' branch: one byte of lookahead after the dot (however it is read)
                res.must_be_unsat(pc + [z3.Not(is_dot)], "%s: dot handling entered on another byte" % fname)
                if la[0] == "peek_or_null":
                    pk = (la[0], la[1], la[2])
                    nb, la_some = la[3], z3.BoolVal(True)
                else:
                    pk = (la[0], la[1], la[2])
                    nb, la_some = la[4], la[3]
                # the end of input and every byte that ends a symbol end the lone dot as well
                delim = z3.Or(z3.Not(la_some), nb == 0, *[nb == c for c in (0x20, 0x09, 0x0A, 0x0C, 0x0D, ord("|"), ord("("), ord(")"), ord('"'),
                                                                            ord("["), ord("]"), ord(";"))])
                if "expect" in kinds:
                    # dotted tail: needs a previous element, a delimiter after the dot, trivia skipped after the tail,
                    # and the list's own closer
                    wss = [e for e in evs if e[0] == "ws"]
                    i_exp = kinds.index("expect")
                    res.must_be_unsat(pc + [z3.Not(z3.And(hv, z3.Not(pk[2]), delim))], "%s: dotted tail accepted without a head element / delimiter" % fname)
                    if out[0] == "ok":
                        seen["dotted_ok"] += 1
                        ok_shape = len(wss) == 2 and kinds.index("ws", 1) > i_exp if "ws" in kinds[1:] else False
                        if not ok_shape:
                            def onm(m, fname=fname):
                                text = b"(a . b )"
                                api = "value" if fname == "parse_list" else "datum"
                                nat = RP.parse(text, "default", "slice", api)
                                res.replays += 1
                                bad = not (nat.get("items") and nat["items"][0].get("t") == "list")
                                return {"replayed": bad, "observed": nat, "witness": {"kind": "parse", "input_hex": text.hex(), "opts": "default", "src": "slice", "api": api, "fast": True}}
                            res.must_be_unsat(pc, "%s: closer after a dotted tail is inspected without skipping trivia first" % fname, onm)
                            continue
                        w2 = wss[1]

                        def onm2(m, fname=fname):
                            api = "value" if fname == "parse_list" else "datum"
                            bad = False
                            nat = None
                            for text, want_ok in ((b"[a . b]", True), (b"(a . b]", False), (b"[a . b)", False), (b"(a . b)", True)):
                                nat = RP.parse(text, "default", "slice", api)
                                res.replays += 1
                                got_ok = bool(nat.get("items")) and nat["items"][0].get("t") == "list"
                                if got_ok != want_ok:
                                    return {"replayed": True, "observed": nat, "witness": {"kind": "parse", "input_hex": text.hex(), "opts": "default", "src": "slice", "api": api, "fast": True}}
                            return {"replayed": False, "observed": nat}
                        res.must_be_unsat(pc + [z3.Not(z3.And(z3.Not(w2[2]), w2[3], w2[4] == term))],
                                          "%s: a dotted list is closed by a byte other than the list's own closer" % fname, onm2)
                        continue
                    if out == ("err", "TrailingCharacters"):
                        seen["dotted_trailing"] += 1
                        wss = [e for e in evs if e[0] == "ws"]
                        if len(wss) == 2:
                            w2 = wss[1]
                            res.must_be_unsat(pc + [z3.And(z3.Not(w2[2]), w2[3], w2[4] == term)],
                                              "%s: the list's own closer after a dotted tail is rejected as trailing characters" % fname,
                                              None)

                            def onm_trunc(m, fname=fname):
                                api = "value" if fname == "parse_list" else "datum"
                                for text in (b"(a . b", b"(1 2 . 3 ", b"[x . \"y\"", b"(a . (1 2)", b"(a . b ;c"):
                                    nat = RP.parse(text, "default", "slice", api)
                                    res.replays += 1
                                    errs = [i["err"] for i in nat.get("items", []) if "err" in i]
                                    if not errs or errs[0].get("cat") != "eof":
                                        return {"replayed": True, "observed": nat, "witness": {"kind": "parse", "input_hex": text.hex(), "opts": "default", "src": "slice", "api": api, "fast": True}}
                                return {"replayed": False}
                            res.must_be_unsat(pc + [z3.Not(w2[2]), z3.Not(w2[3])],
                                              "%s: the end of input after a dotted tail is reported as trailing characters (a list cut off there is "
                                              "`more data needed`, an EOF error)" % fname, onm_trunc)
                        continue
                    if out == ("err", "EofWhileParsingList"):
                        wss = [e for e in evs if e[0] == "ws"]
                        if len(wss) == 2:
                            w2 = wss[1]
                            res.must_be_unsat(pc + [z3.Not(z3.And(z3.Not(w2[2]), z3.Not(w2[3])))], "%s: EOF error after a dotted tail without end of input" % fname, None)
                        continue
                    continue
                if "symsuffix" in kinds:
                    seen["dotsym"] += 1
                    def onm3(m, fname=fname):
                        api = "single"
                        for text, o in ((b"(a .", "default"), (b"(a . ", "default"), (b"[a .", "default"), (b"(a .)", "default"), (b"(a . )", "default")):
                            nat = RP.parse(text, o, "slice", api)
                            res.replays += 1
                            want = "eof" if not text.rstrip().endswith(b")") else "syntax"
                            if "err" not in nat or nat["err"]["cat"] != want:
                                return {"replayed": True, "observed": nat, "witness": {"kind": "parse", "input_hex": text.hex(), "opts": o, "src": "slice", "api": api, "fast": True}}
                        return {"replayed": False}
                    res.must_be_unsat(pc + [z3.Not(z3.And(z3.Not(pk[2]), z3.Not(delim)))],
                                      "%s: `.name` symbol branch taken at a delimiter / at the end of input (a list cut off after the dot is then a "
                                      "syntax error instead of an EOF error)" % fname, onm3)
                    if out[0] == "loop" and "name_token" not in kinds[kinds.index("symsuffix"):]:
                        # C08: what a name reads as must not depend on its position or on its first byte
                        from . import confirm as CF
                        v = {"what": "%s: a name starting with `.` inside a list is stored as a plain symbol without the name classification "
                             "every other name gets (`.a:` is a keyword at top level but a symbol in `(.a:)` when name: keywords are enabled)" % fname,
                             "replayed": None}
                        v.update(CF.confirm(("tokens",), res)(None))
                        res.violations.append(v)
                    continue
                continue
            if "expect" in kinds and out[0] in ("loop", "err"):
                seen["elem"] += 1
                res.must_be_unsat(pc + [z3.Or(is_close, is_dot, werr, z3.Not(wsome))], "%s: element read at a closer / dot / EOF" % fname)
                continue
        for k in ("close", "mismatch", "dotted_ok", "elem", "dotsym", "eof"):
            res.vacuity.append(("%s reaches %s" % (fname, k), seen[k] > 0))


def claim_vector_protocol(cx, res, kf):
    """C08/C12/C19: parse_vector / parse_vector_meta (one loop step) and end_seq."""
    from . import confirm as CF
    onm = CF.confirm(("lists", "truncation"), res)
    for fname in ("parse_vector", "parse_vector_meta"):
        eng, fn, info, terms = explore_builder(cx, res, fname)
        term = info["term"]
        seen = {"close": 0, "mismatch": 0, "elem": 0, "eof": 0}
        for t in terms:
            st = t.state
            pc = list(st.pc)
            if t.kind == "PANIC":
                continue
            if not st.notes.get("in"):
                res.violations.append({"what": "%s: path never reaches the element loop" % fname, "replayed": None})
                continue
            evs = step_events(st)
            kinds = [e[0] for e in evs]
            out = outcome(eng, t)
            if not evs or evs[0][0] != "ws":
                res.must_be_unsat(pc, "%s: a step does not start by skipping trivia (%r)" % (fname, kinds), onm)
                continue
            w = evs[0]
            werr, wsome, wb = w[2], w[3], w[4]
            is_close = z3.And(z3.Not(werr), wsome, z3.Or(wb == ord(")"), wb == ord("]")))
            if out[0] == "ok" and len(evs) == 1:
                seen["close"] += 1
                # (returning the elements at the end of input is as good as an EOF error here: the caller's end_seq, claimed
                # below, reports the end of input)
                at_eof = z3.And(z3.Not(werr), z3.Not(wsome))
                if res.solve(pc + [at_eof])[0] == z3.sat:
                    seen["eof"] += 1
                res.must_be_unsat(pc + [z3.Not(z3.Or(z3.And(is_close, wb == term), at_eof))], "%s: vector closed by something other than its own closer" % fname, onm)
            elif out == ("err", "MismatchedParenthesis"):
                seen["mismatch"] += 1
                res.must_be_unsat(pc + [z3.Not(z3.And(is_close, wb != term))], "%s: MismatchedParenthesis without a wrong closer" % fname, onm)
            elif out[0] == "err" and out[1] in ("EofWhileParsingVector", "EofWhileParsingList") and kinds[1:] == ["error"]:
                seen["eof"] += 1
                res.must_be_unsat(pc + [z3.Not(z3.And(z3.Not(werr), z3.Not(wsome)))], "%s: EOF error without end of input" % fname, onm)
            elif "expect" in kinds:
                seen["elem"] += 1
                res.must_be_unsat(pc + [z3.Or(is_close, werr, z3.Not(wsome))], "%s: element read at a closer / EOF / after a failed read" % fname, onm)
                if out[0] not in ("loop", "err"):
                    res.must_be_unsat(pc, "%s: returns in the middle of the elements" % fname, onm)
            elif out[0] == "err":
                # a failed read / callee error is passed on
                continue
            else:
                res.must_be_unsat(pc, "%s: unexpected step %r -> %r" % (fname, kinds, out), onm)
        for k, n in seen.items():
            res.vacuity.append(("%s reaches %s" % (fname, k), n > 0))
    # end_seq: trivia, then exactly the closer (consumed); anything else is trailing characters, end of input an EOF error
    eng, fn, info, terms = explore_builder(cx, res, "end_seq")
    term = info["term"]
    seen = {"ok": 0, "trailing": 0, "eof": 0}
    for t in terms:
        st = t.state
        pc = list(st.pc)
        if t.kind != "RETURN":
            continue
        evs = list(st.events)
        kinds = [e[0] for e in evs]
        out = outcome(eng, t)
        ws = [e for e in evs if e[0] == "ws"]
        if len(ws) != 1 or kinds[0] != "ws":
            res.must_be_unsat(pc, "end_seq does not skip trivia exactly once first (%r)" % kinds, onm)
            continue
        werr, wsome, wb = ws[0][2], ws[0][3], ws[0][4]
        if out[0] == "ok":
            seen["ok"] += 1
            res.must_be_unsat(pc + [z3.Not(z3.And(z3.Not(werr), wsome, wb == term))], "end_seq accepts another byte than the closer", onm)
            if kinds.count("eat") != 1:
                res.must_be_unsat(pc, "end_seq does not consume exactly the closer", onm)
        elif out == ("err", "TrailingCharacters"):
            seen["trailing"] += 1
            res.must_be_unsat(pc + [z3.Not(z3.And(z3.Not(werr), wsome, wb != term))], "end_seq rejects the closer as trailing characters / reports it at EOF", onm)
        elif out[0] == "err" and str(out[1]).startswith("Eof"):
            seen["eof"] += 1
            res.must_be_unsat(pc + [z3.Not(z3.And(z3.Not(werr), z3.Not(wsome)))], "end_seq: EOF error without end of input", onm)
    for k, n in seen.items():
        res.vacuity.append(("end_seq reaches %s" % k, n > 0))


def claim_lockstep(cx, res, kf):
    """C10: the datum builders take exactly the decisions of the value builders."""
    for fa, fb in (("parse_list", "parse_list_meta"), ("parse_vector", "parse_vector_meta")):
        ea, fna, ia, ta = explore_builder(cx, res, fa)
        eb, fnb, ib, tb = explore_builder(cx, res, fb)
        pairs = 0
        for x in ta:
            if x.kind == "PANIC":
                continue
            for y in tb:
                if y.kind == "PANIC":
                    continue
                conj = list(x.state.pc) + list(y.state.pc)
                r, s_ = res.solve(conj)
                if r != z3.sat:
                    continue
                pairs += 1
                ka = [trace_key(e) for e in step_events(x.state)]
                kb = [trace_key(e) for e in step_events(y.state)]
                oa, ob = outcome(ea, x), outcome(eb, y)

                def onm(m, fa=fa):
                    # generic differential replay: a corpus of small inputs through both APIs
                    for text in (b"(a . b )", b"(a b . c)", b"( a )", b"(a .b)", b"(. a)", b"(a . )", b"(a . b c)", b"(a]", b"[a . b]",
                                 b"#(a b )", b"#(a . b)", b"#(a]", b"(a ;c\n)", b"(a . b ;c\n)", b"#( )", b"()", b"(a . (b))"):
                        v = RP.parse(text, "default", "slice", "value")
                        d = RP.parse(text, "default", "slice", "datum")
                        res.replays += 2
                        if v != d:
                            return {"replayed": True, "observed": {"value": v, "datum": d},
                                    "witness": {"kind": "parse", "input_hex": text.hex(), "opts": "default", "src": "slice", "api": "datum", "fast": True}}
                    return {"replayed": False}
                if [k for k, _ in ka] != [k for k, _ in kb] or oa != ob:
                    res.must_be_unsat(conj, "%s vs %s: for the same reader behaviour the two builders take different steps "
                                      "(%r -> %r  vs  %r -> %r)" % (fa, fb, [k for k, _ in ka], oa, [k for k, _ in kb], ob), onm)
                    continue
                diffs = []
                for (k1, a1), (k2, a2) in zip(ka, kb):
                    for u, v in zip(a1, a2):
                        diffs.append(u != v)
                if diffs:
                    res.must_be_unsat(conj + [z3.Or(*diffs)], "%s vs %s: same steps but different reader values consulted" % (fa, fb), onm)
        res.vacuity.append(("%s/%s comparable path pairs" % (fa, fb), pairs >= 5))


CLAIMS = [
    Claim("c03_builder_depth", "C03", "quick", claim_builder_depth,
          "parse_list, parse_list_meta, parse_vector, parse_vector_meta and end_seq leave the depth counter unchanged on "
          "every path and call back into the parser only at the depth they were entered with (so nesting through list "
          "elements, dotted tails and vector elements is charged exactly once per level, by next_value/next_datum)",
          "any number of elements (loop cut), arbitrary results of trivia skipping and of the nested parser", configs=("fast",), also=("C16",)),
    Claim("c08_list_protocol", "C08", "quick", claim_list_protocol,
          "parse_list / parse_list_meta: a list ends only at its own closer (mismatch otherwise), `()` iff no element, "
          "a dotted tail needs a head element and a delimiter after the dot, trivia is skipped before the closer after "
          "the tail and that closer must be the list's own, `.name` reads a symbol",
          "any number of elements (loop cut), both closers, arbitrary reader behaviour", configs=("fast",), also=("C12", "C13", "C19", "C01", "C02", "C11", "C17")),
    Claim("c08_vector_protocol", "C08", "quick", claim_vector_protocol,
          "parse_vector / parse_vector_meta: each step skips trivia first, a vector ends only at its own closer (mismatch "
          "otherwise), end of input is an EOF error, everything else is read as an element; end_seq skips trivia once, "
          "consumes exactly the construct's own closer, reports any other byte as trailing characters and end of input as EOF",
          "any number of elements (loop cut), both closers, arbitrary reader behaviour", configs=("fast",), also=("C12", "C19", "C13", "C01", "C02")),
    Claim("c10_builder_lockstep", "C10", "quick", claim_lockstep,
          "for every behaviour of the reader and of the nested parser, parse_list_meta takes exactly the steps of "
          "parse_list and parse_vector_meta those of parse_vector (same trivia skips, same lookahead, same nested "
          "calls, same error codes, same empty/non-empty result)",
          "one arbitrary loop step from arbitrary loop state (induction over any number of elements)", configs=("fast",),
          also=("C12",)),
]


# ----------------------------------------------------------------------------- next_value vs next_datum lockstep (C10)

def explore_top(cx, res, which):
    from .c03 import sym_token
    from .symex import ENUM_PAYLOADS
    eng = C.make_engine(cx, [], loop_mode="cut", timeout_s=200, max_paths=20000)

    def seq(st, kind):
        n = st.notes.get("nseq", 0) + 1
        st.notes["nseq"] = n
        return "%s_%d" % (kind, n)

    def h_ws(engine, st, fr, callee, argv, m):
        nm = seq(st, "ws")
        err, some, byte = z3.Bool(nm + "_err"), z3.Bool(nm + "_some"), z3.BitVec(nm + "_byte", 8)
        st.events.append(("ws", nm, err, some, byte))
        return S.mk_result(engine, err, S.mk_option(some, Int(byte, "u8")), Opaque("Error", "io", {"kind": "io"}))

    def h_token(engine, st, fr, callee, argv, m):
        nm = seq(st, "tok")
        names = engine.enums["Token"]
        d = z3.BitVec(nm + "_kind", 64)
        c = z3.ULT(d, bv(len(names)))
        engine.solver.add(c)
        st.pc.append(c)
        variants = {}
        for i, n in enumerate(names):
            tys = ENUM_PAYLOADS.get("Token", {}).get(n, [])
            flds = []
            for k, ty in enumerate(tys):
                if ty.strip() == "u8":
                    flds.append(Int(z3.BitVec("%s_%s_%d" % (nm, n, k), 8), "u8"))
                elif ty.strip() == "bool":
                    flds.append(BoolV(z3.Bool("%s_%s_%d" % (nm, n, k))))
                elif ty.strip() == "char":
                    flds.append(Int(z3.BitVec("%s_%s_%d" % (nm, n, k), 32), "char"))
                else:
                    flds.append(Blob("tok:" + n))
            variants[i] = flds
        err = z3.Bool(nm + "_err")
        st.events.append(("token", nm, err, d, argv[1].e))
        return S.mk_result(engine, err, EnumV("Token", d, variants), Opaque("Error", "from:parse_token", {"kind": "callee"}))

    def mk(kind):
        def h(engine, st, fr, callee, argv, m):
            nm = seq(st, kind)
            err = z3.Bool(nm + "_err")
            f = C.resolve_callee(cx, callee)
            ret = f.ret_ty if f else ""
            dep = K.depth_of(cx, st).e
            args = [a.e for a in argv[1:] if isinstance(a, Int)]
            st.events.append((kind, nm, err, dep, args))
            if kind == "recurse":
                some = z3.Bool(nm + "_some")
                st.events[-1] = (kind, nm, err, dep, args, some)
                okv = S.mk_option(some, Blob("inner"))
            elif kind == "list" and "Option<" in ret:
                some = z3.Bool(nm + "_nonempty")
                okv = S.mk_option(some, Blob("list"))
            elif "Result<()" in ret:
                okv = UnitV()
            else:
                okv = Blob("ret:" + kind)
            return S.mk_result(engine, err, okv, Opaque("Error", "from:" + kind, {"kind": "callee"}))
        return h

    def h_peek_error(engine, st, fr, callee, argv, m):
        st.events.append(("error", argv[1]))
        return Opaque("Error", "syntax", {"kind": "syntax", "code": argv[1]})

    def h_position(engine, st, fr, callee, argv, m):
        return Agg("struct", "Position", [engine.sym_int("usize", "line"), engine.sym_int("usize", "col")])
    P = r"^Parser::<[^>]*>::"
    eng.stubs = [
        (re.compile(P + r"parse_whitespace$"), h_ws),
        (re.compile(P + r"parse_token$"), h_token),
        (re.compile(P + r"(?:parse_vector|parse_vector_meta)$"), mk("vector")),
        (re.compile(P + r"(?:parse_list|parse_list_meta)$"), mk("list")),
        (re.compile(P + r"end_seq$"), mk("end_seq")),
        (re.compile(P + r"parse_byte_list$"), mk("bytes")),
        (re.compile(P + r"(?:next_value|next_datum)$"), mk("recurse")),
        (re.compile(P + r"(?:peek_error|error)$"), h_peek_error),
        (re.compile(r"^<R as (?:parse::)?(?:read::)?Read<'\w+>>::(position|peek_position)$"), h_position),
    ] + S.COMBINATOR_STUBS + S.BUILDER_STUBS + S.CORE_STUBS
    fn = C.resolve_callee(cx, "Parser::<R>::" + which)
    info = {}

    def init(e, st, fr):
        ref, cons, ov = K.parser_state(cx, e, st)
        fr.locals[1] = ref
        # same symbolic depth in both runs
        d = z3.BitVec("depth_shared", 8)
        info["d0"] = d
        return cons + [ov["remaining_depth"] == d, z3.UGE(d, z3.BitVecVal(1, 8))]
    terms = eng.explore(fn.name, init)
    res.absorb(eng)
    return eng, info, terms


def top_key(ev):
    k = ev[0]
    if k == "ws":
        return ("ws", [ev[2], ev[3], ev[4]])
    if k == "token":
        return ("token", [ev[2], ev[3], ev[4]])
    if k in ("vector", "list", "end_seq", "bytes"):
        return (k, [ev[2], ev[3]] + list(ev[4]))
    if k == "recurse":
        return (k, [ev[2], ev[3], ev[5]])
    if k == "error":
        c = ev[1]
        return ("error:%s" % (K.concrete(c.discr) if isinstance(c, EnumV) else "?"), [])
    return (k, [])


def top_outcome(eng, t):
    if t.kind != "RETURN":
        return (t.kind,)
    kind, payload = K.classify_return(eng, t)
    if kind == "err":
        ci = K.err_code_index(eng, payload)
        return ("err", K.code_name(eng, ci) if ci is not None else (payload.label if isinstance(payload, Opaque) else "?"))
    if kind == "ok" and isinstance(payload, EnumV):
        return ("ok", "some" if K.concrete(payload.discr) == 1 else "none")
    return (kind,)


def claim_lockstep_top(cx, res, kf):
    ea, ia, ta = explore_top(cx, res, "next_value")
    eb, ib, tb = explore_top(cx, res, "next_datum")

    def onm(m):
        for text in (b"a b", b"(a . b ) c", b"'x", b"#u8(1 2) y", b"#(a) b", b"[a]", b")", b"(a", b"'", b"#(", b"1 (2 3) \"s\" #\\c ;x\n z",
                     b"`(,a ,@b)", b"(" * 130, b"#nil ()", b"", b"#(a b", b"#(", b"[a", b"#u8(1 2", b"(a . ", b"#(a (b", b"'#("):
            v = RP.parse(text, "default", "slice", "value")
            d = RP.parse(text, "default", "slice", "datum")
            res.replays += 2
            if v != d:
                return {"replayed": True, "observed": {"value": v, "datum": d},
                        "witness": {"kind": "parse", "input_hex": text.hex(), "opts": "default", "src": "slice", "api": "datum", "fast": True}}
        # call histories: the same parser keeps being asked after an error (what each reader consumed before failing shows
        # in what the following calls return)
        for text in (b"(a . ) x 2", b"( . ) x 2", b"(a .) x 2", b"(a . ;c\n) x 2", b"#(a . ) x", b"(a]) x", b"[a) x", b"(a . b c) x", b"') x", b"(1 #) x",
                     b"'#z " * 130 + b"(x)", b"(a . #z) " * 130 + b"(((x)))", b"#(#z) " * 130 + b"(x)", b"',@#z\n" * 70 + b"((x))", b"'" * 100 + b"#z " + b"(" * 40 + b"x" + b")" * 40,
                     b"(\"s) x", b"#u8(1 2 300) x", b"#u8(a) x", b"(a . b . c) x y", b"#(1 . 2) x", b"(#\\bogus) x", b"(1.5.6) x", b"(a b", b"(((", b")))"):
            for src in ("slice", "reader"):
                v = RP.parse(text, "default", src, "valuec")
                d = RP.parse(text, "default", src, "datumc")
                res.replays += 2
                if v != d:
                    return {"replayed": True, "observed": {"value_calls": v, "datum_calls": d, "input": text.decode("latin-1")},
                            "witness": {"kind": "parse", "input_hex": text.hex(), "opts": "default", "src": src, "api": "datumc", "fast": True}}
        return {"replayed": False}
    pairs = 0
    for x in ta:
        if x.kind in ("PANIC", "UNREACHABLE"):
            continue
        for y in tb:
            if y.kind in ("PANIC", "UNREACHABLE"):
                continue
            conj = list(x.state.pc) + list(y.state.pc)
            r, _ = res.solve(conj)
            if r != z3.sat:
                continue
            pairs += 1
            ka = [top_key(e) for e in x.state.events if e[0] != "build"]
            kb = [top_key(e) for e in y.state.events if e[0] != "build"]
            oa, ob = top_outcome(ea, x), top_outcome(eb, y)
            da, db = K.depth_of(cx, x.state).e, K.depth_of(cx, y.state).e
            if [k for k, _ in ka] != [k for k, _ in kb] or oa != ob:
                res.must_be_unsat(conj, "next_value vs next_datum: for the same trivia / token / callee behaviour the two readers take "
                                  "different steps (%r -> %r  vs  %r -> %r)" % ([k for k, _ in ka], oa, [k for k, _ in kb], ob), onm)
                continue
            diffs = [da != db]
            for (k1, a1), (k2, a2) in zip(ka, kb):
                for u, v in zip(a1, a2):
                    diffs.append(u != v)
            res.must_be_unsat(conj + [z3.Or(*diffs)], "next_value vs next_datum: same steps but different arguments / depth budget", onm)
    res.vacuity.append(("next_value/next_datum comparable path pairs", pairs >= 20))


CLAIMS += [
    Claim("c10_top_lockstep", "C10", "quick", claim_lockstep_top,
          "for every remaining depth, trivia result, token kind and callee behaviour next_datum takes exactly the steps of "
          "next_value: same trivia skip, same token, same builder / byte-list / recursive call with the same closer and at "
          "the same depth, same end-of-sequence check, same error code, same Some/None outcome, same depth budget afterwards",
          "all 13 token kinds, arbitrary callee results and depth", configs=("fast",), also=("C12", "C19")),
]


# ----------------------------------------------------------------------------- parse_byte_list (C01/C02: every byte value)

def claim_byte_list(cx, res, kf):
    eng = C.make_engine(cx, [], loop_mode="cut", timeout_s=120, max_paths=5000)
    eng.stable_names = True
    NN = cx.enums["N"]

    def seq(st, kind):
        n = st.notes.get("nseq", 0) + 1
        st.notes["nseq"] = n
        return "%s_%d" % (kind, n)

    def h_number(engine, st, fr, callee, argv, m):
        nm = seq(st, "num")
        err = z3.Bool(nm + "_err")
        nd = z3.BitVec(nm + "_repr", 64)
        c = z3.ULT(nd, bv(len(NN)))
        engine.solver.add(c)
        st.pc.append(c)
        u = z3.BitVec(nm + "_u", 64)
        num = Agg("struct", "Number", [EnumV("N", nd, {NN.index("PosInt"): [Int(u, "u64")], NN.index("NegInt"): [Int(z3.BitVec(nm + "_i", 64), "i64")],
                                                      NN.index("Float"): [engine.sym_f64(nm + "_f")]})])
        st.events.append(("number", nm, err, nd, u))
        return S.mk_result(engine, err, num, Opaque("Error", "from:parse_number", {"kind": "callee"}))

    def h_push(engine, st, fr, callee, argv, m):
        st.events.append(("push", argv[1].e))
        return UnitV()
    P = r"^Parser::<[^>]*>::"
    stubs = [s for s in builder_stubs(cx, eng) if "Vec::<" not in s[0].pattern]
    eng.stubs = [(re.compile(P + r"parse_number$"), h_number), (re.compile(r"^Vec::<u8>::push$"), h_push),
                 (re.compile(r"^Vec::<u8>::new$"), lambda *a: Blob("bytes"))] + stubs + S.COMBINATOR_STUBS + S.CORE_STUBS
    fn = C.resolve_callee(cx, "Parser::<R>::parse_byte_list")
    info = {}

    def init(e, st, fr):
        ref, cons, ov = K.parser_state(cx, e, st)
        fr.locals[1] = ref
        close = Int(z3.BitVec("close", 8), "u8")
        fr.locals[2] = close
        info["close"] = close.e
        st.notes["in"] = ()
        return cons

    def havoc(e, st, fr, bb):
        st.notes["in"] = st.notes["in"] + ((bb, {}),)
        st.notes["events_at_header"] = len(st.events)
        st.notes["nseq"] = 0
        return []
    eng.havoc_hook = havoc
    terms = eng.explore(fn.name, init)
    res.absorb(eng)

    def onm(m):
        for text, want in ((b"#u8(0 255)", "00ff"), (b"#u8(256)", None), (b"#vu8(7 #xff #b11)", "07ff03"), (b"#u8(1.5)", None),
                           (b"#u8(-1)", None), (b"#u8()", ""), (b"#u8(12 34 )", "0c22")):
            nat = RP.single(text, "default", "slice")
            res.replays += 1
            got = nat.get("v") if nat.get("t") == "bytes" else None
            if got != want:
                return {"replayed": True, "observed": nat, "witness": {"kind": "parse", "input_hex": text.hex(), "opts": "default", "src": "slice", "api": "single", "fast": True}}
        return {"replayed": False}
    seen = {"push": 0, "octet_err": 0, "end": 0}
    for t in terms:
        st = t.state
        pc = list(st.pc)
        if t.kind == "PANIC":
            res.must_be_unsat(pc, "parse_byte_list: reachable panic", onm)
            continue
        if not st.notes["in"]:
            continue
        evs = step_events(st)
        nums = [e for e in evs if e[0] == "number"]
        pushes = [e for e in evs if e[0] == "push"]
        wss = [e for e in evs if e[0] == "ws"]
        out = outcome(eng, t)
        if t.kind == "LOOP_BACK":
            seen["push"] += 1
            if len(nums) != 1 or len(pushes) != 1:
                res.violations.append({"what": "byte-vector element step without exactly one number and one push: %r" % ([e[0] for e in evs],), "replayed": None})
                continue
            nd, u = nums[0][3], nums[0][4]
            good = z3.And(z3.Not(nums[0][2]), nd == NN.index("PosInt"), z3.ULE(u, bv(255)), pushes[0][1] == z3.Extract(7, 0, u),
                          wss[0][3], wss[0][4] != info["close"])
            res.must_be_unsat(pc + [z3.Not(good)], "byte-vector element is not an integer 0..=255 stored as that byte", onm)
        elif out == ("err", "ExpectedOctet"):
            seen["octet_err"] += 1
            nd, u = nums[0][3], nums[0][4]
            res.must_be_unsat(pc + [nd == NN.index("PosInt"), z3.ULE(u, bv(255))], "an octet 0..=255 is rejected", onm)
        elif out[0] == "ok":
            seen["end"] += 1
            res.must_be_unsat(pc + [z3.Not(z3.And(wss[0][3], wss[0][4] == info["close"]))], "byte vector ends on something other than its closer", onm)
    for k, n in seen.items():
        res.vacuity.append(("parse_byte_list reaches " + k, n > 0))


CLAIMS += [
    Claim("c01_byte_list", "C01", "quick", claim_byte_list,
          "parse_byte_list: every element is read by the number scanner, accepted exactly when it is a non-negative integer "
          "<= 255 and stored as that byte; the vector ends only at its closer",
          "any number of elements (loop cut), arbitrary number-scanner results", configs=("fast",), also=("C02", "C13", "C04")),
]
