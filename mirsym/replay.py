"""Native replay: builds /verif/replay against /repo's working tree (both feature configurations on demand) and
runs concrete inputs through the real API.  Used (a) to confirm E2 counterexamples before a VIOLATION is printed,
(b) for translator validation, (c) to re-check known-finding witnesses."""
import json
import os
import subprocess

VERIF = os.path.dirname(os.path.dirname(os.path.abspath(__file__)))
_BUILT = {}


def binary(fast=True):
    tag = "fast" if fast else "nofast"
    if tag in _BUILT:
        return _BUILT[tag]
    tdir = os.path.join(VERIF, ".work", "replay-target", tag)
    env = dict(os.environ)
    env["CARGO_NET_OFFLINE"] = "true"
    env.pop("RUSTFLAGS", None)
    cmd = ["cargo", "build", "--offline", "--target-dir", tdir, "--no-default-features"]
    if fast:
        cmd += ["--features", "fast-float"]
    p = subprocess.run(cmd, cwd=os.path.join(VERIF, "replay"), env=env, capture_output=True, text=True, timeout=900)
    if p.returncode != 0:
        raise RuntimeError("replay build failed: " + p.stderr[-3000:])
    b = os.path.join(tdir, "debug", "lexpr-replay")
    _BUILT[tag] = b
    return b


def opts_str(o):
    if isinstance(o, str):
        return o
    return ",".join("%s=%d" % (k, int(o[k])) for k in ("k", "nil", "t", "br", "ss", "cs", "rk", "dg") if k in o)


def parse(data, opts="default", src="slice", api="value", fast=True, fail_at=None, timeout=20):
    """-> dict (JSON printed by the replay binary) or {'crash': ...}"""
    cmd = [binary(fast), "parse", opts_str(opts), src, api, "-"]
    if fail_at is not None:
        cmd.append(str(fail_at))
    try:
        p = subprocess.run(cmd, input=bytes(data).hex(), capture_output=True, text=True, timeout=timeout)
    except subprocess.TimeoutExpired:
        return {"crash": "timeout"}
    if p.returncode != 0:
        return {"crash": "exit %d" % p.returncode, "stderr": p.stderr[:600]}
    try:
        return json.loads(p.stdout.strip().split("\n")[-1])
    except Exception as e:  # noqa
        return {"crash": "bad output %r" % (e,), "stdout": p.stdout[-500:]}


def single(data, opts="default", src="slice", fast=True, fail_at=None):
    return parse(data, opts, src, "single", fast, fail_at)


def run_witness(w):
    """Known-finding witness: {'kind':'parse', 'input_hex'|'input', 'opts', 'src', 'api', 'fast', 'expect': {...}}
    returns (still_reproduces, description)."""
    if w.get("kind") == "stack":
        done = stack_op(w["op"], w.get("n", 300000), w.get("dotted", False))
        return (done is False), "operation %s on %d elements completed=%r" % (w["op"], w.get("n", 300000), done)
    if w.get("kind") == "parse":
        data = bytes.fromhex(w["input_hex"]) if "input_hex" in w else w["input"].encode()
        r = parse(data, w.get("opts", "default"), w.get("src", "slice"), w.get("api", "single"),
                  w.get("fast", True), w.get("fail_at"))
        exp = w["expect"]
        ok = match_expect(r, exp)
        return ok, "got %s" % json.dumps(r)[:300]
    return False, "unknown witness kind"


def match_expect(r, exp):
    """exp is a partial dict that must be contained in r (recursively)."""
    if isinstance(exp, dict):
        if not isinstance(r, dict):
            return False
        return all(k in r and match_expect(r[k], v) for k, v in exp.items())
    if isinstance(exp, list):
        return isinstance(r, list) and len(r) >= len(exp) and all(match_expect(a, b) for a, b in zip(r, exp))
    return r == exp


def print_check(fast=True, timeout=120):
    """Runs the native print corpus (values x option sets x short-writing / failing sinks). -> dict with 'bad' list (decoded)."""
    try:
        p = subprocess.run([binary(fast), "printcheck"], capture_output=True, text=True, timeout=timeout)
    except subprocess.TimeoutExpired:
        return {"crash": "timeout"}
    if p.returncode != 0:
        return {"crash": "exit %d" % p.returncode, "stderr": p.stderr[:600]}
    d = json.loads(p.stdout.strip().split("\n")[-1])
    d["bad"] = [bytes.fromhex(x).decode("utf-8", "replace") for x in d.get("bad", [])]
    return d


def run_cmd(args, fast=True, timeout=120):
    """Generic corpus command of the replay binary returning {'cases': n, 'bad': [hex strings]} (decoded here)."""
    try:
        p = subprocess.run([binary(fast)] + list(args), capture_output=True, text=True, timeout=timeout)
    except subprocess.TimeoutExpired:
        return {"crash": "timeout", "bad": ["timeout"]}
    if p.returncode != 0:
        return {"crash": "exit %d" % p.returncode, "stderr": p.stderr[:600], "bad": ["crash: " + p.stderr[:200]]}
    d = json.loads(p.stdout.strip().split("\n")[-1])
    d["bad"] = [bytes.fromhex(x).decode("utf-8", "replace") for x in d.get("bad", [])]
    return d


def stack_op(op, n=300000, dotted=False, fast=True, timeout=180):
    """Runs one list operation on an n-element list on a 2 MiB thread in a child process; -> True if it completed."""
    args = [binary(fast), "stack", op, str(n)] + (["dotted"] if dotted else [])
    try:
        p = subprocess.run(args, capture_output=True, text=True, timeout=timeout)
    except subprocess.TimeoutExpired:
        return None
    return p.returncode == 0 and '"ok":true' in p.stdout


def parse_batch(cases, src="slice", api="single", fast=True, timeout=600):
    """cases: list of (bytes, opts string) -> list of dicts (one per case, in order)"""
    inp = "".join("%s\t%s\n" % (opts_str(o), bytes(d).hex()) for d, o in cases)
    try:
        p = subprocess.run([binary(fast), "parsebatch", src, api], input=inp, capture_output=True, text=True, timeout=timeout)
    except subprocess.TimeoutExpired:
        return [{"crash": "timeout"}] * len(cases)
    lines = p.stdout.split("\n")
    out = []
    for i in range(len(cases)):
        try:
            out.append(json.loads(lines[i]))
        except Exception:  # noqa
            out.append({"crash": "no output (exit %d): %s" % (p.returncode, p.stderr[-200:])})
    return out


def print_batch(cases, fast=True, timeout=600):
    """cases: list of (print opts string | 'plain', descriptor) -> list of bytes | 'ERR' | 'PANIC' | None"""
    inp = "".join("%s\t%s\n" % (o, d) for o, d in cases)
    try:
        p = subprocess.run([binary(fast), "printbatch"], input=inp, capture_output=True, text=True, timeout=timeout)
    except subprocess.TimeoutExpired:
        return [None] * len(cases)
    lines = p.stdout.split("\n")
    out = []
    for i in range(len(cases)):
        ln = lines[i] if i < len(lines) else None
        if ln is None or (p.returncode != 0 and i >= len(lines) - 1):
            out.append(None)
        elif ln in ("ERR", "PANIC"):
            out.append(ln)
        else:
            try:
                out.append(bytes.fromhex(ln))
            except ValueError:
                out.append(None)
    return out
