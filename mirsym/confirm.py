"""Native confirmation of E2 counterexamples by domain corpora: inputs of the domain a claim talks about are run through
the real API (replay binary built from /repo's working tree; all three input sources) and compared with the reference
of refimpl.py.  The first discrepancy is the reproduced witness (concrete input, options, expected, observed).
This is replay, not the deciding step: it only runs after the solver produced a counterexample."""
import itertools

from . import refimpl as R
from . import replay as RP

_CACHE = {}


def P(**kw):
    return R.POpts(**kw)


DEFAULT, ELISP = R.POpts.default(), R.POpts.elisp()


# ----------------------------------------------------------------------------- corpora (lists of (bytes, POpts))

def corpus_strings():
    out = []
    r6, el = P(ss=0), P(ss=1)
    for e in range(256):
        out.append((b'"a\\' + bytes([e]) + b'b"', r6))
        out.append((b'"a\\' + bytes([e]) + b'b"', el))
        out.append((b'"a' + bytes([e]) + b'b"', r6))
        out.append((b'"a' + bytes([e]) + b'b"', el))
        out.append((b'"\\101' + bytes([e]) + b'"', el))
        out.append((b'"' + bytes([e]) + b'\\x41"', el))
    HV = ["0", "41", "7f", "7F", "80", "e9", "ff", "FF", "100", "3bb", "3BB", "7ff", "800", "d7ff", "d800", "D800", "dfff", "e000",
          "fffd", "ffff", "10000", "1f600", "10ffff", "110000", "ffffff", "1000000", "0000041", "00000000000041", ""]
    for h in HV:
        out.append((b'"\\x' + h.encode() + b';"', r6))
        out.append((b'"a\\x' + h.encode() + b';b\\x' + h.encode() + b';"', r6))
        out.append((b'"\\x' + h.encode() + b'"', r6))
        out.append((b'"\\x' + h.encode() + b'"', el))
        out.append((b'"\\x' + h.encode() + b' z"', el))
        out.append((b'"\xce\xbb\\x' + h.encode() + b'\\ "', el))
        out.append((b'"\\N{U+' + h.encode() + b'}"', el))
        if len(h) <= 4:
            out.append((b'"\\u' + h.rjust(4, "0").encode() + b'"', el))
            out.append((b'"\\u' + h.encode() + b'"', el))
        if len(h) <= 8:
            out.append((b'"\\U' + h.rjust(8, "0").encode() + b'"', el))
    for n in list(range(0, 0o1000, 7)) + [0o177, 0o200, 0o377, 0o400, 0o777, 0o1000, 0o1777, 0o154000, 0o4177777, 0o4200000]:
        out.append((b'"\\%o"' % n, el))
        out.append((b'"\\%03o"' % n, el))
        out.append((b'"x\\%03o\\%03o"' % (n & 0o777, (n + 1) & 0o777), el))
    # second-level escapes: every byte after an escape introducer that takes an argument
    for e in range(256):
        for intro in (b"^", b"C-", b"M-", b"x", b"u", b"u00", b"U", b"N", b"N{", b"N{U+", b"1", b"12"):
            out.append((b'"\\' + intro + bytes([e]) + b'"', el))
        out.append((b'"\\x' + bytes([e]) + b';"', r6))
        out.append((b'"\\x4' + bytes([e]) + b';"', r6))
    for t in (b'"\\x41 z"', b'"\\x41\xc3\xa9z"', b'"\\x41-"', b'"\\x41.;"', b'"a\\x3bb\xce\xbb;"', b'"\\x;"', b'"\\x41"z"'):
        out.append((t, r6))
    for t in (b'"\\300\\u00e9"', b'"\\300\xc3\xa9"', b'"\\101"', b'"\\101\xce\xbb"', b'"\\001\\002\\003"', b'"\\x41\\x42"', b'"\\^a\\^Z\\^@\\^1"',
              b'"\\e\\s\\d\\ \\q"', b'""', b'"\\377a"', b'"a\\377"', b'"\\400\\377"', b'"\\u00ff\\377"', b'"\\N{U+41}\\101"', b'"\\N{LATIN}"', b'"\\N"',
              b'"\xff"', b'"a\xce"', b'"\xce\xbb"', b'"\xf0\x9f\x98\x80"', b'"\xed\xa0\x80"', b'"\xc0\x80"'):
        out.append((t, el))
        out.append((t, r6))
    for t, o in ((b'"ab\\n\\x41;\\t\xce\xbb\\\\"', r6), (b'"ab\\n\\101\\u00e9\\x41\\N{U+3bb}\\^a"', el)):
        for i in range(len(t)):
            out.append((t[:i], o))
    return out


def corpus_chars():
    out = []
    r6, el = P(cs=0), P(cs=1, br=1)
    for c in range(256):
        for suffix in (b"", b" ", b")", b"#t", b"x", b"\""):
            out.append((b"#\\" + bytes([c]) + suffix, r6))
        out.append((b"(#\\" + bytes([c]) + b")", r6))
        out.append((b"(#\\" + bytes([c]) + b" a)", r6))
        out.append((b"[#\\" + bytes([c]) + b"]", r6))
        out.append((b"[1 #\\" + bytes([c]) + b"]", P(cs=0, br=1)))
        out.append((b"#(#\\x" + b"%x" % c + b")", r6))
        out.append((b"[#\\x" + b"%x" % c + b"]", P(cs=0, br=1)))
        for suffix in (b"", b" ", b"]"):
            out.append((b"?" + bytes([c]) + suffix, el))
            out.append((b"?\\" + bytes([c]) + suffix, el))
        out.append((b"[?" + bytes([c]) + b" ?\\" + bytes([c]) + b"]", el))
    for c in range(256):
        for intro in (b"^", b"C-", b"M-", b"x", b"x4", b"u", b"u004", b"U", b"N", b"N{", b"N{U+", b"1", b"12"):
            out.append((b"?\\" + intro + bytes([c]), el))
            out.append((b"[?\\" + intro + bytes([c]) + b"]", el))
        out.append((b"#\\x4" + bytes([c]), r6))
    for head in (b"#\\a", b"#\\x3bb", b"#\\space", b"#\\\xce\xbb", b"#\\x41"):
        for sep in (b"\t", b"\n", b"\r", b"\x0c", b";c\n", b"\t1", b"\n#\\b"):
            out.append((head + sep, r6))
            out.append((b"(" + head + sep + b")", r6))
    for c2 in (0x80, 0xA0, 0xC3, 0xCE, 0xE2, 0xFF):
        for head in (b"#\\a", b"#\\x41", b"#\\space", b"#\\x", b"#\\(", b"#\\\xce\xbb"):
            out.append((head + bytes([c2]), r6))
            out.append((b"(" + head + bytes([c2]) + b"\xbb)", r6))
    for nm in list(R.R6RS_CHAR_NAMES) + [b"Space", b"spacex", b"nu", b"nulx", b"xx", b"ab", b"altmode", b"rubout", b"null"]:
        for suffix in (b" ", b")", b"(", b"\"a\"", b";c", b"#"):
            out.append((b"#\\" + nm + suffix, r6))
        out.append((b"(#\\" + nm + b")", r6))
    HV = ["0", "41", "7f", "80", "e9", "ff", "100", "3bb", "3BB", "d7ff", "d800", "dfff", "e000", "ffff", "10000", "1f600", "10ffff",
          "110000", "ffffff", "1000000", "0000041", "g", "4g", "41;"]
    for h in HV:
        for suffix in (b"", b" ", b")", b"\"", b"#"):
            out.append((b"#\\x" + h.encode() + suffix, r6))
            out.append((b"?\\x" + h.encode() + suffix.replace(b")", b"]").replace(b"#", b" "), el))
        out.append((b"?\\N{U+" + h.encode() + b"}", el))
        if len(h) <= 4:
            out.append((b"?\\u" + h.rjust(4, "0").encode(), el))
            out.append((b"?\\u" + h.encode(), el))
        if len(h) <= 8:
            out.append((b"?\\U" + h.rjust(8, "0").encode(), el))
    for n in list(range(0, 0o1000, 5)) + [0o154000, 0o4177777, 0o4200000]:
        out.append((b"?\\%o" % n, el))
        out.append((b"?\\%o " % n, el))
    for t in (b"#\\\xce\xbb", b"#\\\xce\xbbx", b"#\\\xce", b"#\\\xff", b"#\\\xf0\x9f\x98\x80", b"#\\\xf0\x9f\x98", b"?\xce\xbb", b"?\\\xce\xbb", b"?\xce",
              b"?\\^a", b"?\\^Z", b"?\\^1", b"?\\^", b"?", b"?\\", b"#\\", b"#", b"?\\N{", b"?\\N{U+", b"?\\N{U+41", b"?\\N{LATIN}", b"?a?b", b"(?a . ?b)",
              b"#\\\xc0\x80", b"#\\\xc1\x81", b"#\\\xc1\xbf", b"#\\\xc2\x80", b"#\\\xe0\x80\x80", b"#\\\xe0\x9f\xbf", b"#\\\xe0\xa0\x80", b"#\\\xed\xa0\x80",
              b"#\\\xed\x9f\xbf", b"#\\\xf0\x80\x80\x80", b"#\\\xf0\x8f\xbf\xbf", b"#\\\xf0\x90\x80\x80", b"#\\\xf4\x8f\xbf\xbf", b"#\\\xf4\x90\x80\x80",
              b"#\\\xf5\x80\x80\x80", b"#\\\xc2\x41", b"#\\\xe2\x82\x41", b"?\xc1\x81", b"?\xc0\x80", b"?\xed\xa0\x80", b"(#\\\xc1\x81)", b"?\\\xc1\x81"):
        out.append((t, r6))
        out.append((t, el))
    return out


TOKENS = [b".", b"..", b"nil", b"nil:", b"nilx", b"t", b"tt", b"t:", b":a", b"a:", b":a:", b"::", b":", b"a", b"abc", b"#:a", b"#:", b"#:a:", b"#%a", b"#%", b"#%a:",
          b"?a", b"?\\(", b"1+", b"1-", b"1/2", b"1.5.6", b"0x10", b"12ab", b"1e3", b"12", b"-12", b"+5", b"-", b"+", b"-a", b"+a", b"-:", b"+nil",
          b"...", b".a", b".a:", b".nil", b"a.b", b"-1x", b"1.", b"1.e", b".5", b"-.5", b"1e", b"1e-7", b"1e+", b"#t", b"#f", b"#nil", b"#true", b"#nilx",
          b"#x10", b"#b101", b"#b102", b"#d1.5", b"#e1", b"#xg", b"#x-a", b"#x+A", b"#o8", b"\xce\xbb", b"\xce\xbb:", b"\xe2\x82\xac", b"a\"b", b"a|b", b"a#b",
          b"a'b", b"|", b"{", b"\\", b"@", b"_x", b"!", b"a\x00b", b"-\x00", b"\x00", b"\x0b", b"1\"a\"", b"12|", b"5:", b"5nil", b"0nil:", b"9.9.9",
          b"550e8400-e29b-41d4", b"1e-7x", b"++", b"-+", b"+-", b"--", b"+++x", b"-+-", b"+.", b"-.", b"+@", b"-~x", b"-1+", b"+1-", b"0.0000001", b"-0", b"+0", b"00012", b"1E3", b"#XFF", b"#Xff", b"t.", b"nil.", b":nil", b":t", b"nil:t"]
CONTEXTS = [(b"", b""), (b"", b";c\n"), (b"(", b";c\n)"), (b"(", b")"), (b"(x ", b")"), (b"(", b" x)"), (b"(x . ", b")"), (b"#(", b")"), (b"[x ", b"]"), (b"'", b""), (b"(x . ", b" )"), (b"#(y ", b" z)")]


def token_opts():
    out = []
    for k, nil, t, dg, rk in itertools.product(range(8), range(3), range(2), range(2), range(2)):
        out.append(P(k=k, nil=nil, t=t, dg=dg, rk=rk))
    for br, ss, cs in itertools.product(range(2), range(2), range(2)):
        if (br, ss, cs) != (0, 0, 0):
            for k, nil, dg in ((4, 1, 0), (3, 0, 1), (7, 2, 1)):
                out.append(P(k=k, nil=nil, t=0, br=br, ss=ss, cs=cs, dg=dg, rk=1))
    return out


def corpus_tokens(opts=None):
    out = []
    for o in (opts or token_opts()):
        for tok in TOKENS:
            for pre, post in CONTEXTS:
                out.append((pre + tok + post, o))
    return out


def corpus_lists():
    out = []
    texts = [b"()", b"( )", b"(a)", b"(a b)", b"(a . b)", b"(a . (b c))", b"(a . (b . c))", b"(a . b c)", b"(. a)", b"(a .)", b"(a . )", b"(a .b)", b"(a.b)",
             b"(a . b . c)", b"[a b]", b"(a]", b"[a)", b"#(a b)", b"#(a . b)", b"#()", b"#(a]", b"(a #(b) [c])", b"(a ; comment\n b)", b"(a;c\n)", b"(a;c",
             b"#u8(1 2 3)", b"#vu8(255)", b"#u8(255 0)", b"#u8(256)", b"#u8(-1)", b"#u8(1.0)", b"#u8()", b"#u8 (1)", b"#u8[1]", b"#u8(1 2", b"#u8(#xff)",
             b"#u8(#x100)", b"#u8(#b11111111 #o377 #d255)", b"#u8(1 a)", b"#u8(1 . 2)", b"#vu8(1 2 3)", b"#vu9(1)", b"#u9(1)", b"#u8", b"#vu", b"#v", b"#u8(",
             b"'a", b"''a", b"'(a)", b",@a", b",a", b"`a", b"'", b"`", b",", b",@", b"(')", b"('a . 'b)", b"(a . 'b)", b"#('a)", b"' a", b"'#t", b"',@a",
             b"(a . nil)", b"(nil . nil)", b"(nil)", b"(t . t)", b"#(nil t)", b"(a . #nil)", b"(#nil . a)", b"(a . ())", b"(() . ())", b"((a . b) . (c . d))",
             b"a b c", b"a ; c\n b", b"a)b", b"a]", b")", b"]", b"(a))", b"#;a", b"#|a|#", b" \t\r\n\x0c a", b"\x0ba", b"a\x0cb", b"(a\x0cb)", b"(a\x0bb)",
             b"(a\"s\"b)", b"(\"s\"\"t\")", b"(1\"s\")", b"(a(b)c)", b"(a[b]c)", b"(a#t)", b"(#t#f)", b"(#\\a#\\b)", b"(1 2 . 3)", b"(1 . 2 3)", b"(1 .2)",
             b"(\"a\\n\" .x)", b"(#\\space .x)", b"(1.5 .x)", b"(-y .x)", b"(\"\\x41;\" .x: .y)", b"(1 2.)", b"(- . +)", b"(+ -)", b"#(+ -)", b"[+ -]", b"[a . b]", b"(a . [b])", b"[- ]", b"(... . ...)", b"(.. . a)", b"(a . . b)",
             b'("a\\nb" :k "c\\td" :j)', b"(-y :k)", b"(.x :k)", b"(\xce\xbb :k)", b"(-1.5 :k)", b'("a\\nb" #:k)', b'("a\\nb" k:)', b'("q\\x41;" :k . :j)',
             b'#("a\\nb" :k)', b"(+x :k -y :j)",
             b"(#%a #%b)", b"(- #%a)", b'("a\\nb" #%a)', b"(#%a: #%b:)", b"(\xce\xbb #%a)", b"#(.)", b"#(. foo)", b"#(1 . 2)", b"'. ", b"(a '.)", b". x", b".\n",
             b"(a . #nil)", b"[a b . nil]", b"(nil . nil)", b"(a #nil)", b"(#nil)",
             b'(a ."s")', b"(a .(b))", b"(a .[b])", b"(a .;c\n b)", b"(a .|)", b"(a .#t)", b'(a."s")', b"(a .'b)",
             b"(a\tb c)", b"a\tb", b"(1\t2)", b"(a\rb)", b"(a\nb)", b"(:k\tv)", b"(x:\ty)", b"#(a\tb)"]
    osets = [DEFAULT, ELISP, P(k=7, nil=0, t=0, br=1), P(k=0, nil=2, t=0, br=0, dg=1), P(k=2, nil=2, br=1, ss=1, cs=1), P(k=2, nil=1, t=1, rk=1)]
    for t in texts:
        for o in osets:
            out.append((t, o))
    # every byte directly after the dot, a lone sign, a number, a name, a character and a closer (delimiter sets must agree)
    for c in range(256):
        cb = bytes([c])
        for t in (b"(a ." + cb + b"b)", b"(a ." + cb + b" b)", b"(-" + cb + b"1)", b"(+" + cb + b")", b"(1" + cb + b"2)", b"(1.5" + cb + b"2)",
                  b"1" + cb + b"2", b"-" + cb + b"1", b"(a" + cb + b"b)", b"(#t" + cb + b"b)", b"(#\\a" + cb + b" b)", b"(\"s\"" + cb + b"b)",
                  b"(a . b" + cb + b")", b"(a)" + cb + b"b", b"#(1" + cb + b"2)", b"(1e5" + cb + b"2)", b"(#x1f" + cb + b"2)", b"(. " + cb + b")"):
            for o in (DEFAULT, ELISP, P(br=1, dg=1)):
                out.append((t, o))
    for n in (1, 2, 126, 127, 128, 129, 200):
        for op, cl in ((b"(", b")"), (b"#(", b")"), (b"[", b"]"), (b"'", b""), (b"('", b")"), (b"(a . ", b")"), (b"#(1 ", b")")):
            for o in (DEFAULT, P(br=1)):
                out.append((op * n + b"x" + cl * n, o))
                out.append((op * n + cl * n, o))
                out.append((op * n + b"x" + cl * (n - 1), o))
    return out


def corpus_numbers():
    texts = [b"0", b"-0", b"+0", b"7", b"18446744073709551615", b"18446744073709551616", b"-9223372036854775808", b"-9223372036854775809",
             b"9223372036854775807", b"9223372036854775808", b"#xFFFFFFFFFFFFFFFF", b"#x10000000000000000", b"#x-8000000000000000", b"#x-8000000000000001",
             b"#b-101", b"#o777", b"#d10", b"#b" + b"1" * 64, b"#b" + b"1" * 65, b"#o1777777777777777777777", b"#o2000000000000000000000",
             b"1.5", b"-1.5", b"1e3", b"1E3", b"1e+3", b"1e-3", b"1.5e300", b"1e308", b"1e309", b"-1e309", b"1e-400", b"0.1", b"0.5", b"123.456", b"9007199254740993",
             b"9007199254740993.0", b"123456789012345678901234567890", b"1e22", b"1e23", b"1.0e22", b"4503599627370496.5", b"0.000001", b"0.0000001", b"1e-7",
             b"1.", b"1.e3", b"1e", b"1e+", b"#x1.5", b"#b12", b"#xg", b"+1", b"-1", b"+.5", b"1/2", b"1+", b"12ab", b"0x10", b"1.5.6", b"1e3.5", b"1e3e4", b"00", b"007",
             b"#d-12.5e-1", b"#d1e2", b"#x1e2", b"#xe", b"#xE1", b"#b1e1", b"1e0", b"1e00000000000000000000001", b"1e99999999999999999999", b"0e99999999999999999999",
             b"1e-99999999999999999999", b"0.0", b"-0.0", b"5e-324", b"2e-324", b"1.7976931348623157e308", b"1.7976931348623159e308",
             b"#x1" + b"0" * 256, b"#x" + b"f" * 300, b"#b1" + b"0" * 1024, b"#o1" + b"0" * 342, b"#x1" + b"0" * 255, b"#x-1" + b"0" * 260, b"#b" + b"1" * 1100,
             b"#xFFFFFFFFFFFFFFFFFFFF", b"#x10000000000000000F", b"#x-123456789abcdef0123aBcD", b"#XABCDEFABCDEFABCDEFAB", b"#xffffffffffffffffffff",
             b"0e309", b"0e400", b"0.0e999", b"-0e1000", b"0.000E+4000", b"0e308", b"0e-400", b"0.0e22",
             b"-1e3", b"-5e22", b"-2e-7", b"+1e3", b"-1e16", b"-1E2", b"-12e1", b"-0e5", b"-1e400", b"-3e-400", b"-18446744073709551616e2", b"-1.5e3",
             b"100000000000000000000e2147483647", b"0.01e-2147483647", b"1.5e2147483646", b"0.001e2147483647", b"123456789012345678901e-2147483648",
             b"1e2147483647", b"0.1e-2147483647", b"1e-2147483648", b"1e2147483648", b"0.00e2147483647", b"12345678901234567890123e-2147483647",
             b"1e-616", b"1e-617", b"1e-1000", b"7.25e-620", b"-3e-99999", b"0e-700", b"1e-309", b"1e-325", b"123e-640",
             b"3.14159265358979323846264338328", b"6.0221407600000000000000000e23", b"184467440737095516150.5", b"0.10000000000000000000000000001",
             b"1.00000000000000000000000000000", b"99999999999999999999.99999999999999999999", b"18446744073709551615.5", b"1844674407370955161.65",
             b"0.000000000000000000000000000001234567890123456789012345", b"123456789012345678.90123456789e-5", b"-2.718281828459045235360287471352"]
    out = []
    for t in texts:
        for o in (DEFAULT, P(dg=1)):
            out.append((t, o))
            out.append((b"(" + t + b")", o))
            out.append((b"(1 . " + t + b")", o))
            out.append((b"#(" + t + b" " + t + b")", o))
    return out


WELL_FORMED = [(b"#nil", DEFAULT), (b"#t", DEFAULT), (b"#f", DEFAULT), (b"#x1F", DEFAULT), (b"#b-101", DEFAULT), (b"#o17", DEFAULT), (b"#d19", DEFAULT),
               (b"12.5e-3", DEFAULT), (b"-12.5E+3", DEFAULT), (b"1e10", DEFAULT), (b"#\\space", DEFAULT), (b"#\\x3bb", DEFAULT), (b"#\\a", DEFAULT),
               (b"#\\\xce\xbb", DEFAULT), (b'"ab\\n\\x41;\\t\xce\xbb\\\\\\""', DEFAULT), (b"#u8(1 2 255)", DEFAULT), (b"#vu8(1 #xff)", DEFAULT),
               (b"'(a b)", DEFAULT), (b"`(a ,b ,@c)", DEFAULT), (b"\xce\xbbx", DEFAULT), (b"(a . b)", DEFAULT), (b"#(a (b) #:k)", DEFAULT), (b"[a b]", DEFAULT),
               (b"#:key", DEFAULT), (b"(a ;c\n b)", DEFAULT), (b'"a\\101\\u00e9\\x41\\N{U+3bb}\\^a\\ "', ELISP), (b"?\\x41", ELISP), (b"?\\u00e9", ELISP),
               (b"?\\N{U+3bb}", ELISP), (b"?\\^a", ELISP), (b"?\\101", ELISP), (b"?a", ELISP), (b"[a ?b :k \"s\"]", ELISP), (b"(a . [b])", ELISP), (b"?\xce\xbb", ELISP),
               (b"#%app", P(rk=1)), (b"(1 . (2 . (3 . ())))", DEFAULT)]


def corpus_truncation():
    out = []
    for t, o in WELL_FORMED:
        for i in range(len(t) + 1):
            out.append((t[:i], o))
    return out


READ_DOMAINS = {"strings": corpus_strings, "chars": corpus_chars, "tokens": corpus_tokens, "lists": corpus_lists, "numbers": corpus_numbers,
                "truncation": corpus_truncation}


def is_utf8(b):
    try:
        b.decode("utf-8")
        return True
    except UnicodeDecodeError:
        return False


def check_read(cases, fast=True, sources=("slice", "reader", "str"), stop_after=3, api="single"):
    """-> (n_cases_run, discrepancies[list of dict])"""
    bad = []
    n = 0
    refs = [None] * len(cases)
    for src in sources:
        idx = [i for i, (d, o) in enumerate(cases) if src != "str" or is_utf8(d)]
        sub = [(cases[i][0], cases[i][1].s()) for i in idx]
        nat = RP.parse_batch(sub, src, api, fast)
        n += len(sub)
        for i, nv in zip(idx, nat):
            d, o = cases[i]
            if refs[i] is None:
                refs[i] = R.read_single(d, o) if api == "single" else R.read_all(d, o)
            ok, why = (R.same(refs[i], nv, fast) if api == "single" else R.same_items(refs[i], nv, fast))
            if not ok:
                bad.append({"input_hex": d.hex(), "input": d.decode("latin-1"), "opts": o.s(), "src": src, "api": api, "fast": fast,
                            "expected": _short(refs[i]), "observed": _short(nv), "why": why})
                if len(bad) >= stop_after:
                    return n, bad
    return n, bad


def _short(v):
    s = repr(v)
    return s if len(s) < 400 else s[:400] + "..."


def print_cases():
    """(popts dict, value) pairs: structured values and option-sensitive leaves under all 576 combinations; strings and
    characters under every string / char syntax with the remaining options at the default and at the Emacs preset"""
    out = []
    allopts = list(R.all_print_opts())
    for v in R.print_corpus():
        if v["t"] in ("string", "char", "int", "symbol"):
            for base in (R.PRINT_DEFAULT, R.PRINT_ELISP):
                for s, c in itertools.product(R.PRINT_OPTS["str"], R.PRINT_OPTS["char"]):
                    po = dict(base)
                    po["str"], po["char"] = s, c
                    out.append((po, v))
        else:
            for po in allopts:
                out.append((po, v))
    return out


def check_print(fast=True, stop_after=3):
    cases = print_cases()
    nat = RP.print_batch([(R.popts_str(po), R.desc(v)) for po, v in cases], fast)
    # the plain (non-customised) entry point must equal the default options
    plain_vals = R.print_corpus()
    nat_plain = RP.print_batch([("plain", R.desc(v)) for v in plain_vals], fast)
    bad = []
    for (po, v), got in list(zip(cases, nat)) + [((R.PRINT_DEFAULT, v), g) for v, g in zip(plain_vals, nat_plain)]:
        want = R.ref_print(v, po)
        if got != want:
            bad.append({"kind": "print", "value": R.desc(v), "print_opts": R.popts_str(po), "expected": want.decode("latin-1"),
                        "observed": got.decode("latin-1") if isinstance(got, bytes) else got, "fast": fast})
            if len(bad) >= stop_after:
                break
    return len(cases) + len(plain_vals), bad



SPAN_CORPUS = [b"  abc  ", b"\n (a \"b\" #\\c)\n", b"'x y", b"#(1 2) ;c\n 3", b"(a . b)", b"#u8(1 2) z", b"`(,a ,@b) ", b"  \xce\xbb (\xce\xbb)",
               b"'  x", b",@  (a  b)", b"`   x", b"( '  x  ,  y )", b"#( a   'b )", b"(a   .   b)", b"  ''  x",
               b"(\"ab\ncd\" x)", b"#u8(1\n 2) y", b"(a\n \"s\nt\"\n b)", b"\"x\ny\nz\" w",
               b"(a bb ccc dddd)", b"(a .b c)", b"(.a)", b"(x .yy . zz)", b"(a (b c) d)", b"(a (b . c) . d)", b"((a) (b) (c))", b"(1 . (2 . (3 . ())))",
               b"#(a bb ccc)", b"#((a b) #(c d) e)", b"(a #(b c) . #(d))", b"[a bb . cc]", b"(a\n bb\n  ccc)", b"#(a\n bb\n  ccc)", b"(a 'b `(c ,d) . e)",
               b"(\xce\xbb .\xce\xbc \xce\xbd)", b"(a ... b)", b"(#\\a #\\space \"s\" 1.5 #t . #nil)", b"x y z", b"(a)(b)", b"( a ( b ( c ( d ) ) ) )",
               b",@xs", b"(a ,@b ,c)", b",@(a b)", b"`(,@a ,@b)", b"(a .\"s\")", b"(a . \"s\")",
               b"(a\tb c)", b"a\tb", b"(a\x0cb)", b"#u8(1 2 3)", b"  #u8(1 2 3) x", b"(a #vu8(1\n 2) b)", b"#(#u8() #u8(255))", b"\"a\\nb\" \"c\""]


def _span_walk_check(text, sp, val):
    """span node `sp` against value descriptor `val`: same shape, ordered, nested, and the covered text re-reads as the value"""
    lines = text.split(b"\n")
    starts = [0]
    for ln_ in lines[:-1]:
        starts.append(starts[-1] + len(ln_) + 1)

    def off(p):
        l, c = p
        if not (1 <= l <= len(lines)) or c > len(lines[l - 1]):
            return None
        return starts[l - 1] + c

    def rec(sp, val, lo, hi, shorthand_head=False):
        a, b = off(sp["s"]), off(sp["e"])
        if a is None or b is None:
            return "span %r..%r lies outside the input" % (sp["s"], sp["e"])
        if not (lo <= a < b <= hi):
            return "span %r..%r is empty, outside its parent or overlaps its preceding sibling" % (sp["s"], sp["e"])
        piece = text[a:b]
        if shorthand_head:
            whole = b",@" if text[a:a + 2] == b",@" else text[a:a + 1]
            if piece != whole or whole not in (b"'", b"`", b",", b",@"):
                return "head span of a quote shorthand covers %r, the shorthand is %r" % (piece.decode("latin-1"), whole.decode("latin-1"))
            return None
        one = RP.single(piece, "default", "slice")
        if one != val:
            return "span %r..%r covers %r which reads as %s, the sub-datum is %s" % (sp["s"], sp["e"], piece.decode("latin-1"), _short(one), _short(val))
        kids = None
        if val.get("t") == "list":
            if "list" not in sp:
                return "list value without list span information at %r" % (sp["s"],)
            kids = list(sp["list"])
            vals = list(val["v"])
            has_tail = val.get("tail", {}).get("t") != "null"
            if has_tail != (bool(kids) and "dot" in kids[-1]):
                return "dotted tail and its span information disagree at %r" % (sp["s"],)
            if has_tail:
                kids[-1] = kids[-1]["dot"]
                vals.append(val["tail"])
        elif val.get("t") == "vector":
            if "vec" not in sp:
                return "vector value without vector span information at %r" % (sp["s"],)
            kids, vals = list(sp["vec"]), list(val["v"])
        elif "list" in sp or "vec" in sp:
            return "atom with list / vector span information at %r" % (sp["s"],)
        if kids is not None:
            if len(kids) != len(vals):
                return "%d element spans for %d elements at %r" % (len(kids), len(vals), sp["s"])
            quote = piece[:1] in (b"'", b"`", b",") and val.get("t") == "list"
            cur = a
            for i, (k, v) in enumerate(zip(kids, vals)):
                if "s" not in k:
                    return "element without span at %r" % (sp["s"],)
                why = rec(k, v, cur, b, shorthand_head=(quote and i == 0))
                if why:
                    return why
                cur = off(k["e"])
        return None
    return rec(sp, val, 0, len(text))


def check_spans(fast=True):
    n, bad = 0, []
    for text in SPAN_CORPUS:
        per_src = {}
        for src in ("slice", "reader", "str"):
            sp = RP.parse(text, "default", src, "spans", fast)
            dv = RP.parse(text, "default", src, "datum", fast)
            n += 2
            per_src[src] = sp
            why = None
            spans = sp.get("spans")
            items = [i for i in dv.get("items", []) if "t" in i]
            if spans is None or len([x for x in spans if "s" in x]) != len(items):
                why = "the span walk yields %r for %d items" % (_short(sp), len(items))
            else:
                lo = 0
                for s_, v in zip([x for x in spans if "s" in x], items):
                    why = _span_walk_check(text, s_, v)
                    if why:
                        break
            if why is None and sp != per_src["slice"]:
                why = "spans differ between the slice and the %s source" % src
            if why is None:
                pw = RP.parse(text, "default", src, "spans_pairs", fast)
                n += 1
                if pw != sp:
                    why = "walking the lists cell by cell (as_pair) gives other spans than the list iterator: %s" % _short(pw)
            if why:
                bad.append({"input_hex": text.hex(), "input": text.decode("latin-1"), "opts": "default", "src": src, "api": "spans", "fast": fast,
                            "expected": "spans delimiting exactly each sub-datum", "observed": why, "why": why})
                return n, bad
    return n, bad


LOC_BAD = [b"#nix", b"#vu9(1)", b"1e+x", b"1e", b"1e400", b"-1e400", b"#\\foo", b"\"\\q\"", b"#xg", b")", b"]", b"#u8(256)", b"(a . )", b"(a . b c)", b"#", b"#tx",
           b"\"abc", b"(a b", b"#(a", b"'", b"#\\x110000", b"\"\\x110000;\"", b"1.5.6", b"#b12", b"(a]", b"#u8(1 a)", b"123456789012345678901234567890e999", b"#d1e400",
           b"#:", b"1e99999999999", b"(1 . 2 . 3)", b"\xff", b"#\\\xff", b"\"\xc3\""]
LOC_CTX = [(b"", b""), (b"\n", b""), (b"(1 2 3\n ", b")"), (b"a\n\n  ", b""), (b"\"s\nt\" ", b""), (b";c\n", b" x"), (b"\xce\xbb\n\xce\xbb ", b""),
           (b"(a\r\n(b\n", b"))"), (b"\n\n\n\n\n\n\n\n\n\n\n\n", b"\n")]


def check_locations(fast=True):
    """C19 location clause as an oracle of its own (no reference involved): every syntax / EOF error of a malformed input names a
    line in 1..=lines+1 and a column <= length of that line + 1; all three sources."""
    cases = [(pre + tok + post, DEFAULT) for tok in LOC_BAD for pre, post in LOC_CTX]
    n, bad = 0, []
    for src in ("slice", "reader", "str"):
        idx = [i for i, (d, o) in enumerate(cases) if src != "str" or is_utf8(d)]
        sub = [(cases[i][0], cases[i][1].s()) for i in idx]
        for api in ("single", "value"):
            nat = RP.parse_batch(sub, src, api, fast)
            n += len(sub)
            for i, nv in zip(idx, nat):
                d = cases[i][0]
                errs = [nv["err"]] if "err" in nv else [it["err"] for it in nv.get("items", []) if "err" in it]
                why = None
                if "crash" in nv:
                    why = "crash: %s" % nv["crash"]
                lines = d.split(b"\n")
                for e in errs:
                    if e.get("cat") not in ("syntax", "eof") or "line" not in e:
                        continue
                    l, c = e["line"], e["col"]
                    if not (1 <= l <= len(lines) + 1):
                        why = "error line %d outside 1..=%d" % (l, len(lines) + 1)
                    elif c > (len(lines[l - 1]) if l <= len(lines) else 0) + 1:
                        why = "error at line %d column %d, but that line has %d bytes" % (l, c, len(lines[l - 1]) if l <= len(lines) else 0)
                if why:
                    bad.append({"input_hex": d.hex(), "input": d.decode("latin-1"), "opts": DEFAULT.s(), "src": src, "api": api, "fast": fast,
                                "expected": "an in-bounds error location", "observed": why, "why": why})
                    return n, bad
    return n, bad


ITER_TEXTS = [b"a b c", b"a ; comment\n(b c", b"1 \"abc", b"1 '", b"1 #(2", b"x #\\", b"foo ; one\n\tbar\r\n(1 2) \x0c \"baz\" ; done", b"", b"   ", b";c", b"a", b"(a) (b",
              b"a ) b", b"(a . b) c d", b"#t #f #nil", b"\"s\" \"t\"", b"1 2 3 ", b"a]b", b"'a 'b", b"#u8(1) #u8(2", b"(1 2) \x0c \"baz\"", b"x\n\ny", b"a . b",
              b"(a))", b"#\\a #\\b", b"1e 2", b"a #", b"a #;"]


def check_iteration(fast=True):
    """C12: the ways of iterating over a parser agree item by item (no reference involved): next_value loop, value_iter, datum_iter,
    the Iterator impl of Parser, and next_value / next_datum loops that ask expect_end() before every item."""
    n, bad = 0, []
    cases = [(t, DEFAULT) for t in ITER_TEXTS] + [(t, ELISP) for t in ITER_TEXTS[:12]]
    for src in ("slice", "reader", "str"):
        idx = [i for i, (d, o) in enumerate(cases) if src != "str" or is_utf8(d)]
        sub = [(cases[i][0], cases[i][1].s()) for i in idx]
        base = RP.parse_batch(sub, src, "value", fast)
        n += len(sub)
        for api in ("iter", "diter", "piter", "value_ee", "datum_ee", "datum"):
            got = RP.parse_batch(sub, src, api, fast)
            n += len(sub)
            for i, a, b in zip(idx, base, got):
                if a != b:
                    d, o = cases[i]
                    bad.append({"input_hex": d.hex(), "input": d.decode("latin-1"), "opts": o.s(), "src": src, "api": api, "fast": fast,
                                "expected": _short(a), "observed": _short(b), "why": "iterating with `%s` differs from the plain next_value loop" % api})
                    return n, bad
    return n, bad


HISTORY_TEXTS = [b"#\\x\xc3\xa9a b", b"#\\\xc3\xa9x (\xce\xbb) c", b"\"\\q\xc3\xa9\" \xc3\xa9", b") \xce\xbb", b"#\\space\xc3\xa9 z", b"#t\xce\xbb a", b"1\xc3\xa9 b",
                 b"#\\x41\xe2\x82\xac c", b"(#\\x\xc3\xa9a) b", b"#nix\xc3\xa9 a", b"a ) b ] c", b"#\\x110000 a", b"\"\\x110000;\" \xce\xbb"]


def check_histories(fast=True):
    """C06 / C17 on call histories (no reference involved): the same parser asked again and again after errors gives the same sequence
    of values / errors from a str, a byte slice and a stream over the same valid UTF-8 text, and everything returned is well-formed"""
    n, bad = 0, []
    cases = [(t, DEFAULT) for t in HISTORY_TEXTS] + [(t, ELISP) for t in HISTORY_TEXTS[:6]]
    for api in ("valuec", "datumc"):
        res_by_src = {}
        for src in ("str", "slice", "reader"):
            sub = [(d, o.s()) for d, o in cases]
            res_by_src[src] = RP.parse_batch(sub, src, api, fast)
            n += len(sub)
        for i, (d, o) in enumerate(cases):
            a = res_by_src["str"][i]
            for src in ("slice", "reader"):
                b = res_by_src[src][i]
                why = None
                if "!" in (a.get("trace", "") + b.get("trace", "")):
                    why = "a returned value holds text that is not well-formed UTF-8"
                elif "crash" in a or "crash" in b:
                    why = "crash"
                elif a.get("trace") != b.get("trace"):
                    why = "the call history differs between the str and the %s source: %s vs %s" % (src, a.get("trace"), b.get("trace"))
                if why:
                    bad.append({"input_hex": d.hex(), "input": d.decode("latin-1"), "opts": o.s(), "src": "str" if "!" in a.get("trace", "") else src, "api": api, "fast": fast,
                                "expected": _short(a), "observed": _short(b), "why": why})
                    return n, bad
    return n, bad


def run_domain(name, fast=True):
    """cached per process: -> (cases, discrepancies)"""
    key = (name, fast)
    if key not in _CACHE:
        if name == "print":
            _CACHE[key] = check_print(fast)
        elif name == "spans":
            _CACHE[key] = check_spans(fast)
        elif name == "histories":
            _CACHE[key] = check_histories(fast)
        elif name == "iteration":
            _CACHE[key] = check_iteration(fast)
        elif name == "locations":
            _CACHE[key] = check_locations(fast)
        elif name in ("serde", "printcheck", "alist", "conswalk", "numconv", "entrypoints"):
            cmd = {"serde": "serdecheck", "printcheck": "printcheck", "alist": "alistcheck", "conswalk": "conscheck", "numconv": "numcheck",
                   "entrypoints": "entrycheck"}[name]
            r = RP.run_cmd([cmd], fast=True, timeout=600)
            _CACHE[key] = (r.get("cases", 0), [{"kind": "corpus", "cmd": cmd, "what": b} for b in r.get("bad", [])])
        elif name == "value_vs_datum":
            # the two native readers against each other (no reference involved): same items, same error code and position
            cases = corpus_lists() + corpus_truncation() + corpus_tokens([DEFAULT, ELISP, P(k=7, nil=2, t=0, dg=1, rk=1)])
            n, bad = 0, []
            for src in ("slice", "reader"):
                sub = [(d, o.s()) for d, o in cases]
                nv = RP.parse_batch(sub, src, "value", fast)
                nd = RP.parse_batch(sub, src, "datum", fast)
                n += 2 * len(sub)
                for (d, o), a, b in zip(cases, nv, nd):
                    if a != b:
                        bad.append({"input_hex": d.hex(), "input": d.decode("latin-1"), "opts": o.s(), "src": src, "api": "datum", "fast": fast,
                                    "expected": _short(a), "observed": _short(b), "why": "value reader and datum reader differ"})
                        break
                if bad:
                    break
            _CACHE[key] = (n, bad)
        elif name == "tokens_datum":
            # the location-tracking reader on the token corpus (a subset of the option sets: every keyword-flag set x digit mode)
            opts = [P(k=k, nil=nil, t=0, dg=dg, rk=1) for k in range(8) for nil in (0, 2) for dg in (0, 1)]
            _CACHE[key] = check_read(corpus_tokens(opts), fast, api="datum")
        elif name == "lists_datum":
            _CACHE[key] = check_read(corpus_lists(), fast, api="datum")
        elif name == "toplevel":
            cases = [(t, o) for t, o in corpus_lists()[:600]]
            _CACHE[key] = check_read(cases, fast, api="value")
        else:
            _CACHE[key] = check_read(READ_DOMAINS[name](), fast)
    return _CACHE[key]


def confirm(domains, res=None, fast=True):
    """on_model hook factory: tries the domains in order; the first native discrepancy is the replay."""
    def f(m=None):
        tried = []
        for dname in domains:
            n, bad = run_domain(dname, fast)
            if res is not None:
                res.replays += n
            tried.append("%s:%d" % (dname, n))
            if bad:
                b = bad[0]
                if b.get("kind") == "corpus":
                    return {"replayed": True, "observed": [x["what"] for x in bad[:3]], "witness": {"kind": "corpus", "cmd": b["cmd"], "fast": True},
                            "confirm_domain": dname}
                w = {"kind": "print", "fast": fast, "value": b["value"], "print_opts": b["print_opts"], "expect_text_hex": b["expected"].encode("latin-1").hex()} \
                    if b.get("kind") == "print" else \
                    {"kind": "parse", "input_hex": b["input_hex"], "opts": b["opts"], "src": b["src"], "api": b["api"], "fast": fast}
                return {"replayed": True, "observed": b, "witness": w, "confirm_domain": dname}
        return {"replayed": False, "confirm_tried": tried}
    return f


def validate(domains=None, fast=True):
    """development aid: the reference against the current tree"""
    out = {}
    for d in (domains or list(READ_DOMAINS) + ["print", "toplevel"]):
        n, bad = run_domain(d, fast)
        out[d] = (n, bad)
    return out
