"""E2 over the printer (print.rs): every emission goes through write_all / write_fmt, write errors surface, and the
leaf formatter methods emit exactly the documented text for every input and option set (C07, C01/C02 print half)."""
import re

import z3

from . import common as K
from . import ctx as C
from . import mirparse
from . import stubs as S
from .claims import Claim
from .symex import Agg, Blob, BoolV, EnumV, Int, Opaque, Ref, UnitV, Unsupported, ENUM_PAYLOADS


def bv(v, w=8):
    return z3.BitVecVal(v, w)


PRINT_OPT_ENUMS = {"keyword_syntax": "KeywordSyntax", "nil_syntax": "NilSyntax", "bool_syntax": "BoolSyntax",
                   "vector_syntax": "VectorSyntax", "bytes_syntax": "BytesSyntax", "string_syntax": "StringSyntax",
                   "char_syntax": "CharSyntax"}


def unref(engine, st, v):
    while isinstance(v, Ref):
        v = engine.load(st, v.addr)
    return v


def describe_buf(engine, st, v):
    """What is handed to write_all: ('lit', bytes) | ('bytes', [z3 8-bit terms]) | ('name', label) | ('static', name, lo, hi)
    | ('itoa', Int) | ('ryu', F64) | ('opaque', repr)"""
    w = unref(engine, st, v)
    if isinstance(w, Opaque) and w.ty == "strlit":
        return ("lit", w.attrs["lit"])
    if isinstance(w, Opaque) and w.ty == "static" and w.attrs.get("bytes") is not None:
        return ("lit", w.attrs["bytes"])
    if isinstance(w, Agg) and w.kind == "array" and all(isinstance(x, Int) for x in w.fields):
        return ("bytes", [x.e for x in w.fields])
    if isinstance(w, Opaque) and w.label == "itoa":
        return ("itoa", w.attrs["val"])
    if isinstance(w, Opaque) and w.ty == "name":
        return ("name", w.label)
    if isinstance(w, Opaque) and w.ty == "subslice":
        return ("static", w.attrs["of"], w.attrs["lo"], w.attrs["hi"])
    if isinstance(w, Opaque) and w.label == "ryu":
        return ("ryu", w.attrs["val"])
    if isinstance(w, Opaque) and w.ty == "fragment":
        return ("fragment", w.attrs["lo"], w.attrs["hi"])
    return ("opaque", repr(w)[:80])


def print_stubs(cx, engine):
    def seq(st, kind):
        n = st.notes.get("nseq", 0) + 1
        st.notes["nseq"] = n
        return "%s_%d" % (kind, n)

    def h_write_all(engine, st, fr, callee, argv, m):
        err = z3.Bool(seq(st, "werr"))
        st.events.append(("emit", describe_buf(engine, st, argv[1]), err))
        return S.mk_result(engine, err, UnitV(), Opaque("io::Error", "sink", {}))

    def h_write(engine, st, fr, callee, argv, m):
        err = z3.Bool(seq(st, "werr"))
        st.events.append(("bare_write", describe_buf(engine, st, argv[1]), err))
        return S.mk_result(engine, err, engine.sym_int("usize", "written"), Opaque("io::Error", "sink", {}))

    def h_write_fmt(engine, st, fr, callee, argv, m):
        err = z3.Bool(seq(st, "werr"))
        a = argv[1]
        st.events.append(("emit_fmt", a.attrs if isinstance(a, Opaque) else None, err))
        return S.mk_result(engine, err, UnitV(), Opaque("io::Error", "sink", {}))

    def h_fmt_arg(engine, st, fr, callee, argv, m):
        return Opaque("fmtarg", m.group(1), {"kind": m.group(1), "val": unref(engine, st, argv[0])})

    def h_fmt_args(engine, st, fr, callee, argv, m):
        tmpl = S.bytes_of(engine, argv[0]) if not isinstance(argv[0], Opaque) or argv[0].ty != "strlit" else argv[0].attrs["lit"]
        args = unref(engine, st, argv[1])
        return Opaque("fmtargs", "args", {"template": tmpl, "args": list(args.fields) if isinstance(args, Agg) else []})

    def h_range_contains(engine, st, fr, callee, argv, m):
        r, x = unref(engine, st, argv[0]), unref(engine, st, argv[1])
        lo, hi = r.fields[0], r.fields[1]
        return BoolV(z3.And(z3.UGE(x.e, lo.e), z3.ULT(x.e, hi.e)))

    def h_u32_from_char(engine, st, fr, callee, argv, m):
        return Int(argv[0].e, "u32")

    def h_formatter_call(engine, st, fr, callee, argv, m):
        meth = m.group(1)
        err = z3.Bool(seq(st, "werr"))
        st.events.append(("fcall", meth, tuple(argv[2:]) if len(argv) > 2 else (), err))
        return S.mk_result(engine, err, UnitV(), Opaque("io::Error", "sink", {}))

    def h_print_rec(engine, st, fr, callee, argv, m):
        err = z3.Bool(seq(st, "werr"))
        st.events.append(("fcall", "print", (argv[1],), err))
        return S.mk_result(engine, err, UnitV(), Opaque("io::Error", "sink", {}))

    def h_itoa_format(engine, st, fr, callee, argv, m):
        return Opaque("str", "itoa", {"val": argv[1]})

    def h_ryu_format(engine, st, fr, callee, argv, m):
        return Opaque("str", "ryu", {"val": argv[1]})

    def h_shr(engine, st, fr, callee, argv, m):
        a = unref(engine, st, argv[0])
        return Int(z3.LShR(a.e, z3.Extract(7, 0, argv[1].e) if argv[1].width > 8 else argv[1].e), "u8")

    def h_bitand(engine, st, fr, callee, argv, m):
        a = unref(engine, st, argv[0])
        return Int(a.e & argv[1].e, "u8")

    def h_index_range_incl(engine, st, fr, callee, argv, m):
        base, r = unref(engine, st, argv[0]), unref(engine, st, argv[1])
        name = base.label if isinstance(base, Opaque) else "?"
        return Ref(("V", Opaque("subslice", "sub", {"of": name, "lo": r.fields[0].e, "hi": r.fields[1].e})))

    def h_range_incl_new(engine, st, fr, callee, argv, m):
        return Agg("struct", "RangeInclusive", [argv[0], argv[1]])

    return [
        (re.compile(r"^<W as std::io::Write>::write_all$"), h_write_all),
        (re.compile(r"^<W as std::io::Write>::(write|write_vectored)$"), h_write),
        (re.compile(r"^(?:std::io::)?IoSlice::<'_>::new$"), lambda e, st, fr, c, a, m: Blob("ioslice")),
        (re.compile(r"^<\[u8\] as (?:std::ops::)?Index<(?:std::ops::)?Range(?:From|To|Full)?<usize>>>::index$"), lambda e, st, fr, c, a, m: Ref(("V", Opaque("subslice", "part", {"of": "arg", "lo": z3.BitVecVal(0, 64), "hi": z3.BitVecVal(0, 64)})))),
        (re.compile(r"^usize::saturating_sub$|^core::num::<impl usize>::saturating_sub$"), lambda e, st, fr, c, a, m: e.sym_int("usize", "satsub")),
        (re.compile(r"^<W as std::io::Write>::write_fmt$"), h_write_fmt),
        (re.compile(r"^core::fmt::rt::Argument::<'_>::new_(\w+)::<\w+>$"), h_fmt_arg),
        (re.compile(r"^(?:core::fmt::)?Arguments::<'_>::new(?:_v1|_const)?::<"), h_fmt_args),
        (re.compile(r"^std::ops::Range::<u32>::contains::<u32>$"), h_range_contains),
        (re.compile(r"^<u32 as From<char>>::from$"), h_u32_from_char),
        (re.compile(r"^<(?:F|Self|CustomizedFormatter|DefaultFormatter) as print::Formatter>::(\w+)::<W>$"), h_formatter_call),
        (re.compile(r"^Printer::<W, F>::print$"), h_print_rec),
        (re.compile(r"^itoa::Buffer::format::<\w+>$"), h_itoa_format),
        (re.compile(r"^ryu::Buffer::format::<f64>$"), h_ryu_format),
        (re.compile(r"^(itoa|ryu)::Buffer::new$"), lambda *a: Opaque("Buffer", "buf", {})),
        (re.compile(r"^<&u8 as Shr<i32>>::shr$"), h_shr),
        (re.compile(r"^<&u8 as BitAnd<u8>>::bitand$"), h_bitand),
        (re.compile(r"^std::ops::RangeInclusive::<usize>::new$"), h_range_incl_new),
        (re.compile(r"^<\[u8\] as std::ops::Index<std::ops::RangeInclusive<usize>>>::index$"), h_index_range_incl),
        (re.compile(r"^core::str::<impl str>::as_bytes$"), S.h_passthrough),
    ]


def print_options(cx, engine, st):
    import os
    fields = C.parse_structs_from_source([os.path.join(C.REPO, "lexpr/src/print.rs")]).get("Options")
    vals, cons, ov = [], [], {}
    for f in fields:
        ev, c = K.sym_enum(engine, PRINT_OPT_ENUMS[f], "p_" + f)
        vals.append(ev)
        cons.append(c)
        ov[f] = ev.discr
    return Agg("struct", "Options", vals), cons, ov


def explore_print(cx, res, fname, mk_args, custom=False, loop_mode="cut", inline_formatter=False, opt_fix=None):
    """fname: callee text resolving to a print.rs function. mk_args(engine, st) -> (list of arg values after the
    formatter/writer arguments are placed by type, constraints, info)"""
    eng = C.make_engine(cx, [], loop_mode=loop_mode, timeout_s=120, max_paths=20000, unroll=3)
    stubs = print_stubs(cx, eng)
    if inline_formatter:
        stubs = [s for s in stubs if "print::Formatter" not in s[0].pattern]
    eng.stubs = stubs + S.COMBINATOR_STUBS + S.CORE_STUBS
    fn = cx.fns.get(fname) or C.resolve_callee(cx, fname)
    if fn is None:
        raise Unsupported("printer function %s not found" % fname)
    info = {}

    def init(e, st, fr):
        cons = []
        opts, c2, ov = print_options(cx, e, st)
        cons += c2
        for fld, vname in (opt_fix or {}).items():
            cons.append(ov[fld] == cx.enums[PRINT_OPT_ENUMS[fld]].index(vname))
        info["ov"] = ov
        st.heap["fmt"] = Agg("struct", "CustomizedFormatter", [opts])
        st.heap["writer"] = Opaque("W", "writer")
        extra, c3, inf = mk_args(e, st)
        cons += c3
        info.update(inf)
        extra = list(extra)
        for a in fn.args:
            ty = fn.local_ty.get(a, "")
            if ty.strip() in ("&mut Self", "&mut CustomizedFormatter", "&mut F", "&mut DefaultFormatter"):
                fr.locals[a] = Ref(("H", "fmt"))
            elif ty.strip() == "&mut W":
                fr.locals[a] = Ref(("H", "writer"))
            else:
                fr.locals[a] = extra.pop(0)
        st.notes["in"] = ()
        return cons

    def havoc(e, st, fr, bb):
        st.notes["in"] = st.notes["in"] + ((bb, {}),)
        st.notes["events_at_header"] = len(st.events)
        return []
    eng.havoc_hook = havoc
    terms = eng.explore(fn.name, init)
    res.absorb(eng)
    return eng, fn, info, terms


def ok_paths(eng, terms):
    """yield (terminal, extra path constraints) for the paths on which the function returns Ok"""
    for t in terms:
        if t.kind != "RETURN":
            continue
        kind, payload = K.classify_return(eng, t)
        if kind == "ok":
            yield t, []
        elif kind == "sym":
            yield t, [payload.discr == 0]


def emissions(st, since=0):
    return [e for e in st.events[since:] if e[0] in ("emit", "emit_fmt", "bare_write", "fcall")]


_PRINT_REPLAY = {}


def print_replay(res):
    """Native confirmation for printer counterexamples: the corpus of values x option sets x sink behaviours of the
    replay binary (built from /repo) must show a discrepancy."""
    def f(m):
        from . import replay as RP
        if "r" not in _PRINT_REPLAY:
            _PRINT_REPLAY["r"] = RP.print_check()
            res.replays += _PRINT_REPLAY["r"].get("cases", 0)
        r = _PRINT_REPLAY["r"]
        bad = bool(r.get("bad")) or "crash" in r
        return {"replayed": bad, "observed": (r.get("bad") or [r.get("crash")])[:2],
                "witness": {"kind": "printcheck", "fast": True}}
    return f


def check_discipline(res, eng, terms, what):
    """(a) no bare write; (b) after a failed emission nothing more is emitted and the function returns that error;
    (c) Ok is returned only if every emission succeeded."""
    n = 0
    for t in terms:
        st = t.state
        pc = list(st.pc)
        if t.kind == "PANIC":
            continue
        ems = emissions(st)
        for i, e in enumerate(ems):
            n += 1
            if e[0] == "bare_write":
                res.must_be_unsat(pc, "%s: output is written with io::Write::write (a short write silently drops bytes) instead of write_all" % what, print_replay(res))
            err = e[-1]
            if i + 1 < len(ems):
                # a later emission exists on this path: then this one must have succeeded
                res.must_be_unsat(pc + [err], "%s: output continues after a failed write" % what, print_replay(res))
        if t.kind == "RETURN":
            kind, payload = K.classify_return(eng, t)
            if kind == "ok" and ems:
                res.must_be_unsat(pc + [z3.Or(*[e[-1] for e in ems])], "%s: reports success although a write failed" % what, print_replay(res))
            if kind == "sym" and ems:
                res.must_be_unsat(pc + [payload.discr == 0, z3.Or(*[e[-1] for e in ems])], "%s: reports success although a write failed" % what, print_replay(res))
    return n


# ----------------------------------------------------------------------------- leaf text specs

def lit_events(st):
    """concatenated literal text of the emissions of a path, or None if some emission is not a literal / byte array"""
    out = []
    for e in emissions(st):
        if e[0] != "emit":
            return None
        d = e[1]
        if d[0] == "lit":
            out += [bv(b) for b in d[1]]
        elif d[0] == "bytes":
            out += list(d[1])
        else:
            return None
    return out


def text_equals(out, want):
    """z3 condition: list of 8-bit terms == python bytes"""
    if len(out) != len(want):
        return z3.BoolVal(False)
    return z3.And(*[o == bv(w) for o, w in zip(out, want)]) if want else z3.BoolVal(True)


def claim_leaf_text(cx, res, kf):
    KS, NS, BS, VS, YS = (cx.enums[n] for n in ("KeywordSyntax", "NilSyntax", "BoolSyntax", "VectorSyntax", "BytesSyntax"))
    total = 0

    def run(fname, mk_args, spec, what, custom=True):
        """spec(info, st) -> list of (condition, expected bytes); the emitted literal text must equal the expected bytes of
        the (unique) condition that holds"""
        nonlocal total
        eng, fn, info, terms = explore_print(cx, res, fname, mk_args, custom=custom)
        total += check_discipline(res, eng, terms, what)
        oks = 0
        for t in terms:
            st = t.state
            pc = list(st.pc)
            if t.kind == "PANIC":
                allowed = info.get("panic_ok")
                if allowed is None:
                    res.must_be_unsat(pc, "%s: reachable panic `%s`" % (what, t.info.get("msg")), print_replay(res))
                else:
                    res.must_be_unsat(pc + [z3.Not(allowed)], "%s: panics outside the documented invalid option combination" % what, print_replay(res))
                continue
            if t.kind != "RETURN":
                continue
            kind, payload = K.classify_return(eng, t)
            if kind not in ("ok", "sym"):
                continue
            if kind == "sym":
                pc = pc + [payload.discr == 0]
                if res.solve(pc)[0] != z3.sat:
                    continue
            oks += 1
            out = lit_events(st)
            if out is None:
                res.violations.append({"what": "%s: emission is not literal text: %r" % (what, emissions(st)[:3]), "replayed": None})
                continue
            cases = spec(info, st)
            cond = z3.Or(*[z3.And(c, text_equals(out, w)) for c, w in cases])
            res.must_be_unsat(pc + [z3.Not(cond)], "%s: emits text other than the documented spelling" % what, print_replay(res))
        res.vacuity.append(("%s returns Ok on some path" % what, oks > 0))

    def noargs(e, st):
        return [], [], {}
    # ---- default formatter (trait-provided methods)
    run("print::Formatter::write_nil", noargs, lambda i, st: [(z3.BoolVal(True), b"#nil")], "Formatter::write_nil")
    run("print::Formatter::write_null", noargs, lambda i, st: [(z3.BoolVal(True), b"()")], "Formatter::write_null")

    def boolarg(e, st):
        b = e.sym_bool("v")
        return [b], [], {"v": b.e}
    run("print::Formatter::write_bool", boolarg, lambda i, st: [(i["v"], b"#t"), (z3.Not(i["v"]), b"#f")], "Formatter::write_bool")
    run("print::Formatter::begin_list", noargs, lambda i, st: [(z3.BoolVal(True), b"(")], "Formatter::begin_list")
    run("print::Formatter::end_list", noargs, lambda i, st: [(z3.BoolVal(True), b")")], "Formatter::end_list")
    run("print::Formatter::write_dot", noargs, lambda i, st: [(z3.BoolVal(True), b".")], "Formatter::write_dot")
    run("print::Formatter::begin_string", noargs, lambda i, st: [(z3.BoolVal(True), b'"')], "Formatter::begin_string")
    run("print::Formatter::end_string", noargs, lambda i, st: [(z3.BoolVal(True), b'"')], "Formatter::end_string")
    run("print::Formatter::end_vector", noargs, lambda i, st: [(z3.BoolVal(True), b")")], "Formatter::end_vector")
    run("print::Formatter::begin_seq_element", boolarg, lambda i, st: [(i["v"], b""), (z3.Not(i["v"]), b" ")], "Formatter::begin_seq_element")
    run("print::Formatter::end_seq_element", noargs, lambda i, st: [(z3.BoolVal(True), b"")], "Formatter::end_seq_element")

    def kindarg(e, st):
        ev, c = K.sym_enum(e, "VectorType", "kind")
        return [ev], [c], {"kind": ev.discr}
    VT = cx.enums["VectorType"]
    run("print::Formatter::begin_vector", kindarg,
        lambda i, st: [(i["kind"] == VT.index("Generic"), b"#("), (i["kind"] == VT.index("Byte"), b"#u8(")], "Formatter::begin_vector")
    # ---- customised formatter
    ov = {}

    def spec_nil(i, st):
        o = i["ov"]
        falsetxt = [(o["bool_syntax"] == BS.index("Symbol"), b"nil"), (o["bool_syntax"] == BS.index("Token"), b"#f")]
        out = [(o["nil_syntax"] == NS.index("EmptyList"), b"()"), (o["nil_syntax"] == NS.index("Symbol"), b"nil"),
               (o["nil_syntax"] == NS.index("Token"), b"#nil")]
        out += [(z3.And(o["nil_syntax"] == NS.index("False"), c), w) for c, w in falsetxt]
        return out
    # write_nil delegates to write_bool for NilSyntax::False: inline the formatter there
    eng, fn, info, terms = explore_print(cx, res, "<CustomizedFormatter as Formatter>::write_nil", noargs, inline_formatter=True)
    total += check_discipline(res, eng, terms, "CustomizedFormatter::write_nil")
    for t, extra in ok_paths(eng, terms):
        out = lit_events(t.state)
        if out is None:
            res.violations.append({"what": "CustomizedFormatter::write_nil: non-literal emission", "replayed": None})
            continue
        cond = z3.Or(*[z3.And(c, text_equals(out, w)) for c, w in spec_nil(info, t.state)])
        res.must_be_unsat(list(t.state.pc) + extra + [z3.Not(cond)], "CustomizedFormatter::write_nil: wrong spelling for the nil syntax option", print_replay(res))

    def spec_bool(i, st):
        o = i["ov"]
        sym = o["bool_syntax"] == BS.index("Symbol")
        return [(z3.And(sym, i["v"]), b"t"), (z3.And(sym, z3.Not(i["v"])), b"nil"),
                (z3.And(z3.Not(sym), i["v"]), b"#t"), (z3.And(z3.Not(sym), z3.Not(i["v"])), b"#f")]
    run("<CustomizedFormatter as Formatter>::write_bool", boolarg, spec_bool, "CustomizedFormatter::write_bool")

    def spec_begin_vec(i, st):
        o = i["ov"]
        br = o["vector_syntax"] == VS.index("Brackets")
        gen = i["kind"] == VT.index("Generic")
        return [(br, b"["), (z3.And(z3.Not(br), gen), b"#("),
                (z3.And(z3.Not(br), z3.Not(gen), o["bytes_syntax"] == YS.index("R6RS")), b"#vu8("),
                (z3.And(z3.Not(br), z3.Not(gen), o["bytes_syntax"] == YS.index("R7RS")), b"#u8(")]

    def kindarg2(e, st):
        vals, cons, inf = kindarg(e, st)
        return vals, cons, inf
    eng, fn, info, terms = explore_print(cx, res, "<CustomizedFormatter as Formatter>::begin_vector", kindarg2)
    total += check_discipline(res, eng, terms, "CustomizedFormatter::begin_vector")
    for t in terms:
        pc = list(t.state.pc)
        o = info["ov"]
        if t.kind == "PANIC":
            # documented: Octothorpe vectors with Elisp byte syntax is an invalid combination
            bad = z3.And(o["vector_syntax"] == VS.index("Octothorpe"), info["kind"] == VT.index("Byte"), o["bytes_syntax"] == YS.index("Elisp"))
            res.must_be_unsat(pc + [z3.Not(bad)], "CustomizedFormatter::begin_vector panics outside the documented invalid combination", print_replay(res))
        elif t.kind == "RETURN" and K.classify_return(eng, t)[0] in ("ok", "sym"):
            kind, payload = K.classify_return(eng, t)
            extra = [payload.discr == 0] if kind == "sym" else []
            out = lit_events(t.state)
            cond = z3.Or(*[z3.And(c, text_equals(out, w)) for c, w in spec_begin_vec(info, t.state)]) if out is not None else z3.BoolVal(False)
            res.must_be_unsat(pc + extra + [z3.Not(cond)], "CustomizedFormatter::begin_vector: wrong opener for the vector / bytes syntax options", print_replay(res))
    run("<CustomizedFormatter as Formatter>::end_vector", noargs,
        lambda i, st: [(i["ov"]["vector_syntax"] == VS.index("Brackets"), b"]"), (i["ov"]["vector_syntax"] == VS.index("Octothorpe"), b")")],
        "CustomizedFormatter::end_vector")
    res.vacuity.append(("emissions examined", total > 20))


def claim_escapes(cx, res, kf):
    """write_r6rs_char_escape / write_elisp_char_escape / CharEscape::from_escape_table / the ESCAPE table."""
    CE = cx.enums["CharEscape"]
    HEXD = b"0123456789ABCDEF"
    mn = {"Quote": b'\\"', "ReverseSolidus": b"\\\\", "Alert": b"\\a", "Backspace": b"\\b", "LineFeed": b"\\n",
          "CarriageReturn": b"\\r", "Tab": b"\\t"}
    for fname, ctl, fix in (("write_r6rs_char_escape", "r6rs", None), ("write_elisp_char_escape", "elisp", None),
                            ("print::Formatter::write_char_escape", "r6rs", None),
                            ("<CustomizedFormatter as Formatter>::write_char_escape", "r6rs", {"string_syntax": "R6RS"}),
                            ("<CustomizedFormatter as Formatter>::write_char_escape", "elisp", {"string_syntax": "Elisp"})):
        def mk(e, st):
            d = z3.BitVec("esc", 64)
            b = e.sym_int("u8", "ctlbyte")
            ev = EnumV("CharEscape", d, {CE.index("AsciiControl"): [b]})
            return [ev], [z3.ULT(d, z3.BitVecVal(len(CE), 64))], {"esc": d, "b": b.e}
        eng, fn, info, terms = explore_print(cx, res, fname, mk, inline_formatter=("Formatter" in fname), opt_fix=fix)
        if fix:
            fname = "%s [%s]" % (fname, ", ".join("%s=%s" % kv for kv in fix.items()))
        check_discipline(res, eng, terms, fname)
        seen = 0
        for t in terms:
            pc = list(t.state.pc)
            if t.kind == "PANIC":
                res.must_be_unsat(pc, "%s: reachable panic `%s` (index out of the hex digit table)" % (fname, t.info.get("msg")), print_replay(res))
                continue
            if t.kind != "RETURN" or K.classify_return(eng, t)[0] not in ("ok", "sym"):
                continue
            kind, payload = K.classify_return(eng, t)
            if kind == "sym":
                pc = pc + [payload.discr == 0]
            out = lit_events(t.state)
            if out is None:
                res.violations.append({"what": "%s: non-literal emission %r" % (fname, emissions(t.state)), "replayed": None})
                continue
            seen += 1
            cases = [(info["esc"] == CE.index(k), v) for k, v in mn.items()]
            cond = z3.Or(*[z3.And(c, text_equals(out, w)) for c, w in cases])
            # control bytes
            b = info["b"]
            hi, lo = z3.LShR(b, 4), b & 15
            hexd = lambda n: z3.If(z3.ULT(n, bv(10)), n + bv(48), n + bv(55))  # noqa  upper-case hex digit
            if ctl == "r6rs":
                want = [bv(ord("\\")), bv(ord("x")), hexd(hi), hexd(lo), bv(ord(";"))]
            else:
                want = [bv(ord("\\")), bv(ord("u")), bv(48), bv(48), hexd(hi), hexd(lo)]
            ctl_ok = z3.And(info["esc"] == CE.index("AsciiControl"), len(out) == len(want) and z3.And(*[o == w for o, w in zip(out, want)]))
            res.must_be_unsat(pc + [z3.Not(z3.Or(cond, ctl_ok))], "%s: escape text differs from the documented escape" % fname, print_replay(res))
        res.vacuity.append(("%s paths" % fname, seen >= 8))
    # ---- ESCAPE table and from_escape_table: every byte gets the documented class
    raw = cx.statics.get("ESCAPE", {}).get("bytes")
    if raw is None or len(raw) != 256:
        res.error = "ESCAPE table not found in the MIR dump"
        return
    want_cls = {7: "Alert", 8: "Backspace", 9: "Tab", 10: "LineFeed", 13: "CarriageReturn", 0x22: "Quote", 0x5C: "ReverseSolidus"}

    def mk2(e, st):
        esc, byte = e.sym_int("u8", "escape"), e.sym_int("u8", "byte")
        return [esc, byte], [], {"escape": esc.e, "byte": byte.e}
    eng, fn, info, terms = explore_print(cx, res, "CharEscape::from_escape_table", mk2)
    byte = info["byte"]
    # the compiled table as a run-length If-chain over the byte (a 256-store array makes some of these queries time out)
    tbl_at_byte = S.table_u8_select(eng, "ESCAPE", z3.ZeroExt(56, byte))
    link = info["escape"] == tbl_at_byte      # how format_escaped_str_contents calls it
    for t in terms:
        pc = list(t.state.pc)
        if t.kind == "PANIC":
            res.must_be_unsat(pc + [link, tbl_at_byte != bv(0)], "from_escape_table: unreachable!() reachable for a table entry", print_replay(res))
            continue
        if t.kind == "RETURN" and isinstance(t.value, EnumV):
            d = K.concrete(t.value.discr)
            got = CE[d]
            for bval, cls in want_cls.items():
                res.must_be_unsat(pc + [link, byte == bv(bval), z3.BoolVal(got != cls)], "byte 0x%02x is escaped as %s, documented %s" % (bval, got, cls), print_replay(res))
            isctl = z3.And(z3.Or(z3.ULT(byte, bv(0x20)), byte == bv(0x7F)), *[byte != bv(k) for k in want_cls])
            if got == "AsciiControl":
                payload = t.value.variants[d][0].e
                res.must_be_unsat(pc + [link, z3.Not(z3.And(isctl, payload == byte))], "AsciiControl escape for a byte that is not an unnamed control character", print_replay(res))
            else:
                res.must_be_unsat(pc + [link, isctl], "unnamed control byte gets a mnemonic escape", print_replay(res))
    # bytes that must NOT be escaped / must be escaped
    bad = [i for i in range(256) if (raw[i] != 0) != (i < 0x20 or i in (0x22, 0x5C, 0x7F))]
    if bad:
        res.violations.append({"what": "ESCAPE table marks the wrong bytes for escaping: %r" % bad[:8], "replayed": None})
    res.notes.append("ESCAPE: 256 compiled entries compared with the documented escape set {00-1F, 22, 5C, 7F}")


def claim_chars(cx, res, kf):
    """write_scheme_char / write_elisp_char: printable ASCII literally (with the Emacs escape set), everything else as lower-case hex."""
    ELISP_ESC = b"()[]\\;|'`#.,"
    # the two character writers, and the formatter methods that choose between them: the trait default always uses the
    # Scheme spelling, the customised formatter follows its char_syntax option (and nothing else)
    for fname, lead, esc, fix in (("write_scheme_char", b"#\\", None, None), ("write_elisp_char", b"?", ELISP_ESC, None),
                                  ("print::Formatter::write_char", b"#\\", None, None),
                                  ("<CustomizedFormatter as Formatter>::write_char", b"#\\", None, {"char_syntax": "R6RS"}),
                                  ("<CustomizedFormatter as Formatter>::write_char", b"?", ELISP_ESC, {"char_syntax": "Elisp"})):
        def mk(e, st):
            c = e.sym_int("char", "c")
            valid = z3.And(z3.ULE(c.e, z3.BitVecVal(0x10FFFF, 32)), z3.Not(z3.And(z3.UGE(c.e, z3.BitVecVal(0xD800, 32)), z3.ULE(c.e, z3.BitVecVal(0xDFFF, 32)))))
            return [c], [valid], {"c": c.e}
        eng, fn, info, terms = explore_print(cx, res, fname, mk, inline_formatter=("Formatter" in fname), opt_fix=fix)
        if fix:
            fname = "%s [%s]" % (fname, ", ".join("%s=%s" % kv for kv in fix.items()))
        check_discipline(res, eng, terms, fname)
        c = info["c"]
        printable = z3.And(z3.UGE(c, z3.BitVecVal(32, 32)), z3.ULT(c, z3.BitVecVal(127, 32)))
        c8 = z3.Extract(7, 0, c)
        seen = {"lit": 0, "hex": 0}
        for t in terms:
            pc = list(t.state.pc)
            if t.kind == "PANIC":
                res.must_be_unsat(pc, "%s: reachable panic" % fname, print_replay(res))
                continue
            if t.kind != "RETURN" or K.classify_return(eng, t)[0] not in ("ok", "sym"):
                continue
            kind, payload = K.classify_return(eng, t)
            if kind == "sym":
                pc = pc + [payload.discr == 0]
            ems = emissions(t.state)
            if len(ems) == 1 and ems[0][0] == "emit":
                seen["lit"] += 1
                out = lit_events(t.state)
                if esc is None:
                    want = [bv(b) for b in lead] + [c8]
                    ok = z3.And(printable, len(out) == len(want) and z3.And(*[o == w for o, w in zip(out, want)]))
                else:
                    needs = z3.Or(*[c8 == bv(b) for b in esc])
                    w1 = [bv(ord("?")), bv(ord("\\")), c8]
                    w2 = [bv(ord("?")), c8]
                    ok = z3.And(printable, z3.Or(z3.And(needs, len(out) == 3 and z3.And(*[o == w for o, w in zip(out, w1)])),
                                                 z3.And(z3.Not(needs), len(out) == 2 and z3.And(*[o == w for o, w in zip(out, w2)]))))
                res.must_be_unsat(pc + [z3.Not(ok)], "%s: literal spelling wrong / used for a non-printable character" % fname, print_replay(res))
            elif len(ems) == 1 and ems[0][0] == "emit_fmt":
                seen["hex"] += 1
                a = ems[0][1] or {}
                tmpl = a.get("template") or b""
                args = a.get("args", [])
                want_prefix = lead + b"x" if esc is None else b"?\\x"
                shape = (want_prefix in tmpl) and len(args) == 1 and isinstance(args[0], Opaque) and args[0].attrs.get("kind") == "lower_hex"
                if not shape:
                    res.violations.append({"what": "%s: hex spelling is not `%sx{:x}`: template %r" % (fname, lead.decode(), tmpl), "replayed": None})
                    continue
                v = args[0].attrs["val"]
                res.must_be_unsat(pc + [z3.Not(z3.And(z3.Not(printable), v.e == c))], "%s: hex spelling used for a printable character or with another value" % fname, print_replay(res))
            else:
                res.violations.append({"what": "%s: unexpected emissions %r" % (fname, ems), "replayed": None})
        for k, n in seen.items():
            res.vacuity.append(("%s reaches %s" % (fname, k), n > 0))


def claim_print_structure(cx, res, kf):
    """Printer::print on a cons chain (loop cut): begin_list, then per cell: separator iff not first, car, and a dotted
    tail ` . cdr` exactly when the cdr is neither the empty list nor another cell; end_list after the last cell."""
    import re as _re
    VAL = cx.enums["Value"]

    def mk_stubs(engine):
        def h_cons_iter(engine, st, fr, callee, argv, m):
            return Opaque("ConsIter", "iter", {})

        def h_passthrough(engine, st, fr, callee, argv, m):
            return argv[0]

        def h_enum_next(engine, st, fr, callee, argv, m):
            n = st.notes.get("ncell", 0)
            st.notes["ncell"] = n + 1
            more = z3.Bool("cell_%d_more" % n)
            idx = z3.BitVec("cell_%d_index" % n, 64)
            kind = z3.BitVec("cell_%d_cdrkind" % n, 64)
            engine.solver.add(z3.ULT(kind, z3.BitVecVal(len(VAL), 64)))
            st.pc.append(z3.ULT(kind, z3.BitVecVal(len(VAL), 64)))
            cell = Opaque("ConsCell", "cell%d" % n, {"cdrkind": kind})
            st.events.append(("next_cell", more, idx, kind))
            return S.mk_option(more, Agg("tuple", None, [Int(idx, "usize"), Ref(("V", cell))]))

        def h_car(engine, st, fr, callee, argv, m):
            c = argv[0]
            while isinstance(c, Ref):
                c = engine.load(st, c.addr)
            return Ref(("V", Opaque("Value", "car:" + c.label, {})))

        def h_cdr(engine, st, fr, callee, argv, m):
            c = argv[0]
            while isinstance(c, Ref):
                c = engine.load(st, c.addr)
            return Ref(("V", EnumV("Value", c.attrs["cdrkind"], {i: [Blob("payload")] for i in range(len(VAL))})))
        return [
            (_re.compile(r"^Cons::iter$"), h_cons_iter),
            (_re.compile(r"^<cons::Iter<'_> as Iterator>::enumerate$"), h_passthrough),
            (_re.compile(r"^<Enumerate<cons::Iter<'_>> as IntoIterator>::into_iter$"), h_passthrough),
            (_re.compile(r"^<Enumerate<cons::Iter<'_>> as Iterator>::next$"), h_enum_next),
            (_re.compile(r"^Cons::car$"), h_car),
            (_re.compile(r"^Cons::cdr$"), h_cdr),
        ]
    eng = C.make_engine(cx, [], loop_mode="cut", timeout_s=120, max_paths=20000)
    eng.stubs = mk_stubs(eng) + print_stubs(cx, eng) + S.COMBINATOR_STUBS + S.CORE_STUBS
    fn = C.resolve_callee(cx, "Printer::<W, F>::print")
    info = {}

    def init(e, st, fr):
        st.heap["printer"] = Agg("struct", "Printer", [Opaque("W", "writer"), Opaque("F", "formatter")])
        fr.locals[1] = Ref(("H", "printer"))
        v = EnumV("Value", VAL.index("Cons"), {VAL.index("Cons"): [Opaque("Cons", "list", {})]})
        fr.locals[2] = Ref(("V", v))
        st.notes["in"] = ()
        return []

    def havoc(e, st, fr, bb):
        st.notes["in"] = st.notes["in"] + ((bb, {}),)
        st.notes["events_at_header"] = len(st.events)
        return []
    eng.havoc_hook = havoc
    terms = eng.explore(fn.name, init)
    res.absorb(eng)
    check_discipline(res, eng, terms, "Printer::print (list)")
    steps = ends = 0
    prelude_reported = []
    NULL, CONS = VAL.index("Null"), VAL.index("Cons")
    for t in terms:
        st = t.state
        pc = list(st.pc)
        if t.kind == "PANIC" or not st.notes["in"]:
            continue
        evs = st.events[st.notes.get("events_at_header", 0):]
        # base case: before the first cell exactly the list opener has been emitted
        prelude = [e[1] for e in st.events[:st.notes.get("events_at_header", 0)] if e[0] in ("fcall", "emit", "emit_fmt", "bare_write")]
        if prelude != ["begin_list"] and not prelude_reported:
            prelude_reported.append(1)
            v = {"what": "before the first list element the printer emits %r instead of just the list opener" % (prelude,), "replayed": None}
            v.update(print_replay(res)(None) or {})
            res.violations.append(v)
        nc = [e for e in evs if e[0] == "next_cell"]
        calls = [(e[1], e[2]) for e in evs if e[0] == "fcall"]
        names = [c[0] for c in calls]
        allok = [z3.Not(e[-1]) for e in evs if e[0] == "fcall"]
        if not nc:
            continue
        more, idx, kind = nc[0][1], nc[0][2], nc[0][3]
        if t.kind == "LOOP_BACK":
            steps += 1
            plain = names == ["begin_seq_element", "print", "end_seq_element"]
            dotted = names == ["begin_seq_element", "print", "end_seq_element", "begin_seq_element", "write_dot", "end_seq_element",
                               "begin_seq_element", "print", "end_seq_element"]
            if not (plain or dotted):
                res.violations.append({"what": "list cell printed with an unexpected call sequence %r" % (names,), "replayed": None})
                continue
            first = calls[0][1][0]
            res.must_be_unsat(pc + [z3.Not(z3.And(more, first.e == (idx == 0)))], "separator before a list element does not depend on `index == 0`", print_replay(res))
            proper_cdr = z3.Or(kind == NULL, kind == CONS)
            res.must_be_unsat(pc + [z3.Not(proper_cdr == z3.BoolVal(plain))],
                              "the ` . tail` form is emitted for a proper-list cdr or omitted for an improper tail", print_replay(res))
            if dotted:
                seps = [c[1][0] for c in calls if c[0] == "begin_seq_element"][1:]
                res.must_be_unsat(pc + [z3.Or(*[s.e for s in seps])], "missing space around the dot of a dotted tail", print_replay(res))
        elif t.kind == "RETURN" and K.classify_return(eng, t)[0] in ("ok", "sym"):
            kind, payload = K.classify_return(eng, t)
            if kind == "sym":
                pc = pc + [payload.discr == 0]
                if res.solve(pc)[0] != z3.sat:
                    continue
            ends += 1
            if names != ["end_list"]:
                res.violations.append({"what": "after the last cell the printer calls %r instead of end_list" % (names,), "replayed": None})
            res.must_be_unsat(pc + [more], "list closed although cells remain", print_replay(res))
    res.vacuity.append(("cell steps", steps >= 2))
    res.vacuity.append(("list end", ends >= 1))


CLAIMS = [
    Claim("c07_leaf_emissions", "C07", "quick", claim_leaf_text,
          "every leaf formatter method of the default and the customised formatter writes only through write_all, stops "
          "at the first failed write and returns that error, returns Ok only if all writes succeeded, and emits exactly "
          "the documented spelling for every argument and all 576 printer option sets",
          "all paths; writer returning an arbitrary error at any write", configs=("fast",), also=("C01", "C02", "C13", "C17")),
    Claim("c07_escape_emissions", "C07", "quick", claim_escapes,
          "string escape writers (R6RS and Emacs), CharEscape::from_escape_table and the compiled ESCAPE table: every byte "
          "is classified and spelled as documented (\\a \\b \\t \\n \\r \\\" \\\\, \\xHH; resp. \\u00HH), written with write_all",
          "all 256 bytes, both string syntaxes", configs=("fast",), also=("C01", "C02", "C13", "C17", "C04")),
    Claim("c07_char_emissions", "C07", "quick", claim_chars,
          "write_scheme_char / write_elisp_char: printable ASCII literally (Emacs: backslash before ()[]\\;|'`#.,), every "
          "other scalar value as lower-case hex through write_fmt",
          "every Unicode scalar value", configs=("fast",), also=("C01", "C02", "C13", "C17", "C04")),
    Claim("c01_print_list_structure", "C01", "quick", claim_print_structure,
          "Printer::print on a list: per cell separator iff not the first, the element, and ` . tail` exactly when the cdr "
          "is neither the empty list nor a pair; end_list after the last cell; errors of any formatter call stop the output",
          "any list length (loop cut), every cdr kind", configs=("fast",), also=("C02", "C07", "C13")),
]


# ----------------------------------------------------------------------------- write discipline over ALL printer functions

def synth_arg(cx, e, st, ty):
    ty = ty.strip()
    if ty in ("bool",):
        return e.sym_bool("a")
    if ty == "char":
        return e.sym_int("char", "c")
    if ty in ("u8", "u64", "i64", "usize", "u32"):
        return e.sym_int(ty, "n")
    if ty == "f64":
        return e.sym_f64("f")
    if ty in ("&str",):
        return Ref(("V", Opaque("name", "name", {})))
    if ty in ("&[u8]",):
        n = next(e.fresh)
        return Ref(("V", Opaque("symslice", "bytes", {"len": z3.BitVec("bl_%d" % n, 64), "arr": z3.Array("ba_%d" % n, z3.BitVecSort(64), z3.BitVecSort(8))})))
    if ty in ("print::CharEscape", "CharEscape"):
        CE = cx.enums["CharEscape"]
        d = z3.BitVec("esc_%d" % next(e.fresh), 64)
        e.solver.add(z3.ULT(d, z3.BitVecVal(len(CE), 64)))
        return EnumV("CharEscape", d, {CE.index("AsciiControl"): [e.sym_int("u8", "ctl")]})
    if ty in ("print::VectorType", "VectorType"):
        ev, c = K.sym_enum(e, "VectorType", "vt")
        e.solver.add(c)
        return ev
    if ty in ("&number::Number", "&Number"):
        N = cx.enums["N"]
        d = z3.BitVec("numk_%d" % next(e.fresh), 64)
        e.solver.add(z3.ULT(d, z3.BitVecVal(len(N), 64)))
        n = EnumV("N", d, {N.index("PosInt"): [e.sym_int("u64", "u")], N.index("NegInt"): [e.sym_int("i64", "i")], N.index("Float"): [e.sym_f64("fl")]})
        return Ref(("V", Agg("struct", "Number", [n])))
    return None


DISCIPLINE_FUNCS = [
    "print::Formatter::write_nil", "print::Formatter::write_null", "print::Formatter::write_bool", "print::Formatter::write_char",
    "print::Formatter::begin_string", "print::Formatter::end_string", "print::Formatter::write_string_fragment",
    "print::Formatter::write_char_escape", "print::Formatter::write_symbol", "print::Formatter::write_keyword",
    "print::Formatter::begin_list", "print::Formatter::end_list", "print::Formatter::begin_seq_element",
    "print::Formatter::end_seq_element", "print::Formatter::begin_vector", "print::Formatter::end_vector", "print::Formatter::write_dot",
    "<CustomizedFormatter as Formatter>::write_nil", "<CustomizedFormatter as Formatter>::write_bool",
    "<CustomizedFormatter as Formatter>::write_keyword", "<CustomizedFormatter as Formatter>::begin_vector",
    "<CustomizedFormatter as Formatter>::end_vector", "<CustomizedFormatter as Formatter>::write_char",
    "<CustomizedFormatter as Formatter>::write_char_escape",
    "write_r6rs_char_escape", "write_elisp_char_escape", "write_scheme_char", "write_elisp_char",
]


def claim_discipline_all(cx, res, kf):
    total = 0
    done = 0
    for fname in DISCIPLINE_FUNCS:
        fn = C.resolve_callee(cx, fname)
        if fn is None:
            res.error = "printer function %s not found (renamed?)" % fname
            return

        def mk(e, st, fn=fn):
            vals = []
            for a in fn.args:
                ty = fn.local_ty.get(a, "").strip()
                if ty in ("&mut Self", "&mut CustomizedFormatter", "&mut F", "&mut DefaultFormatter", "&mut W"):
                    continue
                v = synth_arg(cx, e, st, ty)
                if v is None:
                    raise Unsupported("no argument synthesis for %s in %s" % (ty, fn.name))
                vals.append(v)
            return vals, [], {}
        eng, fn2, info, terms = explore_print(cx, res, fname, mk, inline_formatter=("CustomizedFormatter" in fname or fname.startswith("print::Formatter::write_char")))
        n = check_discipline(res, eng, terms, fname.split("::")[-1] if "<" not in fname else fname)
        total += n
        done += 1
    # the number writer and the byte-vector writers: visitor methods and element closures are separate MIR functions
    for name, f in cx.fns.items():
        if ("write_number" in name and "::visit_" in name) or ("print::" in name and "write_bytes::{closure" in name):
            def mk2(e, st, f=f):
                vals = []
                for a in f.args:
                    ty = f.local_ty.get(a, "").strip()
                    if ty.startswith("print::Formatter::write_number::Write"):
                        vals.append(Agg("struct", "Write", [Ref(("H", "writer"))]))
                    elif ty.startswith("&mut {closure") or ty.startswith("&{closure"):
                        vals.append(Blob("closure-env"))
                    elif ty == "&u8":
                        vals.append(Ref(("V", e.sym_int("u8", "octet"))))
                    elif ty == "&mut W":
                        continue
                    else:
                        v = synth_arg(cx, e, st, ty)
                        if v is None:
                            raise Unsupported("no argument synthesis for %s in %s" % (ty, f.name))
                        vals.append(v)
                return vals, [], {}
            eng, fn2, info, terms = explore_print(cx, res, name, mk2)
            n = check_discipline(res, eng, terms, name.split("print::")[-1])
            total += n
            done += 1
    res.notes.append("%d printer functions explored, %d emissions examined" % (done, total))
    res.vacuity.append(("printer functions explored", done >= 30 and total >= 40))


CLAIMS += [
    Claim("c07_write_discipline", "C07", "quick", claim_discipline_all,
          "every formatter method, escape / character writer, the three number visitors and the byte-vector element "
          "closures: all output goes through write_all / write_fmt (never a bare write whose count is ignored), output "
          "stops at the first failed write, and Ok is returned only if every write succeeded",
          "all paths of 30+ printer functions, arbitrary arguments and options, writer failing at an arbitrary write",
          configs=("fast",), also=("C17",)),
]


# ----------------------------------------------------------------------------- entry points (C07: errors surface)

def claim_entry_points(cx, res, kf):
    """to_writer / to_writer_custom hand the caller's sink itself to the printer (no layer in between that could hold back
    bytes or swallow a failure), print exactly once, and return Err exactly when printing failed; the to_vec family prints
    into its own vector through the same functions and returns that vector."""
    from . import confirm as CF
    onm = CF.confirm(("printcheck",), res)

    def explore(fname, nargs):
        fn = cx.fns.get(fname) or cx.fns.get("print::" + fname)
        if fn is None:
            raise Unsupported("entry point %s not found" % fname)
        eng = C.make_engine(cx, [], loop_mode="cut", timeout_s=60, max_paths=2000)
        n = [0]

        def seq(k):
            n[0] += 1
            return "%s_%d" % (k, n[0])

        def h_ctor(engine, st, fr, callee, argv, m):
            st.events.append(("ctor", m.group(1), argv[0]))
            return Opaque("Printer", "printer", {"writer": argv[0]})

        def h_print(engine, st, fr, callee, argv, m):
            p = argv[0]
            while isinstance(p, Ref):
                p = engine.load(st, p.addr)
            err = z3.Bool(seq("print_err"))
            st.events.append(("print", p, err))
            return S.mk_result(engine, err, UnitV(), Opaque("io::Error", "print", {}))

        def h_entry(engine, st, fr, callee, argv, m):
            err = z3.Bool(seq("entry_err"))
            st.events.append(("entry", m.group(1), argv[0], err))
            return S.mk_result(engine, err, UnitV(), Opaque("io::Error", "entry", {}))

        def h_vec(engine, st, fr, callee, argv, m):
            return Opaque("Vec<u8>", "own vector", {})

        def h_unchecked(engine, st, fr, callee, argv, m):
            st.events.append(("string_of", argv[0]))
            return Opaque("String", "string", {"of": argv[0]})

        def h_other(engine, st, fr, callee, argv, m):
            st.events.append(("other", callee.split("::<")[0]))
            return Blob("other:" + callee.split("::<")[0])
        eng.stubs = [
            (re.compile(r"^Printer::<.*>::(new|with_options|with_formatter)$"), h_ctor),
            (re.compile(r"^Printer::<.*>::print$"), h_print),
            (re.compile(r"^(to_writer|to_writer_custom|to_vec|to_vec_custom)::<?"), h_entry),
            (re.compile(r"^(to_vec|to_vec_custom)$"), h_entry),
            (re.compile(r"^Vec::<u8>::with_capacity$"), h_vec),
            (re.compile(r"^String::from_utf8_unchecked$"), h_unchecked),
        ] + S.COMBINATOR_STUBS + S.CORE_STUBS + [(re.compile(r"^(?!<.* as (Try|FromResidual)).*$"), h_other)]
        info = {}

        def init(e, st, fr):
            for i, a in enumerate(fn.args):
                ty = fn.local_ty.get(a, "").strip()
                fr.locals[a] = Opaque(ty, "writer" if ty == "W" else "arg%d" % i, {})
            info["args"] = [fr.locals[a] for a in fn.args]
            return []
        terms = eng.explore(fn.name, init)
        res.absorb(eng)
        return eng, fn, info, terms

    def unref(eng, st, v):
        while isinstance(v, Ref):
            v = eng.load(st, v.addr)
        return v
    n_ok = 0
    for fname in ("to_writer", "to_writer_custom"):
        eng, fn, info, terms = explore(fname, 0)
        def is_w(x):
            return isinstance(x, Opaque) and x.label == "writer"
        for t in terms:
            st = t.state
            pc = list(st.pc)
            if t.kind == "PANIC":
                res.must_be_unsat(pc, "%s: reachable panic" % fname, onm)
                continue
            if t.kind != "RETURN":
                continue
            ev = st.events
            others = [e for e in ev if e[0] == "other"]
            ctors = [e for e in ev if e[0] == "ctor"]
            prints = [e for e in ev if e[0] == "print"]
            if others or len(ctors) != 1 or not is_w(ctors[0][2]):
                res.must_be_unsat(pc, "%s does not hand the caller's sink itself to the printer (%s): bytes can be held back and a "
                                  "failing or full sink can go unreported" % (fname, ", ".join(e[1] for e in others) or "other constructor argument"), onm)
                continue
            if len(prints) != 1 or not (isinstance(prints[0][1], Opaque) and is_w(prints[0][1].attrs.get("writer"))):
                res.must_be_unsat(pc, "%s does not print the value exactly once into the caller's sink" % fname, onm)
                continue
            kind, payload = K.classify_return(eng, t)
            perr = prints[0][2]
            if kind == "ok":
                n_ok += 1
                res.must_be_unsat(pc + [perr], "%s reports success although printing failed" % fname, onm)
            elif kind == "err":
                res.must_be_unsat(pc + [z3.Not(perr)], "%s reports an error although printing succeeded" % fname, onm)
    for fname, inner in (("to_vec", "to_writer"), ("to_vec_custom", "to_writer_custom"), ("to_string", "to_vec"), ("to_string_custom", "to_vec_custom")):
        eng, fn, info, terms = explore(fname, 0)
        for t in terms:
            st = t.state
            pc = list(st.pc)
            if t.kind == "PANIC":
                res.must_be_unsat(pc, "%s: reachable panic" % fname, onm)
                continue
            if t.kind != "RETURN":
                continue
            ent = [e for e in st.events if e[0] == "entry"]
            others = [e for e in st.events if e[0] == "other"]
            if others or len(ent) != 1 or ent[0][1] != inner:
                res.must_be_unsat(pc, "%s is not `%s` into a fresh vector (%r)" % (fname, inner, [e[1] for e in others + ent]), onm)
                continue
            kind, payload = K.classify_return(eng, t)
            if kind == "ok":
                n_ok += 1
                res.must_be_unsat(pc + [ent[0][3]], "%s reports success although printing failed" % fname, onm)
            elif kind == "err":
                res.must_be_unsat(pc + [z3.Not(ent[0][3])], "%s reports an error although printing succeeded" % fname, onm)
    res.vacuity.append(("entry points return Ok on some path", n_ok >= 6))


CLAIMS += [
    Claim("c07_entry_points", "C07", "quick", claim_entry_points,
          "to_writer / to_writer_custom construct the printer directly on the caller's sink (nothing in between that buffers), "
          "print once and return Err exactly when printing failed; to_vec* / to_string* are those functions on a fresh vector",
          "all paths of the 6 entry points; printing fails or succeeds arbitrarily", configs=("fast",), also=("C17",)),
]


# ----------------------------------------------------------------------------- string contents: fragments and escapes

def claim_string_fragments(cx, res, kf):
    """format_escaped_str_contents: by induction over the bytes of the string, the emitted sequence is the string with every
    byte of the escape set replaced by its escape and everything else copied in order, nothing lost or duplicated.
    State at the loop header: `start`, position k of the byte iterator.  Invariant: start <= k <= len and no byte in
    [start, k) is in the escape set (those bytes are pending, not yet written)."""
    from . import confirm as CF
    onm = CF.confirm(("print", "printcheck"), res)
    fn = cx.fns.get("format_escaped_str_contents") or cx.fns.get("print::format_escaped_str_contents")
    if fn is None:
        res.error = "format_escaped_str_contents not found"
        return
    raw = cx.statics.get("ESCAPE", {}).get("bytes")
    if raw is None or len(raw) != 256:
        res.error = "ESCAPE table not found"
        return
    eng = C.make_engine(cx, [], loop_mode="cut", timeout_s=120, max_paths=5000)

    class _Tbl:
        pass
    tbl = _Tbl()
    arr = z3.Array("strbytes", z3.BitVecSort(64), z3.BitVecSort(8))
    ln = z3.BitVec("strlen", 64)
    B64 = lambda v: z3.BitVecVal(v, 64)  # noqa

    def unref(st, v):
        while isinstance(v, Ref):
            v = eng.load(st, v.addr)
        return v

    def h_ident(engine, st, fr, callee, argv, m):
        return argv[0]

    def h_iter(engine, st, fr, callee, argv, m):
        return Opaque("ByteIter", "iter", {})

    def h_next(engine, st, fr, callee, argv, m):
        k = st.notes["k"]
        more = z3.ULT(k, ln)
        st.events.append(("next", k))
        st.notes["k"] = z3.If(more, k + 1, k)
        item = Agg("tuple", None, [Int(k, "usize"), Ref(("V", Int(z3.Select(arr, k), "u8")))])
        return S.mk_option(more, item)

    def h_index(engine, st, fr, callee, argv, m):
        r = unref(st, argv[1])
        lo = r.fields[0].e
        hi = r.fields[1].e if m.group(1) == "Range" else ln
        ok = z3.And(z3.ULE(lo, hi), z3.ULE(hi, ln))
        frag = Ref(("V", Opaque("fragment", "frag", {"lo": lo, "hi": hi})))
        return ("fork", [(ok, frag, None), (z3.Not(ok), ("panic", "str index out of range"), None)])
    stubs = [
        (re.compile(r"^core::str::<impl str>::as_bytes$"), h_ident),
        (re.compile(r"^core::slice::<impl \[u8\]>::iter$"), h_iter),
        (re.compile(r"^<std::slice::Iter<'_, u8> as Iterator>::enumerate$"), h_ident),
        (re.compile(r"^<Enumerate<std::slice::Iter<'_, u8>> as IntoIterator>::into_iter$"), h_ident),
        (re.compile(r"^<Enumerate<std::slice::Iter<'_, u8>> as Iterator>::next$"), h_next),
        (re.compile(r"^<str as std::ops::Index<std::ops::(Range|RangeFrom)<usize>>>::index$"), h_index),
    ]
    eng.stubs = stubs + print_stubs(cx, eng) + S.COMBINATOR_STUBS + S.CORE_STUBS
    start_l = fn.local_by_debug("start")
    info = {}
    jw = z3.BitVec("pending_position", 64)

    def esc_of(b):
        return S.table_u8_select(eng, "ESCAPE", z3.ZeroExt(56, b))

    def inv(s_, k):
        return z3.And(z3.ULE(s_, k), z3.ULE(k, ln), z3.Implies(z3.And(z3.ULE(s_, jw), z3.ULT(jw, k)), esc_of(z3.Select(arr, jw)) == 0))

    def init(e, st, fr):
        st.heap["fmt"] = Opaque("F", "formatter")
        st.heap["writer"] = Opaque("W", "writer")
        fr.locals[fn.args[0]] = Ref(("H", "writer"))
        fr.locals[fn.args[1]] = Ref(("H", "fmt"))
        fr.locals[fn.args[2]] = Ref(("V", Opaque("inputslice", "value", {"arr": arr, "len": ln})))
        st.notes["k"] = B64(0)
        st.notes["in"] = ()
        return [z3.ULT(ln, B64(1 << 40))]

    def on_header(e, st, fr, bb, what):
        st.notes["k_arrive"] = st.notes["k"]
        st.notes["k"] = z3.BitVec("k_h%d" % len(st.notes["in"]), 64)

    def havoc(e, st, fr, bb):
        k, s_ = st.notes["k"], fr.locals[start_l].e
        st.notes["in"] = st.notes["in"] + ((bb, {"k": k, "start": s_, "nev": len(st.events)}),)
        # invariant (obligation at the base and at every back edge); the universally quantified part is used and proved
        # for one arbitrary, fixed position jw (skolem constant): a pending position after the step is either pending
        # before it or the current byte
        return [inv(s_, k)]
    eng.on_header, eng.havoc_hook = on_header, havoc
    terms = eng.explore(fn.name, init)
    res.absorb(eng)

    base_done = set()
    seen = {"skip": 0, "escape": 0, "end": 0}
    for t in terms:
        st = t.state
        pc = list(st.pc)
        if t.kind == "PANIC":
            res.must_be_unsat(pc, "string printing: reachable panic `%s` (fragment range out of bounds / table index)" % t.info.get("msg"), onm)
            continue
        if not st.notes["in"]:
            continue
        K.base_case(res, st, 0, base_done, lambda a: z3.And(a["locals"][start_l].e == 0, st.notes["k_arrive"] == 0)
                    if start_l in a["locals"] else None, "string printing does not start at the first byte with nothing pending", onm)
        hb, rec = st.notes["in"][-1]
        k, s_ = rec["k"], rec["start"]
        byte = z3.Select(arr, k)
        esc = esc_of(byte)
        evs = st.events[rec["nev"]:]
        calls = [e for e in evs if e[0] == "fcall"]
        names = [c[1] for c in calls]

        def frag_of(c):
            v = unref(st, c[2][0])
            return (v.attrs["lo"], v.attrs["hi"]) if isinstance(v, Opaque) and v.ty == "fragment" else None
        if t.kind == "LOOP_BACK":
            fr = st.frames[-1]
            s2, k2 = fr.locals[start_l].e, st.notes["k"]
            res.must_be_unsat(pc + [z3.Not(inv(s2, k2))], "string printing: a byte of the escape set can end up inside a copied fragment, or "
                              "the pending range runs ahead of the iterator (invariant broken)", onm)
            res.must_be_unsat(pc + [z3.Not(z3.And(z3.ULT(k, ln), k2 == k + 1))], "string printing: the loop continues past the last byte / skips bytes", onm)
            allok = [z3.Not(c[3]) for c in calls]
            if not calls:
                seen["skip"] += 1
                res.must_be_unsat(pc + [z3.Not(z3.And(esc == 0, s2 == s_))], "string printing: a byte of the escape set is passed over without an escape", onm)
                continue
            seen["escape"] += 1
            ok_shape = names in (["write_string_fragment", "write_char_escape"], ["write_char_escape"])
            if not ok_shape:
                res.must_be_unsat(pc, "string printing: unexpected emissions %r for one byte" % (names,), onm)
                continue
            res.must_be_unsat(pc + allok + [z3.Not(z3.And(esc != 0, s2 == k + 1))], "string printing: escape emitted for a plain byte / next fragment does not start after the escaped byte", onm)
            if len(calls) == 2:
                f = frag_of(calls[0])
                if f is None:
                    res.must_be_unsat(pc, "string printing: fragment argument is not a range of the string", onm)
                else:
                    res.must_be_unsat(pc + allok + [z3.Not(z3.And(f[0] == s_, f[1] == k, z3.ULT(s_, k)))], "string printing: the fragment before an escape is not exactly the pending bytes [start, i)", onm)
            else:
                res.must_be_unsat(pc + allok + [s_ != k], "string printing: pending bytes before an escape are dropped", onm)
            ce = calls[-1][2][0]
            ce = unref(st, ce)
            if isinstance(ce, EnumV):
                CE = cx.enums["CharEscape"]
                # the escape class handed to the formatter is the one of THIS byte (from_escape_table(ESCAPE[byte], byte))
                actl = CE.index("AsciiControl")
                pay = ce.variants.get(actl, [None])[0]
                if pay is not None and isinstance(pay, Int):
                    res.must_be_unsat(pc + allok + [ce.discr == actl, pay.e != byte], "string printing: control escape carries another byte than the one being escaped", onm)
        elif t.kind == "RETURN":
            kind, payload = K.classify_return(eng, t)
            if kind != "ok":
                continue
            seen["end"] += 1
            allok = [z3.Not(c[3]) for c in calls]
            res.must_be_unsat(pc + [z3.ULT(k, ln)], "string printing ends before the last byte", onm)
            if names == ["write_string_fragment"]:
                f = frag_of(calls[0])
                res.must_be_unsat(pc + allok + ([z3.Not(z3.And(f[0] == s_, f[1] == ln, s_ != ln))] if f else []), "string printing: the final fragment is not the pending rest [start, len)", onm)
            elif not names:
                res.must_be_unsat(pc + [s_ != ln], "string printing: pending bytes at the end of the string are dropped", onm)
            else:
                res.must_be_unsat(pc, "string printing: unexpected final emissions %r" % (names,), onm)
    for k_, n in seen.items():
        res.vacuity.append(("string contents loop reaches %s" % k_, n > 0))


CLAIMS += [
    Claim("c01_string_fragments", "C01", "quick", claim_string_fragments,
          "string contents: by induction over the bytes, every byte of the escape set (compiled ESCAPE table) is replaced by the "
          "escape of exactly that byte and every other byte is copied in order in fragments [start, i) / [start, len); nothing "
          "is lost, duplicated or copied although it needs an escape; fragment ranges stay in bounds",
          "strings of any length (loop cut with invariant `no escape-set byte pending`, base case and preservation decided)",
          configs=("fast",), also=("C02", "C07", "C13", "C17", "C04")),
]


# ----------------------------------------------------------------------------- Emacs byte strings: one `\ooo` per octet

def claim_elisp_bytes(cx, res, kf):
    """CustomizedFormatter::write_bytes, Emacs syntax: `"`, then for every octet a backslash and exactly three octal digits
    (value = the octet), then `"`.  Outer loop cut (any length), the 3-digit loop executed."""
    from . import confirm as CF
    onm = CF.confirm(("print", "printcheck"), res)
    fn = None
    for name, f in cx.fns.items():
        if name.endswith("::write_bytes") and "{closure" not in name and "CustomizedFormatter" in f.local_ty.get(f.args[0], ""):
            fn = f
    if fn is None:
        res.error = "CustomizedFormatter::write_bytes not found"
        return
    eng = C.make_engine(cx, [], loop_mode="cut", timeout_s=120, max_paths=5000, unroll=5)
    order = []

    def mode(f, bb):
        if bb not in order:
            order.append(bb)
        return "cut" if order.index(bb) == 0 else "unroll"
    eng.loop_mode = mode

    def unref(st, v):
        while isinstance(v, Ref):
            v = eng.load(st, v.addr)
        return v

    def h_into_iter(engine, st, fr, callee, argv, m):
        if m.group(1) == "u8]":
            return Opaque("Iter", "octets", {})
        arr = unref(st, argv[0])
        return Opaque("Iter", "digits", {"arr": arr, "pos": 0})

    def h_next(engine, st, fr, callee, argv, m):
        it = unref(st, argv[0])
        if it.label == "octets":
            n = st.notes.get("noct", 0) + 1
            st.notes["noct"] = n
            more = z3.Bool("octet_%d_more" % n)
            o = z3.BitVec("octet_%d" % n, 8)
            st.events.append(("octet", more, o))
            return S.mk_option(more, Ref(("V", Int(o, "u8"))))
        arr, pos = it.attrs["arr"], it.attrs["pos"]
        if not isinstance(arr, Agg) or pos >= len(arr.fields):
            return EnumV("Option", 0, {})
        engine.store(st, argv[0].addr, Opaque("Iter", "digits", {"arr": arr, "pos": pos + 1}))
        return EnumV("Option", 1, {1: [Ref(("V", arr.fields[pos]))]})
    stubs = [
        (re.compile(r"^<&\[(u8\]|u8; 3\]) as IntoIterator>::into_iter$"), h_into_iter),
        (re.compile(r"^<std::slice::Iter<'_, u8> as Iterator>::next$"), h_next),
    ]
    eng.stubs = stubs + print_stubs(cx, eng) + S.COMBINATOR_STUBS + S.CORE_STUBS
    YS = cx.enums["BytesSyntax"]

    def init(e, st, fr):
        opts, cons, ov = print_options(cx, e, st)
        st.heap["fmt"] = Agg("struct", "CustomizedFormatter", [opts])
        st.heap["writer"] = Opaque("W", "writer")
        fr.locals[fn.args[0]] = Ref(("H", "fmt"))
        fr.locals[fn.args[1]] = Ref(("H", "writer"))
        fr.locals[fn.args[2]] = Ref(("V", Opaque("bytes", "octets arg", {})))
        st.notes["in"] = ()
        return cons + [ov["bytes_syntax"] == YS.index("Elisp")]

    def havoc(e, st, fr, bb):
        st.notes["in"] = st.notes["in"] + ((bb, {"nev": len(st.events)}),)
        return []
    eng.havoc_hook = havoc
    terms = eng.explore(fn.name, init)
    res.absorb(eng)
    table = None
    for nm, sv in cx.statics.items():
        if isinstance(sv, dict) and sv.get("bytes") == b"012345678":
            table = nm

    def emitted(st, since):
        """list of (z3 byte term list | None, err) for the emissions since event index `since`"""
        out = []
        for e in st.events[since:]:
            if e[0] == "bare_write":
                out.append(("bare", e[2]))
            elif e[0] == "emit":
                d = e[1]
                if d[0] == "lit":
                    out.append(([bv(x) for x in d[1]], e[2]))
                elif d[0] == "static":
                    lo, hi = d[2], d[3]
                    out.append(([("digit", lo, hi)], e[2]))
                else:
                    out.append((None, e[2]))
        return out
    seen = {"octet": 0, "end": 0}
    pre_ok = False
    for t in terms:
        st = t.state
        pc = list(st.pc)
        if t.kind in ("PANIC", "UNROLL_LIMIT"):
            res.must_be_unsat(pc, "Emacs byte string printing: reachable panic / more than three digits per octet (%s)" % t.info.get("msg", t.kind), onm)
            continue
        if not st.notes["in"]:
            continue
        hb, rec = st.notes["in"][0]
        pre = emitted(st, 0)[:1]
        if not (pre and pre[0][0] is not None and pre[0][0] != "bare" and len(pre[0][0]) == 1):
            res.must_be_unsat(pc, "Emacs byte string printing does not start with the opening quote", onm)
            continue
        ems = emitted(st, rec["nev"])
        octs = [e for e in st.events[rec["nev"]:] if e[0] == "octet"]
        if not octs:
            continue
        more, o = octs[0][1], octs[0][2]
        allok = [z3.Not(err) for _, err in ems]
        if t.kind == "LOOP_BACK":
            seen["octet"] += 1
            shape = len(ems) == 4 and all(x[0] is not None and x[0] != "bare" and len(x[0]) == 1 for x in ems)
            if not shape:
                res.must_be_unsat(pc + allok, "Emacs byte string printing: an octet is not written as a backslash and three digits (%d pieces)" % len(ems), onm)
                continue
            bs = ems[0][0][0]
            conds = [more, bs == bv(ord("\\"))]
            for k_, sh in zip((1, 2, 3), (6, 3, 0)):
                d = ems[k_][0][0]
                if not (isinstance(d, tuple) and d[0] == "digit"):
                    conds.append(z3.BoolVal(False))
                    continue
                want = z3.ZeroExt(56, z3.LShR(o, sh) & 7)
                conds.append(z3.And(d[1] == want, d[2] == want))
            res.must_be_unsat(pc + allok + [z3.Not(z3.And(*conds))], "Emacs byte string printing: the three digits are not the octal digits of the octet "
                              "(64s, 8s, 1s place; taken from the digit table at that index)", onm)
        elif t.kind == "RETURN":
            kind, payload = K.classify_return(eng, t)
            if kind in ("ok", "sym"):
                seen["end"] += 1
                extra = [payload.discr == 0] if kind == "sym" else []
                okq = len(ems) == 1 and ems[0][0] is not None and ems[0][0] != "bare" and len(ems[0][0]) == 1
                if not okq:
                    res.must_be_unsat(pc + extra, "Emacs byte string printing does not end with just the closing quote", onm)
                else:
                    res.must_be_unsat(pc + extra + [z3.Not(z3.And(z3.Not(more), ems[0][0][0] == bv(ord('"'))))], "Emacs byte string printing: closing quote wrong / octets remain", onm)
    if table is None or cx.statics[table]["bytes"][:8] != b"01234567":
        res.violations.append({"what": "octal digit table not found / does not start with 01234567", "replayed": None})
    for k_, n in seen.items():
        res.vacuity.append(("Emacs byte string printing reaches %s" % k_, n > 0))


CLAIMS += [
    Claim("c02_elisp_bytes", "C02", "quick", claim_elisp_bytes,
          "byte vectors under the Emacs bytes syntax: opening quote, then for EVERY octet a backslash and exactly its three octal "
          "digits taken from the compiled digit table, then the closing quote (so the text re-reads as a unibyte string of the "
          "same octets whatever their values)",
          "any number of octets (loop cut), every octet value", configs=("fast",), also=("C07", "C13", "C17")),
]


# ----------------------------------------------------------------------------- vectors: opener, separated elements, closer

def claim_vector_structure(cx, res, kf):
    """Printer::write_vector and write_scheme_vector (generic vectors and R6RS / R7RS byte vectors): begin_vector(kind) first,
    then per element: separator iff not the first, the element, end_seq_element; end_vector last; errors end the output."""
    from . import confirm as CF
    onm = CF.confirm(("print", "printcheck"), res)
    total = {"step": 0, "end": 0}
    for fname in ("write_scheme_vector", "Printer::<W, F>::write_vector"):
        fn = cx.fns.get(fname) or C.resolve_callee(cx, fname)
        if fn is None:
            res.error = "%s not found" % fname
            return
        eng = C.make_engine(cx, [], loop_mode="cut", timeout_s=120, max_paths=5000)

        def h_ident(engine, st, fr, callee, argv, m):
            return argv[0] if argv else Opaque("Iter", "iter", {})

        def h_next(engine, st, fr, callee, argv, m):
            n = st.notes.get("nel", 0) + 1
            st.notes["nel"] = n
            more = z3.Bool("elem_%d_more" % n)
            idx = z3.BitVec("elem_%d_index" % n, 64)
            st.events.append(("next_elem", more, idx))
            return S.mk_option(more, Agg("tuple", None, [Int(idx, "usize"), Opaque("Item", "elem%d" % n, {})]))

        def h_output(engine, st, fr, callee, argv, m):
            err = z3.Bool("out_%d_err" % next(engine.fresh))
            st.events.append(("fcall", "output", tuple(argv[1:]), err))
            return S.mk_result(engine, err, UnitV(), Opaque("io::Error", "sink", {}))
        stubs = [
            (re.compile(r"^<I as IntoIterator>::into_iter$"), h_ident),
            (re.compile(r"^<<I as IntoIterator>::IntoIter as Iterator>::enumerate$"), h_ident),
            (re.compile(r"^<Enumerate<<I as IntoIterator>::IntoIter> as IntoIterator>::into_iter$"), h_ident),
            (re.compile(r"^<Enumerate<<I as IntoIterator>::IntoIter> as Iterator>::next$"), h_next),
            (re.compile(r"^<O as FnMut<.*>>::call_mut$"), h_output),
        ]
        eng.stubs = stubs + print_stubs(cx, eng) + S.COMBINATOR_STUBS + S.CORE_STUBS
        VT = cx.enums["VectorType"]
        info = {}

        def init(e, st, fr):
            st.heap["fmt"] = Opaque("F", "formatter")
            st.heap["writer"] = Opaque("W", "writer")
            st.heap["printer"] = Agg("struct", "Printer", [Opaque("W", "writer"), Opaque("F", "formatter")])
            kd = z3.BitVec("vkind", 64)
            info["kind"] = kd
            for a in fn.args:
                ty = fn.local_ty.get(a, "").strip()
                if ty in ("&mut F",):
                    fr.locals[a] = Ref(("H", "fmt"))
                elif ty == "&mut W":
                    fr.locals[a] = Ref(("H", "writer"))
                elif "Printer" in ty:
                    fr.locals[a] = Ref(("H", "printer"))
                elif "VectorType" in ty:
                    fr.locals[a] = EnumV("VectorType", kd, {})
                else:
                    fr.locals[a] = Opaque(ty, "arg", {})
            st.notes["in"] = ()
            return [z3.ULT(kd, bv64(len(VT)))]

        def havoc(e, st, fr, bb):
            st.notes["in"] = st.notes["in"] + ((bb, {"nev": len(st.events)}),)
            return []
        eng.havoc_hook = havoc
        terms = eng.explore(fn.name, init)
        res.absorb(eng)
        check_discipline(res, eng, terms, fname)
        pre_done = False
        for t in terms:
            st = t.state
            pc = list(st.pc)
            if t.kind == "PANIC" or not st.notes["in"]:
                continue
            hb, rec = st.notes["in"][-1]
            pre = [e for e in st.events[:st.notes["in"][0][1]["nev"]] if e[0] == "fcall"]
            if not pre_done:
                pre_done = True
                okpre = len(pre) == 1 and pre[0][1] == "begin_vector"
                if not okpre:
                    res.must_be_unsat(pc, "%s: before the first element %r is emitted instead of just the vector opener" % (fname, [e[1] for e in pre]), onm)
                else:
                    kv = pre[0][2][0]
                    if isinstance(kv, EnumV):
                        res.must_be_unsat(pc + [kv.discr != info["kind"]], "%s: the opener is asked for another vector kind than the one being printed" % fname, onm)
            evs = st.events[rec["nev"]:]
            nx = [e for e in evs if e[0] == "next_elem"]
            calls = [e for e in evs if e[0] == "fcall"]
            names = [c[1] for c in calls]
            if not nx:
                continue
            more, idx = nx[0][1], nx[0][2]
            if t.kind == "LOOP_BACK":
                total["step"] += 1
                if names != ["begin_seq_element", "output", "end_seq_element"]:
                    res.must_be_unsat(pc, "%s: an element is printed with the call sequence %r" % (fname, names), onm)
                    continue
                first = calls[0][2][0]
                res.must_be_unsat(pc + [z3.Not(z3.And(more, first.e == (idx == 0)))], "%s: the separator before an element does not depend on `index == 0`" % fname, onm)
            elif t.kind == "RETURN" and K.classify_return(eng, t)[0] in ("ok", "sym"):
                kind, payload = K.classify_return(eng, t)
                extra = [payload.discr == 0] if kind == "sym" else []
                if extra and res.solve(pc + extra)[0] != z3.sat:
                    continue
                total["end"] += 1
                if names != ["end_vector"]:
                    res.must_be_unsat(pc + extra, "%s: after the last element %r is called instead of end_vector" % (fname, names), onm)
                res.must_be_unsat(pc + extra + [more], "%s: vector closed although elements remain" % fname, onm)
    res.vacuity.append(("vector element steps", total["step"] >= 2))
    res.vacuity.append(("vector ends", total["end"] >= 2))


def bv64(v):
    return z3.BitVecVal(v, 64)


CLAIMS += [
    Claim("c01_print_vector_structure", "C01", "quick", claim_vector_structure,
          "vectors and R6RS / R7RS byte vectors: the opener for exactly the kind being printed, then for each element a separator "
          "iff it is not the first, the element, and finally the closer; output stops at the first failed write",
          "any number of elements (loop cut, base case = opener only), arbitrary element printer", configs=("fast",), also=("C02", "C07", "C13")),
]


# ----------------------------------------------------------------------------- numbers: the digits are those of the stored value

def claim_number_text(cx, res, kf):
    """write_number: Number::visit hands the stored payload to the visitor method of its representation, and each visitor
    method writes exactly itoa(n) resp. ryu(n) of THAT value (one emission); byte-vector elements are written as itoa(octet).
    (itoa / ryu themselves are trusted libraries.)"""
    from . import confirm as CF
    onm = CF.confirm(("print", "printcheck"), res)
    NN = cx.enums["N"]
    n_done = 0
    # ---- Number::visit dispatch
    fn = None
    for name, f in cx.fns.items():
        if "lexpr/src/number.rs" in name and name.endswith("::visit") and "{closure" not in name and "Number" in f.local_ty.get(f.args[0], ""):
            fn = f
    if fn is None:
        res.error = "Number::visit not found"
        return
    eng = C.make_engine(cx, [], loop_mode="cut", timeout_s=60)

    def h_visit(engine, st, fr, callee, argv, m):
        st.events.append(("visit", m.group(1), argv[1]))
        return Blob("visited")
    eng.stubs = [(re.compile(r"^<V as (?:number::)?Visitor>::(visit_\w+)$"), h_visit)] + S.CORE_STUBS
    info = {}

    def init(e, st, fr):
        nd = z3.BitVec("numkind", 64)
        u, i_, f_ = e.sym_int("u64", "u"), e.sym_int("i64", "i"), e.sym_f64("f")
        num = Agg("struct", "Number", [EnumV("N", nd, {NN.index("PosInt"): [u], NN.index("NegInt"): [i_], NN.index("Float"): [f_]})])
        st.heap["num"] = num
        fr.locals[fn.args[0]] = Ref(("H", "num"))
        fr.locals[fn.args[1]] = Opaque("V", "visitor", {})
        info.update(nd=nd, u=u, i=i_, f=f_)
        return [z3.ULT(nd, z3.BitVecVal(len(NN), 64))]
    terms = eng.explore(fn.name, init)
    res.absorb(eng)
    for t in terms:
        pc = list(t.state.pc)
        vs = [e for e in t.state.events if e[0] == "visit"]
        if t.kind != "RETURN" or len(vs) != 1:
            res.must_be_unsat(pc, "Number::visit does not call exactly one visitor method", onm)
            continue
        n_done += 1
        meth, arg = vs[0][1], vs[0][2]
        want = {"visit_u64": (NN.index("PosInt"), info["u"]), "visit_i64": (NN.index("NegInt"), info["i"]), "visit_f64": (NN.index("Float"), info["f"])}.get(meth)
        if want is None:
            res.must_be_unsat(pc, "Number::visit calls %s" % meth, onm)
            continue
        same_val = (arg.e == want[1].e) if not isinstance(arg.e, z3.FPRef) else z3.fpToIEEEBV(arg.e) == z3.fpToIEEEBV(want[1].e)
        res.must_be_unsat(pc + [z3.Not(z3.And(info["nd"] == want[0], same_val))], "Number::visit hands another value / representation to %s" % meth, onm)
    # ---- the visitor methods of the printer and the byte-vector element closures
    for name, f in cx.fns.items():
        is_num = "write_number" in name and "::visit_" in name
        is_elem = "print::" in name and "write_bytes::{closure" in name
        if not (is_num or is_elem):
            continue
        argv_info = {}

        def mk2(e, st, f=f, argv_info=argv_info):
            vals = []
            for a in f.args:
                ty = f.local_ty.get(a, "").strip()
                if ty.startswith("print::Formatter::write_number::Write"):
                    vals.append(Agg("struct", "Write", [Ref(("H", "writer"))]))
                elif ty.startswith("&mut {closure") or ty.startswith("&{closure"):
                    vals.append(Blob("closure-env"))
                elif ty == "&u8":
                    o = e.sym_int("u8", "octet")
                    argv_info["n"] = o
                    vals.append(Ref(("V", o)))
                elif ty == "&mut W":
                    continue
                elif ty in ("u64", "i64"):
                    n_ = e.sym_int(ty, "n")
                    argv_info["n"] = n_
                    vals.append(n_)
                elif ty == "f64":
                    n_ = e.sym_f64("n")
                    argv_info["n"] = n_
                    vals.append(n_)
                else:
                    v = synth_arg(cx, e, st, ty)
                    if v is None:
                        raise Unsupported("no argument synthesis for %s in %s" % (ty, f.name))
                    vals.append(v)
            return vals, [], {}
        eng, fn2, info2, terms = explore_print(cx, res, name, mk2)
        for t in terms:
            st = t.state
            pc = list(st.pc)
            if t.kind != "RETURN" or K.classify_return(eng, t)[0] not in ("ok", "sym"):
                continue
            kind, payload = K.classify_return(eng, t)
            extra = [payload.discr == 0] if kind == "sym" else []
            ems = emissions(st)
            short = name.split("print::")[-1]
            if len(ems) != 1 or ems[0][0] != "emit" or ems[0][1][0] not in ("itoa", "ryu"):
                res.must_be_unsat(pc + extra, "%s does not write exactly the formatted number (%r)" % (short, [e[:2] for e in ems]), onm)
                continue
            n_done += 1
            how, val = ems[0][1][0], ems[0][1][1]
            arg = argv_info.get("n")
            if arg is None:
                continue
            while isinstance(val, Ref):
                val = eng.load(st, val.addr)
            want_how = "ryu" if name.endswith("visit_f64") else "itoa"
            if how != want_how:
                res.must_be_unsat(pc + extra, "%s formats with %s instead of %s" % (short, how, want_how), onm)
                continue
            if isinstance(arg.e, z3.FPRef):
                cond = z3.fpToIEEEBV(val.e) == z3.fpToIEEEBV(arg.e)
            else:
                cond = val.e == arg.e if val.e.size() == arg.e.size() else z3.ZeroExt(val.e.size() - arg.e.size(), arg.e) == val.e
            res.must_be_unsat(pc + extra + [z3.Not(cond)], "%s formats another value than the one it was given" % short, onm)
    res.vacuity.append(("number / octet writers examined", n_done >= 6))


CLAIMS += [
    Claim("c01_number_text", "C01", "quick", claim_number_text,
          "numbers print as the decimal digits of the stored value: Number::visit passes the payload of its representation to "
          "the matching visitor method, the printer's visitor methods write exactly itoa(n) / ryu(n) of that value, byte-vector "
          "elements exactly itoa(octet)",
          "every u64 / i64 / f64 payload, every octet; itoa and ryu trusted", configs=("fast",), also=("C02", "C05", "C07", "C13")),
]


# ----------------------------------------------------------------------------- names, keywords, fragments: verbatim text

def claim_name_text(cx, res, kf):
    """write_symbol / write_string_fragment write the given text verbatim (one piece); write_keyword writes the name with the
    marker of the keyword syntax: `#:name` for the trait default, `#:name` / `:name` / `name:` for the customised formatter
    according to its keyword_syntax option and nothing else."""
    from . import confirm as CF
    onm = CF.confirm(("print", "printcheck"), res)
    KS = cx.enums["KeywordSyntax"]
    n_ok = 0

    def pieces(st):
        out = []
        for e in emissions(st):
            if e[0] != "emit":
                out.append(("other", e[0]))
                continue
            d = e[1]
            if d[0] == "lit":
                out.append(("lit", bytes(d[1])))
            elif d[0] == "name":
                out.append(("name", d[1]))
            else:
                out.append(("other", d[0]))
        return out

    def run(fname, want, fix=None, label=None):
        nonlocal n_ok

        def mk(e, st):
            return [Ref(("V", Opaque("name", "the text", {})))], [], {}
        eng, fn, info, terms = explore_print(cx, res, fname, mk, inline_formatter=True, opt_fix=fix)
        what = label or fname
        check_discipline(res, eng, terms, what)
        for t in terms:
            pc = list(t.state.pc)
            if t.kind == "PANIC":
                res.must_be_unsat(pc, "%s: reachable panic" % what, onm)
                continue
            if t.kind != "RETURN" or K.classify_return(eng, t)[0] not in ("ok", "sym"):
                continue
            kind, payload = K.classify_return(eng, t)
            extra = [payload.discr == 0] if kind == "sym" else []
            if extra and res.solve(pc + extra)[0] != z3.sat:
                continue
            n_ok += 1
            got = pieces(t.state)
            if got != want:
                res.must_be_unsat(pc + extra, "%s writes %r, documented %r" % (what, got, want), onm)
    NAME = ("name", "the text")
    run("print::Formatter::write_symbol", [NAME])
    run("print::Formatter::write_string_fragment", [NAME])
    run("print::Formatter::write_keyword", [("lit", b"#:"), NAME])
    for v, want in (("Octothorpe", [("lit", b"#:"), NAME]), ("ColonPrefix", [("lit", b":"), NAME]), ("ColonPostfix", [NAME, ("lit", b":")])):
        run("<CustomizedFormatter as Formatter>::write_keyword", want, {"keyword_syntax": v}, "CustomizedFormatter::write_keyword [%s]" % v)
    res.vacuity.append(("name writers return Ok", n_ok >= 6))


CLAIMS += [
    Claim("c07_name_text", "C07", "quick", claim_name_text,
          "symbols and string fragments are written verbatim in one piece; keywords as `#:name` by the default formatter and as "
          "`#:name` / `:name` / `name:` by the customised formatter according to its keyword_syntax option only",
          "abstract name text; every keyword syntax", configs=("fast",), also=("C01", "C02", "C13", "C17")),
]
