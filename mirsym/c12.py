"""C12 — trivia handling and progress (E2 claims over parse_whitespace and the iteration adapters)."""
import z3

from . import common as K
from . import ctx as C
from . import replay as RP
from . import stubs as S
from .c05 import run_scanner, last_in, cur_byte, io_err_payload, bv
from .claims import Claim
from .symex import Agg, EnumV, Int, Opaque

TRIVIA = (0x20, 0x09, 0x0A, 0x0D, 0x0C)


def sep_replay(res, nb):
    """Real parser on `(1)<byte>(2)`: is the byte treated as a separator between two data?"""
    text = b"(1)" + bytes([nb]) + b"(2)"
    nat = RP.parse(text, "default", "slice", "value")
    res.replays += 1
    items = nat.get("items", [])

    def is_list_of(it, n):
        return it.get("t") == "list" and len(it.get("v", [])) == 1 and it["v"][0].get("v") == str(n) and it.get("tail", {}).get("t") == "null"
    sep = len(items) == 3 and is_list_of(items[0], 1) and is_list_of(items[1], 2) and items[2].get("end") is True
    return sep, nat, text


def comment_replay(res, endbyte):
    """Real parser on `1 ;c<byte>2\\n3`: a comment must run to the line feed (values 1 3); for LF itself 1 2 3."""
    text = b"1 ;c" + bytes([endbyte]) + b"2\n3"
    nat = RP.parse(text, "default", "slice", "value")
    res.replays += 1
    vals = [it.get("v") for it in nat.get("items", []) if it.get("t") == "int"]
    want = ["1", "2", "3"] if endbyte == 10 else ["1", "3"]
    return vals != want, nat, text


def claim_whitespace(cx, res, kf):
    res.assumptions.append("loops cut at both headers (skipping loop and comment loop): any amount of trivia")
    eng, rd, fn, info, terms = run_scanner(cx, res, "parse_whitespace", lambda e: ([], [], {}), [], [])
    headers = sorted(eng.loop_headers(fn)[0])
    seen = {"skip": 0, "comment_in": 0, "comment_end": 0, "ret_some": 0, "ret_none": 0, "io": 0}
    for t in terms:
        st = t.state
        pc = list(st.pc)
        if t.kind == "PANIC":
            res.must_be_unsat(pc, "reachable panic")
            continue
        ins = st.notes.get("in", ())
        if not ins:
            res.violations.append({"what": "path without reaching the skipping loop: %r" % (t,), "replayed": None})
            continue
        # the step starts at the most recent header
        hb, rec = ins[-1]
        idx = rec["idx"]
        b, eof, ioerr = cur_byte(rd, idx)
        is_ws = z3.And(z3.Not(eof), z3.Or(*[b == bv(c, 8) for c in TRIVIA]))
        is_semi = z3.And(z3.Not(eof), b == bv(ord(";"), 8))
        in_comment = len(ins) >= 2 or (len(ins) == 1 and hb != min(headers) and False)
        outer = ins[0][0]
        if t.kind == "LOOP_BACK":
            target = t.info["header"]
            if len(ins) == 1:
                # from the outer header straight back to the outer header: one whitespace byte consumed
                seen["skip"] += 1

                def onm(m, b=b, eof=eof):
                    # a byte treated as trivia that is not in the documented set: two symbols become one / split
                    nb = K.mval(m, b)
                    two, nat, text = sep_replay(res, nb)
                    return {"replayed": two and nb not in TRIVIA, "observed": nat,
                            "witness": {"kind": "parse", "input_hex": text.hex(), "opts": "default", "src": "slice", "api": "value", "fast": True}}
                res.must_be_unsat(pc + [z3.Not(z3.And(z3.Not(ioerr), is_ws, st.notes["idx"] == idx + 1))],
                                  "whitespace skipping consumes a byte outside {SP, TAB, LF, CR, FF} or more than one byte", onm)
            else:
                # inside the comment loop
                ch, crec = ins[-1]
                cidx = crec["idx"]
                cb, ceof, cio = cur_byte(rd, cidx)

                def onc(m, cb=cb, ceof=ceof):
                    if K.mval(m, ceof) is True:
                        return {"replayed": None}
                    bad, nat, text = comment_replay(res, K.mval(m, cb))
                    return {"replayed": bad, "observed": nat,
                            "witness": {"kind": "parse", "input_hex": text.hex(), "opts": "default", "src": "slice", "api": "value", "fast": True}}
                if target == ch:
                    seen["comment_in"] += 1
                    res.must_be_unsat(pc + [z3.Not(z3.And(z3.Not(cio), z3.Not(ceof), cb != bv(10, 8), st.notes["idx"] == cidx + 1))],
                                      "comment loop continues past a line feed / EOF or does not advance by one byte", onc)
                else:
                    seen["comment_end"] += 1
                    res.must_be_unsat(pc + [z3.Not(z3.And(z3.Not(cio), z3.Not(ceof), cb == bv(10, 8), st.notes["idx"] == cidx + 1))],
                                      "comment ends on something other than a line feed", onc)
                # the comment was entered on ';' at the outer header
                oidx = ins[0][1]["idx"]
                ob, oeof, oio = cur_byte(rd, oidx)
                res.must_be_unsat(pc + [z3.Not(z3.And(z3.Not(oeof), ob == bv(ord(";"), 8)))],
                                  "comment loop entered on a byte other than ';'")
            continue
        kind, payload = K.classify_return(eng, t)
        if kind == "err":
            if io_err_payload(payload):
                seen["io"] += 1
                # an I/O error is reported exactly when the read at the cursor fails
                last_idx = ins[-1][1]["idx"]
                res.must_be_unsat(pc + [z3.Not(last_idx == rd.err_at)], "io error without a failing read")
                continue
            res.violations.append({"what": "parse_whitespace returns a syntax error %r" % (payload,), "replayed": None})
            continue
        if kind == "ok" and isinstance(payload, EnumV):
            d = K.concrete(payload.discr)
            if len(ins) == 1:
                issome = payload.discr == 1
                r1, _ = res.solve(pc + [issome])
                r0, _ = res.solve(pc + [z3.Not(issome)])
                if r1 == z3.sat:
                    seen["ret_some"] += 1
                    v = payload.variants[1][0].e

                    def onm2(m, b=b):
                        nb = K.mval(m, b)
                        two, nat, text = sep_replay(res, nb)
                        return {"replayed": (nb in TRIVIA) and not two, "observed": nat,
                                "witness": {"kind": "parse", "input_hex": text.hex(), "opts": "default", "src": "slice", "api": "value", "fast": True}}
                    res.must_be_unsat(pc + [issome, z3.Not(z3.And(z3.Not(ioerr), z3.Not(eof), z3.Not(is_ws), z3.Not(is_semi), v == b,
                                                                  st.notes["idx"] == idx))],
                                      "a trivia byte (SP, TAB, LF, CR, FF or ';') is returned as the start of a token, or the byte is consumed", onm2)
                if r0 == z3.sat:
                    seen["ret_none"] += 1
                    res.must_be_unsat(pc + [z3.Not(issome), z3.Not(z3.And(z3.Not(ioerr), eof, st.notes["idx"] == idx))],
                                      "end of input reported before the end")
                continue
            else:
                # return from inside a comment: only at EOF, as Ok(None)
                cidx = ins[-1][1]["idx"]
                cb, ceof, cio = cur_byte(rd, cidx)
                if d == 0:
                    seen["ret_none"] += 1
                    res.must_be_unsat(pc + [z3.Not(z3.And(z3.Not(cio), ceof))], "comment without newline must end at EOF with Ok(None)")
                    continue
        res.violations.append({"what": "unclassified path %r" % (t,), "replayed": None})
    for k, n in seen.items():
        res.vacuity.append(("reaches " + k, n > 0))


def claim_adapters(cx, res, kf):
    """value_iter / datum_iter / Iterator for Parser are next_*().transpose(): Ok(None) -> None (terminates),
    Ok(Some(v)) -> Some(Ok(v)), Err(e) -> Some(Err(e))."""
    import re
    for which, callee_fn, inner in (("ValueIter", "next_value", "<ValueIter<'_, R> as Iterator>::next"),
                                    ("DatumIter", "next_datum", "<DatumIter<'_, R> as Iterator>::next"),
                                    ("Parser", "next_value", "<Parser<R> as Iterator>::next")):
        fn = C.resolve_callee(cx, inner)
        if fn is None:
            res.error = "adapter %s not found in MIR" % inner
            return
        eng = C.make_engine(cx, [], loop_mode="unroll", unroll=1, timeout_s=60)
        rec = {}

        def h_next(engine, st, fr, callee, argv, m):
            is_err = z3.Bool("nx_err_%d" % next(engine.fresh))
            pres = z3.Bool("nx_some_%d" % next(engine.fresh))
            rec["err"], rec["some"] = is_err, pres
            st.events.append(("call", callee_fn))
            return S.mk_result(engine, is_err, S.mk_option(pres, Opaque("T", "item", {})), Opaque("Error", "e", {"kind": "callee"}))
        def h_mkerr(engine, st, fr, callee, argv, m):
            st.events.append(("made_error", argv[1] if len(argv) > 1 else None))
            return Opaque("Error", "made by the adapter", {"kind": "syntax"})
        eng.stubs = [(re.compile(r"^Parser::<[^>]*>::%s$" % callee_fn), h_next),
                     (re.compile(r"^Parser::<[^>]*>::(peek_error|error)$"), h_mkerr),
                     (re.compile(r"^(?:parse::)?(?:error::)?Error::(is_eof|is_io|is_syntax|classify|location)$"),
                      lambda e, st, fr, c, a, m: e.sym_bool("errq") if m.group(1).startswith("is_") else Opaque("ErrInfo", m.group(1)))] + S.COMBINATOR_STUBS + S.CORE_STUBS

        def init(e, st, fr):
            ref, cons, ov = K.parser_state(cx, e, st)
            if which == "Parser":
                fr.locals[1] = ref
            else:
                st.heap["iter"] = Agg("struct", which, [ref])
                from .symex import Ref
                fr.locals[1] = Ref(("H", "iter"))
            return cons
        terms = eng.explore(fn.name, init)
        res.absorb(eng)
        n_ok = 0
        for t in terms:
            pc = list(t.state.pc)
            if t.kind != "RETURN" or not isinstance(t.value, EnumV) or t.value.name != "Option":
                res.violations.append({"what": "%s::next: unexpected terminal %r" % (which, t), "replayed": None})
                continue
            ncalls = len([e for e in t.state.events if e[0] == "call"])
            if ncalls != 1:
                res.violations.append({"what": "%s::next calls %s %d times" % (which, callee_fn, ncalls), "replayed": None})
            d = K.concrete(t.value.discr)
            if d == 0:
                res.must_be_unsat(pc + [z3.Not(z3.And(z3.Not(rec["err"]), z3.Not(rec["some"])))],
                                  "%s::next ends the iteration although the parser returned an item or an error" % which)
                n_ok += 1
            elif d == 1:
                inner_r = t.value.variants[1][0]
                rd_ = K.concrete(inner_r.discr)
                if rd_ == 0:
                    res.must_be_unsat(pc + [z3.Not(z3.And(z3.Not(rec["err"]), rec["some"]))], "%s::next yields Ok without an item" % which)
                else:
                    res.must_be_unsat(pc + [z3.Not(rec["err"])], "%s::next yields an error the parser did not report" % which)
                    e_ = inner_r.variants.get(1, [None])[0]
                    if isinstance(e_, Opaque) and e_.label == "made by the adapter":
                        res.must_be_unsat(pc, "%s::next replaces the parser's result by an error of its own" % which)
                n_ok += 1
        res.vacuity.append(("%s adapter has 3 outcomes" % which, n_ok == 3))


def claim_expect_end(cx, res, kf):
    """expect_end / end: skip trivia, Ok at the end of input, otherwise a trailing-characters error about the PEEKED byte, which
    stays unconsumed - so a caller may go on reading the next datum from the same parser."""
    import re
    from . import builders as B
    for meth in ("expect_end", "end"):
        fn = C.resolve_callee(cx, "Parser::<R>::" + meth)
        if fn is None:
            res.error = "Parser::%s not found" % meth
            return
        eng = C.make_engine(cx, [], loop_mode="unroll", unroll=1, timeout_s=60, max_paths=500)
        eng.stable_names = True
        eng.stubs = B.builder_stubs(cx, eng) + S.COMBINATOR_STUBS + S.CORE_STUBS

        def init(e, st, fr):
            ref, cons, ov = K.parser_state(cx, e, st)
            fr.locals[1] = ref
            return cons
        terms = eng.explore(fn.name, init)
        res.absorb(eng)
        seen = {"ok": 0, "trailing": 0, "io": 0}
        for t in terms:
            pc = list(t.state.pc)
            if t.kind != "RETURN":
                res.must_be_unsat(pc, "%s: ends in %s" % (meth, t.kind))
                continue
            ev = t.state.events
            ws = [e_ for e_ in ev if e_[0] == "ws"]
            reads = [e_[0] for e_ in ev if e_[0] in ("eat", "peek_or_null", "expect", "symsuffix", "symscratch") or e_[0].startswith("raw:")]
            if len(ws) != 1:
                res.must_be_unsat(pc, "%s: skips trivia %d times" % (meth, len(ws)))
                continue
            if reads:
                res.must_be_unsat(pc, "%s: reads or consumes input beyond the trivia (%s): the byte it complains about is lost for the next call" % (meth, ", ".join(reads)))
                continue
            _, nm, werr, wsome, wbyte = ws[0]
            kind, payload = K.classify_return(eng, t)
            if kind == "ok":
                seen["ok"] += 1
                res.must_be_unsat(pc + [z3.Not(z3.And(z3.Not(werr), z3.Not(wsome)))], "%s: Ok although input other than trivia remains (or a read failed)" % meth)
            elif kind == "err":
                if isinstance(payload, Opaque) and payload.attrs.get("kind") == "io":
                    seen["io"] += 1
                    res.must_be_unsat(pc + [z3.Not(werr)], "%s: I/O error without a failing read" % meth)
                else:
                    seen["trailing"] += 1
                    ci = K.err_code_index(eng, payload)
                    code = K.code_name(eng, ci) if ci is not None else "?"
                    errs = [e_ for e_ in ev if e_[0] == "error"]
                    if code != "TrailingCharacters":
                        res.must_be_unsat(pc, "%s: reports %s for trailing input" % (meth, code))
                    res.must_be_unsat(pc + [z3.Not(z3.And(z3.Not(werr), wsome))], "%s: trailing-characters error at the end of input" % meth)
            else:
                res.must_be_unsat(pc, "%s: unclassified result" % meth)
        for k, n in seen.items():
            res.vacuity.append(("%s: %s outcome reached" % (meth, k), n > 0))


CLAIMS = [
    Claim("c12_expect_end", "C12", "quick", claim_expect_end,
          "expect_end / end: trivia is skipped once; Ok exactly at the end of input; otherwise the trailing-characters error, and the "
          "byte it is about stays unconsumed (no read or discard beyond the trivia) so the same parser can go on with the next datum; "
          "an I/O error exactly when the read failed",
          "arbitrary reader behaviour", configs=("fast",), also=("C06",), confirm=("iteration", "toplevel")),
    Claim("c12_whitespace", "C12", "quick", claim_whitespace,
          "parse_whitespace skips exactly the bytes SP, TAB, LF, CR, FF and line comments from ';' to the next LF or "
          "EOF, one byte per step, returns the first other byte unconsumed (or end of input), never a syntax error, "
          "and an I/O error exactly when the read at the cursor fails",
          "any amount of trivia (one-step induction on both loops); every byte value; EOF and I/O error anywhere", configs=("fast",), also=("C06", "C19")),
    Claim("c12_adapters", "C12", "quick", claim_adapters,
          "value_iter, datum_iter and Iterator for Parser each call next_value/next_datum exactly once per item and "
          "map Ok(None) to the end of iteration, Ok(Some(v)) to Some(Ok(v)), Err(e) to Some(Err(e))",
          "all three adapters, arbitrary parser result", configs=("fast",)),
]
