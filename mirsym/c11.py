"""C11 — span end points: next_datum records the start of every datum right after the trivia in front of it and its end
right after its last byte (E2). Together with the position layer (E1, c11_position_*: all readers map a byte offset to
the same line/column) this gives 'spans delimit exactly the text of the datum, identically for all sources' for the
top-level datum of each kind; sub-datums are produced by the same function recursively."""
import re

import z3

from . import common as K
from . import ctx as C
from . import replay as RP
from . import stubs as S
from .claims import Claim
from .symex import Agg, Blob, BoolV, EnumV, Int, Opaque, Ref, UnitV, ENUM_PAYLOADS
from .c03 import sym_token


def bv(v, w=64):
    return z3.BitVecVal(v, w)


class NotAPosition(Exception):
    pass


def span_replay(res):
    corpus = [b"  abc  ", b"\n (a \"b\" #\\c)\n", b"'x y", b"#(1 2) ;c\n 3", b"(a . b)", b"#u8(1 2) z", b"`(,a ,@b) ", b"  \xce\xbb (\xce\xbb)",
              b"'  x", b",@  (a  b)", b"`   x", b"( '  x  ,  y )", b"#( a   'b )", b"(a   .   b)", b"  ''  x",
              b",@xs", b"(a ,@b)", b"(\"ab\ncd\" x)", b"#u8(1\n 2) y", b"(a\n \"s\nt\"\n b)", b"\"x\ny\nz\" w"]

    def walk(sp):
        yield sp
        for k in ("list", "vec"):
            for c in sp.get(k, []):
                if "dot" in c:
                    c = c["dot"]
                if "s" in c:
                    for x in walk(c):
                        yield x

    def f(m):
        for text in corpus:
            a = RP.parse(text, "default", "slice", "spans")
            b = RP.parse(text, "default", "reader", "spans")
            res.replays += 2
            if a != b:
                return {"replayed": True, "observed": {"slice": a, "reader": b},
                        "witness": {"kind": "parse", "input_hex": text.hex(), "opts": "default", "src": "reader", "api": "spans", "fast": True}}
            # every span (nested ones too) must cover exactly one datum's text: no surrounding blanks, re-parsable on its own
            # (the head of a quote shorthand covers just the shorthand characters); single line inputs only
            for top in a.get("spans", []):
                if "s" not in top:
                    continue
                for sp in walk(top):
                    (l1, c1), (l2, c2) = sp["s"], sp["e"]
                    lines = text.split(b"\n")
                    starts = [0]
                    for ln_ in lines[:-1]:
                        starts.append(starts[-1] + len(ln_) + 1)
                    if 1 <= l1 <= len(lines) and 1 <= l2 <= len(lines) and (l1, c1) <= (l2, c2):
                        w0 = {"kind": "parse", "input_hex": text.hex(), "opts": "default", "src": "slice", "api": "spans", "fast": True}
                        if c1 > len(lines[l1 - 1]) or c2 > len(lines[l2 - 1]):
                            return {"replayed": True, "observed": {"span": [sp["s"], sp["e"]], "problem": "column beyond the end of its line"}, "witness": w0}
                        piece = text[starts[l1 - 1] + c1:starts[l2 - 1] + c2]
                        w = {"kind": "parse", "input_hex": text.hex(), "opts": "default", "src": "slice", "api": "spans", "fast": True}
                        if not piece.strip() or piece != piece.strip():
                            return {"replayed": True, "observed": {"span": [sp["s"], sp["e"]], "covers": piece.decode("latin-1")}, "witness": w}
                        if piece in (b"'", b"`", b",", b",@"):
                            a0 = starts[l1 - 1] + c1
                            if piece == b"," and text[a0:a0 + 2] == b",@":
                                return {"replayed": True, "observed": {"span": [sp["s"], sp["e"]], "covers": ",", "problem": "the head of `,@` covers only the comma"}, "witness": w}
                            continue
                        one = RP.single(piece, "default", "slice")
                        if "err" in one:
                            return {"replayed": True, "observed": {"span": [sp["s"], sp["e"]], "covers": piece.decode("latin-1"), "reparse": one}, "witness": w}
        return {"replayed": False}
    return f


def claim_span_points(cx, res, kf):
    eng = C.make_engine(cx, [], loop_mode="cut", timeout_s=200, max_paths=20000)

    def seq(st, kind):
        n = st.notes.get("nseq", 0) + 1
        st.notes["nseq"] = n
        return "%s_%d" % (kind, n)

    def advance(st, name, at_least=0):
        old = st.notes["idx"]
        new = z3.BitVec(seq(st, name), 64)
        c = z3.And(z3.UGE(new, old + at_least), z3.ULT(new, bv(1 << 40)))
        eng.solver.add(c)
        st.pc.append(c)
        st.notes["idx"] = new
        return new

    def h_ws(engine, st, fr, callee, argv, m):
        advance(st, "after_ws", 0)
        st.notes["idx_ws"] = st.notes["idx"]
        nm = seq(st, "ws")
        some = z3.Bool(nm + "_some")
        err = z3.Bool(nm + "_err")
        st.events.append(("ws", st.notes["idx"]))
        return S.mk_result(engine, err, S.mk_option(some, engine.sym_int("u8", "first")), Opaque("Error", "io", {"kind": "io"}))

    def h_token(engine, st, fr, callee, argv, m):
        tok, c = sym_token(engine)
        engine.solver.add(c)
        st.pc.append(c)
        advance(st, "after_token", 1)
        st.notes["idx_tok"] = st.notes["idx"]
        st.notes["token"] = tok.discr
        err = z3.Bool(seq(st, "tok_err"))
        return S.mk_result(engine, err, tok, Opaque("Error", "from:parse_token", {"kind": "callee"}))

    def h_consumer(engine, st, fr, callee, argv, m):
        advance(st, "after_" + m.group(1), 0)
        err = z3.Bool(seq(st, m.group(1) + "_err"))
        ret = (C.resolve_callee(cx, callee).ret_ty or "")
        if "Result<Option<" in ret:
            okv = S.mk_option(z3.Bool(seq(st, "some")), Blob("ret"))
        elif "Result<()" in ret:
            okv = UnitV()
        else:
            okv = Blob("ret")
        st.events.append(("consume", m.group(1), st.notes["idx"]))
        return S.mk_result(engine, err, okv, Opaque("Error", "from:" + m.group(1), {"kind": "callee"}))

    def h_position(engine, st, fr, callee, argv, m):
        st.events.append(("position", st.notes["idx"]))
        return Agg("struct", "Position", [Int(st.notes["idx"], "usize"), Int(bv(0), "usize")])

    def h_datum(engine, st, fr, callee, argv, m):
        kind = m.group(1)
        st.events.append(("datum", kind, tuple(argv)))
        return Blob("Datum:" + kind)

    def h_span_new(engine, st, fr, callee, argv, m):
        return Agg("struct", "Span", [argv[0], argv[1]])

    def h_closure_call(engine, st, fr, callee, argv, m):
        # the `primitive` closure of next_datum: |value, parser| Datum::primitive(value, start, parser.read.position())
        f = S.closure_fn(engine, engine.load(st, argv[0].addr) if isinstance(argv[0], Ref) else argv[0])
        args = argv[1]
        return ("fork", [(z3.BoolVal(True), ("frame", f, [argv[0]] + list(args.fields), None), None)])
    P = r"^Parser::<[^>]*>::"
    eng.stubs = [
        (re.compile(P + r"parse_whitespace$"), h_ws),
        (re.compile(P + r"parse_token$"), h_token),
        (re.compile(P + r"(parse_byte_list|parse_vector_meta|parse_list_meta|end_seq|next_datum)$"), h_consumer),
        (re.compile(r"^<R as (?:parse::)?(?:read::)?Read<'\w+>>::(position|peek_position)$"), h_position),
        (re.compile(r"^(?:datum::)?Datum::(vec|cons|primitive|quotation)$"), h_datum),
        (re.compile(r"^(?:datum::)?Span::new$"), h_span_new),
        (re.compile(r"^<\{closure@.*\} as Fn<.*>>::call$"), h_closure_call),
    ] + S.COMBINATOR_STUBS + S.BUILDER_STUBS + S.CORE_STUBS
    fn = C.resolve_callee(cx, "Parser::<R>::next_datum")

    def init(e, st, fr):
        ref, cons, ov = K.parser_state(cx, e, st)
        fr.locals[1] = ref
        st.notes["idx"] = z3.BitVec("idx0", 64)
        return cons + [z3.UGE(ov["remaining_depth"], z3.BitVecVal(2, 8)), z3.ULT(st.notes["idx"], bv(1 << 39))]
    terms = eng.explore(fn.name, init)
    res.absorb(eng)
    onm = span_replay(res)
    seen = {"primitive": 0, "vec": 0, "cons": 0, "quotation": 0}
    for t in terms:
        st = t.state
        pc = list(st.pc)
        if t.kind != "RETURN":
            continue
        kind, payload = K.classify_return(eng, t)
        if kind != "ok":
            continue
        ds = [e for e in st.events if e[0] == "datum"]
        if not ds:
            continue          # Ok(None): end of input
        d = ds[-1]
        seen[d[1]] += 1
        idx_ws, idx_tok, idx_end = st.notes.get("idx_ws"), st.notes.get("idx_tok"), st.notes["idx"]

        def pos_idx(p):
            if isinstance(p, Ref):
                p = eng.load(st, p.addr)
            if not (isinstance(p, Agg) and p.fields and isinstance(p.fields[0], Int)):
                raise NotAPosition()
            return p.fields[0].e
        try:
            if d[1] == "quotation":
                sp0 = d[2][2]
                if isinstance(sp0, Ref):
                    sp0 = eng.load(st, sp0.addr)
                if not isinstance(sp0, Agg):
                    raise NotAPosition()
                [pos_idx(x) for x in sp0.fields[:2]]
            else:
                [pos_idx(x) for x in (d[2][1:3] if d[1] == "primitive" else d[2][2:4])]
        except NotAPosition:
            v = {"what": "a %s datum's span point is not a position read from the input source at a token boundary (it is computed "
                 "from something else, e.g. another datum's span)" % d[1], "replayed": None}
            v.update(onm(None) or {})
            res.violations.append(v)
            continue
        if d[1] == "primitive":
            start, end = pos_idx(d[2][1]), pos_idx(d[2][2])
            res.must_be_unsat(pc + [z3.Not(z3.And(start == idx_ws, end == idx_end))],
                              "an atom's span does not run from the first byte after the trivia to the position after its last byte", onm)
        elif d[1] in ("vec", "cons"):
            start, end = pos_idx(d[2][2]), pos_idx(d[2][3])
            res.must_be_unsat(pc + [z3.Not(z3.And(start == idx_ws, end == idx_end))],
                              "a list / vector span does not run from its opening delimiter to the position after its closing delimiter", onm)
        elif d[1] == "quotation":
            sp = d[2][2]
            if isinstance(sp, Ref):
                sp = eng.load(st, sp.addr)
            s0, s1 = pos_idx(sp.fields[0]), pos_idx(sp.fields[1])
            res.must_be_unsat(pc + [z3.Not(z3.And(s0 == idx_ws, s1 == idx_tok))],
                              "the span of a quote shorthand's head does not cover just the shorthand characters", onm)
    for k, n in seen.items():
        res.vacuity.append(("next_datum builds a %s datum" % k, n > 0))


CLAIMS = [
    Claim("c11_span_points", "C11", "quick", claim_span_points,
          "next_datum takes the start of every datum at the first byte after the preceding trivia and its end right after "
          "its last byte (atoms: after the token; lists / vectors / byte vectors: after the closing delimiter; quote "
          "shorthands: head span = the shorthand characters)",
          "all 13 token kinds; arbitrary amounts of input consumed by the callees", configs=("fast",)),
]
