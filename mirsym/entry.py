"""E2: the parse entry points (C01: "every parse entry point (str, byte slice, io reader, FromStr)", C10, C06): every
function of the from_str / from_slice / from_reader families - value API, datum API, Parser constructors, `FromStr for
Value` - hands its input, wrapped in the reader of its kind, to the one parser driver together with exactly the option set
its name promises: the caller's for `_custom`, `Options::elisp()` for `_elisp`, `Options::default()` otherwise; the driver
reads one datum and then requires the end of input."""
import re

import z3

from . import common as K
from . import ctx as C
from . import stubs as S
from .claims import Claim
from .symex import Agg, Blob, EnumV, Opaque, Ref, Unsupported

READER_OF = {"str": "StrRead", "slice": "SliceRead", "reader": "IoRead"}


def claim_parse_entry_points(cx, res, kf):
    from . import confirm as CF
    onm = CF.confirm(("entrypoints", "tokens"), res)
    targets = []
    for n, f in cx.fns.items():
        m = re.search(r"(^|::)from_(str|slice|reader)(_elisp|_custom)?(#\d+)?$", n)
        if m and ("parse::" in n or n.startswith("datum::") or "value/mod.rs" in n):
            targets.append((n, f, m.group(2), (m.group(3) or "").lstrip("_")))
    if len(targets) < 20:
        res.error = "only %d parse entry points found in the MIR dump" % len(targets)
        return
    n_ok = 0
    for key, fn, kind, flavour in targets:
        eng = C.make_engine(cx, [], loop_mode="unroll", unroll=1, timeout_s=60, max_paths=100)

        def h_opts(e, st, fr, callee, argv, m):
            return Opaque("Options", m.group(1))

        def h_reader(e, st, fr, callee, argv, m):
            return Opaque("Reader", m.group(1), {"of": argv[0]})

        def h_driver(e, st, fr, callee, argv, m):
            st.events.append(("driver", m.group(1), argv[0], argv[1] if len(argv) > 1 else None))
            if m.group(1) in ("with_options", "new"):
                return Opaque("Parser", "parser")
            return Blob("result")
        eng.stubs = [(re.compile(r"^(?:parse::)?Options::(default|elisp|new)$|^<(?:parse::)?Options as Default>::(default)$"),
                      lambda e, st, fr, c, a, m: Opaque("Options", m.group(1) or m.group(2))),
                     (re.compile(r"^(?:parse::)?(?:read::)?(StrRead|SliceRead|IoRead)::<.*>::new$|^(?:parse::)?(?:read::)?(StrRead|SliceRead|IoRead)::new$"),
                      lambda e, st, fr, c, a, m: Opaque("Reader", m.group(1) or m.group(2), {"of": a[0]})),
                     (re.compile(r"^(?:parse::|datum::)?(from_trait)::<"), h_driver),
                     (re.compile(r"^Parser::<.*>::(with_options|new)$"), h_driver)]
        info = {}

        def init(e, st, fr, fn=fn):
            for i, a in enumerate(fn.args):
                ty = fn.local_ty.get(a, "").strip()
                fr.locals[a] = Opaque("Options", "caller's") if ty.endswith("Options") else Opaque("Input", "input")
            return []
        try:
            terms = eng.explore(key, init)
        except Unsupported as e:
            res.error = "unsupported: %s: %s" % (key, e)
            return
        res.absorb(eng)
        short = key.split("::")[-1] + (" (datum)" if key.startswith("datum::") else " (Parser)" if "impl at lexpr/src/parse" in key else " (FromStr)" if "value/mod.rs" in key else "")
        want_opts = {"custom": "caller's", "elisp": "elisp", "": "default"}[flavour]
        for t in terms:
            pc = list(t.state.pc)
            if t.kind != "RETURN":
                res.must_be_unsat(pc, "%s: ends in %s" % (short, t.kind), onm)
                continue
            dr = [e_ for e_ in t.state.events if e_[0] == "driver"]
            why = None
            if len(dr) != 1:
                why = "hands its input to the parser %d times" % len(dr)
            else:
                _, which, rd, op = dr[0]
                if which == "new":
                    op = Opaque("Options", "default")    # Parser::new is the default-options constructor (own target below)
                if not (isinstance(rd, Opaque) and rd.ty == "Reader" and rd.label == READER_OF[kind] and isinstance(rd.attrs.get("of"), Opaque) and rd.attrs["of"].label == "input"):
                    why = "reads through %r, expected %s over its input" % (rd, READER_OF[kind])
                elif not (isinstance(op, Opaque) and op.ty == "Options" and op.label == want_opts):
                    why = "parses with the %s options, its name promises the %s options" % (getattr(op, "label", op), want_opts)
            if why:
                res.must_be_unsat(pc, "%s: %s" % (short, why), onm)
            else:
                n_ok += 1
    # Parser::new: the default options (and with_options: the given ones), stored in the parser
    order = cx.structs.get("Parser") or []
    for n, f in cx.fns.items():
        if "lexpr/src/parse/mod.rs" in n and re.search(r"::(new|with_options)$", n) and f.ret_ty.strip().startswith("Parser<"):
            which = n.rsplit("::", 1)[1]
            eng = C.make_engine(cx, [], loop_mode="unroll", unroll=1, timeout_s=60, max_paths=100)
            eng.stubs = [(re.compile(r"^(?:parse::)?Options::(default|elisp|new)$|^<(?:parse::)?Options as Default>::(default)$"),
                          lambda e, st, fr, c, a, m: Opaque("Options", m.group(1) or m.group(2))),
                         (re.compile(r"^Vec::<u8>::(with_capacity|new)$"), lambda e, st, fr, c, a, m: Blob("scratch"))]

            def init2(e, st, fr, f=f):
                fr.locals[f.args[0]] = Opaque("Reader", "r")
                if len(f.args) > 1:
                    fr.locals[f.args[1]] = Opaque("Options", "caller's")
                return []
            try:
                terms = eng.explore(n, init2)
            except Unsupported as e:
                res.error = "unsupported: Parser::%s: %s" % (which, e)
                return
            res.absorb(eng)
            want = "default" if which == "new" else "caller's"
            for t in terms:
                v = t.value
                op = None
                if t.kind == "RETURN" and isinstance(v, Agg) and "options" in order and len(v.fields) == len(order):
                    op = v.fields[order.index("options")]
                if not (isinstance(op, Opaque) and op.ty == "Options" and op.label == want):
                    res.must_be_unsat(list(t.state.pc), "Parser::%s stores %r as its options, expected the %s options" % (which, op, want), onm)
                else:
                    n_ok += 1
    res.vacuity.append(("parse entry points inspected", n_ok >= 25))


CLAIMS = [
    Claim("c01_parse_entry_points", "C01", "quick", claim_parse_entry_points,
          "all 28 functions of the from_str / from_slice / from_reader families (value API, datum API, Parser constructors, FromStr for "
          "Value): the input goes, wrapped in the reader of its kind (StrRead / SliceRead / IoRead), to the one parser driver exactly once, "
          "with the caller's options for `_custom`, Options::elisp() for `_elisp` and Options::default() otherwise; Parser::new uses the "
          "default options",
          "all entry points found in the current MIR dump", configs=("fast",), also=("C02", "C06", "C10", "C13")),
]
