"""E2 over the reader-specific scanners (SliceRead / StrRead / IoRead: symbols and R6RS strings): both implementations
against ONE specification, for inputs of any length (loop cut): same terminator set, same consumed prefix, in-bounds
slice indexing, fragments cut only at ASCII bytes (so the unchecked str path of StrRead stays well-formed), EOF handling.
Serves C06 (sources agree), C17 (UTF-8), C12 (token end), C03 (no index panic), C19 (EOF)."""
import re

import z3

from . import common as K
from . import ctx as C
from . import replay as RP
from . import stubs as S
from .claims import Claim
from .symex import Agg, Blob, BoolV, EnumV, Int, Opaque, Ref, UnitV, Unsupported

SYMBOL_TERMINATORS = (0x20, 0x0A, 0x09, 0x0D, 0x0C, ord(")"), ord("]"), ord("("), ord("["), ord(";"))


def bv(v, w=64):
    return z3.BitVecVal(v, w)


def b8(v):
    return z3.BitVecVal(v, 8)


def scanner_stubs(cx, engine, rd, kind):
    """kind: 'slice' (real SliceRead methods are inlined over a symbolic slice) or 'io' (IoRead's next/peek/discard are
    the abstract reader)."""
    def unref(st, v):
        while isinstance(v, Ref):
            v = engine.load(st, v.addr)
        return v

    def frag_of(st, v):
        w = unref(st, v)
        return w

    def h_index_range(engine, st, fr, callee, argv, m):
        base, r = unref(st, argv[0]), unref(st, argv[1])
        if m.group(1) == "RangeTo":
            lo, hi = bv(0), r.fields[0].e
        else:
            lo, hi = r.fields[0].e, r.fields[1].e
        if isinstance(base, Opaque) and base.ty == "fragment":
            lo, hi, ln = base.attrs["lo"] + lo, base.attrs["lo"] + hi, base.attrs["hi"] - base.attrs["lo"]
            ok = z3.And(z3.ULE(lo, hi), z3.ULE(hi - base.attrs["lo"], ln))
        else:
            ok = z3.And(z3.ULE(lo, hi), z3.ULE(hi, base.attrs["len"]))
        st.events.append(("slice", lo, hi))
        fragv = Ref(("V", Opaque("fragment", "frag", {"lo": lo, "hi": hi, "arr": rd.inp})))
        return ("fork", [(ok, fragv, None), (z3.Not(ok), ("panic", "slice index out of range"), None)])

    def scratch_len(st):
        total = bv(0)
        for it in st.notes.get("scratch", ()):
            if it[0] == "frag":
                total = total + (it[2] - it[1])
            elif it[0] in ("byte",):
                total = total + 1
            elif it[0] == "utf8char":
                total = total + 1      # at least one byte
        return total

    def h_extend(engine, st, fr, callee, argv, m):
        src = unref(st, argv[1])
        if isinstance(src, Opaque) and src.ty == "fragment":
            st.notes["scratch"] = st.notes.get("scratch", ()) + (("frag", src.attrs["lo"], src.attrs["hi"]),)
            st.events.append(("extend_frag", src.attrs["lo"], src.attrs["hi"]))
            return UnitV()
        return S.h_vec_extend(engine, st, fr, callee, argv, m)

    def h_is_empty(engine, st, fr, callee, argv, m):
        items = st.notes.get("scratch", ())
        conds = [st.notes["scratch_init_empty"]]
        for it in items:
            if it[0] == "frag":
                conds.append(it[1] == it[2])
            else:
                conds.append(z3.BoolVal(False))
        return BoolV(z3.And(*conds))

    def h_eq_dot(engine, st, fr, callee, argv, m):
        a = unref(st, argv[0])
        if isinstance(a, Opaque) and a.ty == "fragment":
            lo, hi = a.attrs["lo"], a.attrs["hi"]
            return BoolV(z3.And(hi - lo == 1, z3.Select(rd.inp, lo) == b8(ord("."))))
        # the scratch vector against b".": an opaque predicate of its (abstract) content
        r = z3.Bool("scratch_is_dot_%d" % next(engine.fresh))
        st.events.append(("scratch_eq_dot", r))
        return BoolV(r)

    def h_deref_vec(engine, st, fr, callee, argv, m):
        return Ref(("V", Opaque("scratchslice", "scratch", {"content": st.notes.get("scratch", ()), "init_empty": st.notes["scratch_init_empty"]})))

    def h_from_utf8(engine, st, fr, callee, argv, m):
        src = unref(st, argv[0])
        ok = z3.Bool("utf8ok_%d" % next(engine.fresh))
        st.events.append(("from_utf8", src, ok))
        return S.mk_result(engine, z3.Not(ok), Ref(("V", Opaque("str", "validated", {"of": src}))), Opaque("Utf8Error", "e", {}))

    def h_unchecked(engine, st, fr, callee, argv, m):
        src = unref(st, argv[0])
        st.events.append(("from_utf8_unchecked", src))
        return Ref(("V", Opaque("str", "unchecked", {"of": src})))

    def h_map_ctor(engine, st, fr, callee, argv, m):
        r = argv[0]
        vname = m.group(1)
        okv = EnumV("Reference", engine.enums["Reference"].index(vname), {engine.enums["Reference"].index(vname): list(r.variants.get(0, []))})
        return EnumV("Result", r.discr, {0: [okv], 1: list(r.variants.get(1, []))})

    def h_map_closure(engine, st, fr, callee, argv, m):
        r, cl = argv
        f = S.closure_fn(engine, cl)
        okp = list(r.variants.get(0, []))
        errp = list(r.variants.get(1, []))
        return ("fork", [(r.discr == 0, ("frame", f, [cl] + okp, lambda v: EnumV("Result", 0, {0: [v]})), None),
                         (r.discr != 0, EnumV("Result", 1, {1: errp}), None)])

    out = [
        (re.compile(r"^<\[u8\] as std::ops::Index<(?:std::ops::)?(Range|RangeTo)<usize>>>::index$"), h_index_range),
        (re.compile(r"^Vec::<u8>::extend_from_slice$"), h_extend),
        (re.compile(r"^Vec::<u8>::is_empty$"), h_is_empty),
        (re.compile(r"^<&(?:mut )?(?:Vec<u8>|\[u8\]) as PartialEq<&\[u8; 1\]>>::eq$"), h_eq_dot),
        (re.compile(r"^<Vec<u8> as Deref>::deref$"), h_deref_vec),
        (re.compile(r"^(?:core::str::|std::str::)?from_utf8$"), h_from_utf8),
        (re.compile(r"^(?:core::str::|std::str::)?from_utf8_unchecked$"), h_unchecked),
        (re.compile(r"^std::result::Result::<.*>::map::<.*\{read::Reference::<.*>::(Borrowed|Copied)\}>$"), h_map_ctor),
        (re.compile(r"^std::result::Result::<.*>::map::<.*, \{closure@"), h_map_closure),
    ]
    def h_gen_position(engine, st, fr, callee, argv, m):
        return Agg("struct", "Position", [engine.sym_int("usize", "line"), engine.sym_int("usize", "col")])
    if kind != "io":
        out.append((re.compile(r"^<R as (?:parse::)?(?:read::)?Read<'\w+>>::(position|peek_position)$"), h_gen_position))
    if kind == "io":
        out += S.reader_stubs(rd)
        out += [
            (re.compile(r"^<IoRead<R> as (?:parse::)?(?:read::)?Read<'\w+>>::peek$"), S.reader_stubs(rd)[0][1]),
            (re.compile(r"^<IoRead<R> as (?:parse::)?(?:read::)?Read<'\w+>>::next$"), S.reader_stubs(rd)[1][1]),
            (re.compile(r"^<IoRead<R> as (?:parse::)?(?:read::)?Read<'\w+>>::discard$"), S.reader_stubs(rd)[2][1]),
            (re.compile(r"^<IoRead<R> as (?:parse::)?(?:read::)?Read<'\w+>>::(position|peek_position)$"), S.reader_stubs(rd)[3][1]),
        ]
    else:
        def h_position(engine, st, fr, callee, argv, m):
            return Agg("struct", "Position", [engine.sym_int("usize", "line"), engine.sym_int("usize", "col")])
        out += [(re.compile(r"^<SliceRead<'_> as (?:parse::)?(?:read::)?Read<'\w+>>::(position|peek_position)$"), h_position),
                (re.compile(r"^SliceRead::<'_>::position_of_index$"), h_position)]
    return out


def explore_scanner(cx, res, kind, method, result_fn="as_str", exits=()):
    """kind 'slice' | 'io'; method: parse_symbol_bytes | parse_r6rs_str_bytes"""
    eng = C.make_engine(cx, [], loop_mode="cut", timeout_s=200, max_paths=20000)
    rd = S.Reader(eng, with_io_errors=(kind == "io"))
    from .kernels import run_kernel
    import re as _re

    def mk_exit(nm):
        def h(engine, st, fr, callee, argv, m):
            is_err = z3.Bool("x_%s_err_%d" % (nm, next(engine.fresh)))
            st.events.append(("call", nm, st.notes.get("idx") if kind == "io" else None))
            if kind == "io":
                st.notes["idx"] = z3.BitVec("idx_after_%s_%d" % (nm, next(engine.fresh)), 64)
            else:
                # a sub-scanner of SliceRead advances self.index: havoc it (monotonically, within the slice)
                sr = st.heap["sr"]
                old = sr.fields[1].e
                new = z3.BitVec("index_after_%s_%d" % (nm, next(engine.fresh)), 64)
                c = z3.And(z3.UGE(new, old), z3.ULE(new, rd.len))
                engine.solver.add(c)
                st.pc.append(c)
                st.heap["sr"] = Agg("struct", "SliceRead", [sr.fields[0], Int(new, "usize")])
            st.notes["scratch"] = st.notes.get("scratch", ()) + (("escape", nm),)
            okv = Blob("ret:" + nm)
            if nm == "parse_elisp_escape" and "ElispEscape" in engine.enums:
                kd = z3.BitVec("x_%s_kind_%d" % (nm, next(engine.fresh)), 64)
                c = z3.ULT(kd, z3.BitVecVal(len(engine.enums["ElispEscape"]), 64))
                engine.solver.add(c)
                st.pc.append(c)
                okv = EnumV("ElispEscape", kd, {})
                st.events.append(("escape_kind", kd, is_err))
            return S.mk_result(engine, is_err, okv, Opaque("Error", "from:" + nm, {"kind": "callee"}))
        return (_re.compile(r"^%s(::<.*>)?$" % _re.escape(nm)), h)
    eng.stubs = [mk_exit(n) for n in exits] + scanner_stubs(cx, eng, rd, kind) + S.SCRATCH_STUBS + S.COMBINATOR_STUBS + S.CORE_STUBS
    line = {"slice": "read.rs:3", "io": "read.rs:1"}[kind]
    fn = None
    for name, f in cx.fns.items():
        if "parse/read.rs" in name and name.endswith("::" + method):
            ty0 = f.local_ty.get(f.args[0], "")
            if (kind == "slice" and "SliceRead" in ty0) or (kind == "io" and "IoRead" in ty0):
                fn = f
    if fn is None:
        raise Unsupported("%s::%s not found" % (kind, method))
    info = {}

    def init(e, st, fr):
        cons = list(rd.base)
        idx0 = z3.BitVec("idx0", 64)
        info["idx0"] = idx0
        cons.append(z3.ULE(idx0, rd.len))
        st.notes["scratch"] = ()
        st.notes["scratch_init_empty"] = z3.Bool("scratch_init_empty")
        st.notes["in"] = ()
        if kind == "slice":
            sl = Opaque("inputslice", "input", {"arr": rd.inp, "len": rd.len})
            st.heap["sr"] = Agg("struct", "SliceRead", [Ref(("V", sl)), Int(idx0, "usize")])
            fr.locals[fn.args[0]] = Ref(("H", "sr"))
        else:
            st.heap["io"] = Opaque("IoRead", "io", {})
            fr.locals[fn.args[0]] = Ref(("H", "io"))
            st.notes["idx"] = idx0
        st.heap["scratchv"] = Opaque("Vec<u8>", "scratch", {})
        fr.locals[fn.args[1]] = Ref(("H", "scratchv"))
        if len(fn.args) > 2:
            fr.locals[fn.args[2]] = Opaque("fnitem", result_fn, {})
        return cons

    def cursor(st):
        return st.heap["sr"].fields[1].e if kind == "slice" else st.notes["idx"]

    def on_header(e, st, fr, bb, what):
        st.notes["arrive_cursor"] = st.notes.get("arrive_cursor", ()) + (cursor(st),)
        if kind == "io":
            st.notes["idx"] = z3.BitVec("idxh%d_%d" % (bb, len(st.notes["in"])), 64)
        else:
            sr = st.heap["sr"]
            st.heap["sr"] = Agg("struct", "SliceRead", [sr.fields[0], Int(z3.BitVec("indexh%d_%d" % (bb, len(st.notes["in"])), 64), "usize")])

    def havoc(e, st, fr, bb):
        rec = {"idx": cursor(st), "locals": dict((k, v) for k, v in fr.locals.items() if isinstance(v, (Int, BoolV))),
               "nscratch": len(st.notes["scratch"])}
        st.notes["in"] = st.notes["in"] + ((bb, rec),)
        st.notes["events_at_header"] = len(st.events)
        out = [z3.ULE(cursor(st), rd.len)]
        if kind == "slice":
            sl = fn.local_by_debug("start")
            if sl is not None and isinstance(fr.locals.get(sl), Int):
                out.append(z3.ULE(fr.locals[sl].e, cursor(st)))
                rec["start"] = fr.locals[sl].e
        return out
    eng.on_header, eng.havoc_hook = on_header, havoc
    info["cursor"] = cursor
    terms = eng.explore(fn.name, init)
    res.absorb(eng)
    return eng, rd, fn, info, terms


def scanner_base_case(res, st, fn, kind, info, done, what, onm):
    """the scan starts at the reader's position: nothing consumed before the loop, and (slice readers) `start` marks it"""
    ac = st.notes.get("arrive_cursor", ())
    if not ac:
        return
    c0 = ac[0]

    def cond(a):
        out = [c0 == info["idx0"]]
        if kind == "slice":
            sl = fn.local_by_debug("start")
            if sl is None or sl not in a["locals"] or not isinstance(a["locals"][sl], Int):
                return None
            out.append(a["locals"][sl].e == info["idx0"])
        return z3.And(*out)
    K.base_case(res, st, 0, done, cond, "%s %s scanner: input is consumed before the scan loop / the range start is not the position the scan began at" % (kind, what), onm)


def is_term(b):
    return z3.Or(*[b == b8(c) for c in SYMBOL_TERMINATORS])


def symbol_replay(res):
    def f(m):
        for t in SYMBOL_TERMINATORS + (ord('"'), ord("#"), ord("'"), ord("|"), 0x0B, 0):
            text = b"ab" + bytes([t]) + b"cd"
            outs = {src: RP.parse(text, "default", src, "value") for src in ("slice", "str", "reader")}
            res.replays += 3
            if not (outs["slice"] == outs["str"] == outs["reader"]):
                return {"replayed": True, "observed": outs, "witness": {"kind": "parse", "input_hex": text.hex(), "opts": "default", "src": "reader", "api": "value", "fast": True}}
            items = outs["slice"].get("items", [])
            first = items[0].get("v") if items and items[0].get("t") == "symbol" else None
            want_split = t in SYMBOL_TERMINATORS
            if want_split and first != b"ab".hex():
                return {"replayed": True, "observed": outs["slice"], "witness": {"kind": "parse", "input_hex": text.hex(), "opts": "default", "src": "slice", "api": "value", "fast": True}}
        for text in (b"\xce\xbbx", b"a\xce\xbb", b"a\xff", b"\xf0\x9f\x98\x80"):
            outs = {src: RP.parse(text, "default", src, "value") for src in ("slice", "reader")}
            res.replays += 2
            if outs["slice"] != outs["reader"]:
                return {"replayed": True, "observed": outs, "witness": {"kind": "parse", "input_hex": text.hex(), "opts": "default", "src": "reader", "api": "value", "fast": True}}
        return {"replayed": False}
    return f


def claim_symbol_scanners(cx, res, kf):
    """SliceRead::parse_symbol_bytes and IoRead::parse_symbol_bytes against one spec (any symbol length)."""
    onm = symbol_replay(res)
    for kind in ("slice", "io"):
        eng, rd, fn, info, terms = explore_scanner(cx, res, kind, "parse_symbol_bytes")
        cursor = info["cursor"]
        base_done = set()
        seen = {"step": 0, "end": 0, "dot": 0}
        for t in terms:
            st = t.state
            pc = list(st.pc)
            if t.kind == "PANIC":
                res.must_be_unsat(pc, "%s symbol scanner: reachable panic `%s`" % (kind, t.info.get("msg")), onm)
                continue
            if not st.notes["in"]:
                continue
            hb, rec = st.notes["in"][-1]
            scanner_base_case(res, st, fn, kind, info, base_done, "symbol", onm)
            idx = rec["idx"]
            b = rd.at(idx)
            eof = z3.UGE(idx, rd.len)
            stop = z3.Or(eof, is_term(b))
            if t.kind == "LOOP_BACK" and kind == "slice":
                sl_ = fn.local_by_debug("start")
                fr_ = st.frames[-1]
                if sl_ is not None and isinstance(fr_.locals.get(sl_), Int):
                    res.must_be_unsat(pc + [z3.Not(z3.ULE(fr_.locals[sl_].e, cursor(st)))], "slice symbol scanner: `start` overtakes the cursor (invariant start <= index)", onm)
            if t.kind == "LOOP_BACK":
                seen["step"] += 1
                good = z3.And(z3.Not(stop), cursor(st) == idx + 1)
                res.must_be_unsat(pc + [z3.Not(good)], "%s symbol scanner continues past a token terminator / end of input, or does not advance by one byte" % kind, onm)
                if kind == "io":
                    pushes = [it for it in st.notes["scratch"][rec["nscratch"]:] if it[0] == "byte"]
                    if len(pushes) != 1:
                        res.violations.append({"what": "stream symbol scanner does not copy exactly the consumed byte", "replayed": None})
                    else:
                        res.must_be_unsat(pc + [pushes[0][1].e != b], "stream symbol scanner copies a different byte than it consumed", onm)
                continue
            if t.kind != "RETURN":
                continue
            kind_, payload = K.classify_return(eng, t)
            if kind_ == "err" and isinstance(payload, Opaque) and payload.attrs.get("kind") == "io":
                # an I/O failure surfaces as the error of the byte it happened at (never as EOF / end of token)
                seen["ioerr"] = seen.get("ioerr", 0) + 1
                res.must_be_unsat(pc + [z3.Not(z3.And(idx == rd.err_at, cursor(st) == idx))], "%s symbol scanner reports an I/O error that did not happen at the current byte" % kind, onm)
                continue
            if kind == "io":
                res.must_be_unsat(pc + [idx == rd.err_at], "stream symbol scanner ends a symbol normally at a byte whose read failed (I/O error swallowed)", onm)
            # the scan ends exactly at the first terminator / EOF, which is NOT consumed
            res.must_be_unsat(pc + [z3.Not(z3.And(stop, cursor(st) == idx))], "%s symbol scanner ends before a terminator or consumes the terminator" % kind, onm)
            if kind_ == "err":
                ci = K.err_code_index(eng, payload)
                if ci is not None and K.code_name(eng, ci) == "InvalidSymbol":
                    seen["dot"] += 1
                continue
            seen["end"] += 1
            if kind == "slice":
                # the text handed to the str conversion is the slice [start, index) (appended to a non-empty scratch)
                start = rec.get("start")
                sl = [e for e in st.events if e[0] == "slice"]
                if not sl:
                    res.violations.append({"what": "slice symbol scanner returns without taking input[start..index]", "replayed": None})
                    continue
                res.must_be_unsat(pc + [z3.Not(z3.And(sl[-1][1] == start, sl[-1][2] == idx))], "slice symbol scanner returns a different range than [start, index)", onm)
            # every str produced goes through validation (as_str) unless the reader vouches for the input (StrRead closure)
            conv = [e for e in st.events if e[0] in ("from_utf8", "from_utf8_unchecked")]
            if kind_ == "ok" and not conv:
                res.violations.append({"what": "%s symbol scanner produces a str without any UTF-8 conversion step" % kind, "replayed": None})
            if any(e[0] == "from_utf8_unchecked" for e in conv):
                res.violations.append({"what": "%s symbol scanner (arbitrary bytes) uses from_utf8_unchecked" % kind, "replayed": None})
        for k, n in seen.items():
            res.vacuity.append(("%s symbol scanner reaches %s" % (kind, k), n > 0))


def string_replay(res):
    def f(m):
        for text in (b'"ab"', b'"a\\nb"', b'"\\x41;\\x3bb;"', b'"\xce\xbb\\t\xce\xbb"', b'"a\\"b\\\\"', b'"abc', b'"a\\', b'"\\q"', b'"\xff"', b'"a\\x41', b'""',
                     b'"a\xce"', b'"\\xD800;"'):
            outs = {src: RP.single(text, "default", src) for src in ("slice", "reader")}
            res.replays += 2
            try:
                text.decode("utf-8")
                outs["str"] = RP.single(text, "default", "str")
                res.replays += 1
            except UnicodeDecodeError:
                pass
            vals = list(outs.values())
            if any(v != vals[0] for v in vals[1:]):
                return {"replayed": True, "observed": outs, "witness": {"kind": "parse", "input_hex": text.hex(), "opts": "default", "src": "reader", "api": "single", "fast": True}}
        ref = {b'"ab"': "6162", b'"a\\nb"': "610a62", b'"\\x41;\\x3bb;"': "41cebb", b'"a\\"b\\\\"': "6122625c", b'""': ""}
        for text, want in ref.items():
            nat = RP.single(text, "default", "slice")
            res.replays += 1
            if nat.get("v") != want:
                return {"replayed": True, "observed": nat, "witness": {"kind": "parse", "input_hex": text.hex(), "opts": "default", "src": "slice", "api": "single", "fast": True}}
        return {"replayed": False}
    return f


def claim_string_scanners(cx, res, kf):
    """R6RS string scanning of SliceRead (also the unchecked StrRead path) and IoRead against one spec."""
    onm = string_replay(res)
    for kind, result_fn in (("slice", "as_str"), ("io", "as_str")):
        eng, rd, fn, info, terms = explore_scanner(cx, res, kind, "parse_r6rs_str_bytes", result_fn, exits=["parse_r6rs_escape"])
        cursor = info["cursor"]
        base_done = set()
        seen = {"skip": 0, "quote": 0, "escape": 0, "eof": 0}
        for t in terms:
            st = t.state
            pc = list(st.pc)
            if t.kind == "PANIC":
                res.must_be_unsat(pc, "%s string scanner: reachable panic `%s` (index out of bounds / unreachable!())" % (kind, t.info.get("msg")), onm)
                continue
            if not st.notes["in"]:
                continue
            hb, rec = st.notes["in"][-1]
            scanner_base_case(res, st, fn, kind, info, base_done, "string", onm)
            idx = rec["idx"]
            b = rd.at(idx)
            eof = z3.UGE(idx, rd.len)
            special = z3.And(z3.Not(eof), z3.Or(b == b8(ord('"')), b == b8(ord("\\"))))
            esc = K.calls(st, "parse_r6rs_escape")
            if t.kind == "LOOP_BACK" and kind == "slice":
                sl_ = fn.local_by_debug("start")
                fr_ = st.frames[-1]
                if sl_ is not None and isinstance(fr_.locals.get(sl_), Int):
                    res.must_be_unsat(pc + [z3.Not(z3.ULE(fr_.locals[sl_].e, cursor(st)))], "slice string scanner: `start` overtakes the cursor (invariant start <= index)", onm)
            if t.kind == "LOOP_BACK":
                if esc and len(st.events) and any(e[0] == "call" for e in st.events[st.notes.get("events_at_header", 0):]):
                    seen["escape"] += 1
                    # an escape is entered exactly on a backslash, which is consumed before the escape decoder runs
                    res.must_be_unsat(pc + [z3.Not(z3.And(z3.Not(eof), b == b8(ord("\\"))))], "%s string scanner enters the escape decoder on another byte" % kind, onm)
                else:
                    seen["skip"] += 1
                    res.must_be_unsat(pc + [z3.Not(z3.And(z3.Not(eof), z3.Not(special), cursor(st) == idx + 1))],
                                      "%s string scanner skips a quote / backslash or does not advance by one byte" % kind, onm)
                    if kind == "io":
                        pushes = [it for it in st.notes["scratch"][rec["nscratch"]:] if it[0] == "byte"]
                        if len(pushes) != 1:
                            res.violations.append({"what": "stream string scanner does not copy exactly the consumed byte", "replayed": None})
                        else:
                            res.must_be_unsat(pc + [pushes[0][1].e != b], "stream string scanner copies a different byte than it consumed", onm)
                # slice fragments: every range copied to the scratch buffer ends at the current special byte and starts at `start`
                if kind == "slice":
                    for e in st.events[st.notes.get("events_at_header", 0):]:
                        if e[0] == "extend_frag":
                            res.must_be_unsat(pc + [z3.Not(z3.And(e[1] == rec.get("start"), e[2] == idx, special))],
                                              "slice string scanner copies a range that does not run from `start` to the quote / backslash "
                                              "(text would be lost, duplicated or cut inside a multi-byte character)", onm)
                continue
            if t.kind != "RETURN":
                continue
            kind_, payload = K.classify_return(eng, t)
            if kind_ == "err" and isinstance(payload, Opaque) and payload.attrs.get("kind") == "io":
                seen["ioerr"] = seen.get("ioerr", 0) + 1
                res.must_be_unsat(pc + [z3.Not(z3.And(idx == rd.err_at, cursor(st) == idx))], "%s string scanner reports an I/O error that did not happen at the current byte" % kind, onm)
                continue
            if kind == "io":
                res.must_be_unsat(pc + [idx == rd.err_at], "stream string scanner finishes normally at a byte whose read failed (I/O error swallowed)", onm)
            if kind_ == "err":
                ci = K.err_code_index(eng, payload)
                if ci is not None and K.code_name(eng, ci) == "EofWhileParsingString":
                    seen["eof"] += 1
                    res.must_be_unsat(pc + [z3.Not(eof)], "%s string scanner reports EOF inside the input" % kind, onm)
                continue
            if kind_ in ("ok", "sym"):
                seen["quote"] += 1
                # the string ends exactly at a double quote, which is consumed
                res.must_be_unsat(pc + [z3.Not(z3.And(z3.Not(eof), b == b8(ord('"')), cursor(st) == idx + 1))],
                                  "%s string scanner ends the string on a byte other than the closing quote / does not consume it" % kind, onm)
                if kind == "slice":
                    sl = [e for e in st.events[st.notes.get("events_at_header", 0):] if e[0] == "slice"]
                    if sl:
                        res.must_be_unsat(pc + [z3.Not(z3.And(sl[-1][1] == rec.get("start"), sl[-1][2] == idx))],
                                          "slice string scanner's final range is not [start, closing quote)", onm)
        for k, n in seen.items():
            res.vacuity.append(("%s string scanner reaches %s" % (kind, k), n > 0))


def claim_elisp_string_scanners(cx, res, kf):
    """Emacs string scanning of IoRead (parse_elisp_str) and SliceRead (parse_elisp_str_bytes) against ONE specification:
    the three classification flags start false; a raw byte > 127 sets `non-ASCII` (and nothing else does), an escape sets
    `unibyte` / `multibyte` exactly as the escape decoder reports; the closing quote yields a byte vector iff
    unibyte and neither multibyte nor non-ASCII, otherwise a validated string."""
    from . import confirm as CF
    onm = CF.confirm(("strings",), res)
    EE = cx.enums["ElispEscape"]
    ES = cx.enums.get("ElispStr")
    FLAGS = ("seen_ub_escape", "seen_mb_escape", "seen_non_ascii")
    for kind, method in (("io", "parse_elisp_str"), ("slice", "parse_elisp_str_bytes")):
        eng, rd, fn, info, terms = explore_scanner(cx, res, kind, method, "as_str", exits=["parse_elisp_escape"])
        cursor = info["cursor"]
        fl = {n: fn.local_by_debug(n) for n in FLAGS}
        if any(v is None for v in fl.values()):
            res.violations.append({"what": "%s Emacs string scanner: classification flags not found" % kind, "replayed": None})
            continue
        base_done = set()
        seen = {"plain": 0, "escape": 0, "bytes": 0, "string": 0, "eof": 0}
        for t in terms:
            st = t.state
            pc = list(st.pc)
            if t.kind == "PANIC":
                res.must_be_unsat(pc, "%s Emacs string scanner: reachable panic `%s`" % (kind, t.info.get("msg")), onm)
                continue
            if not st.notes["in"]:
                continue
            K.base_case(res, st, 0, base_done,
                        lambda a: z3.And(*[z3.Not(a["locals"][fl[n]].e) for n in FLAGS]) if all(fl[n] in a["locals"] for n in FLAGS) else None,
                        "%s Emacs string scanner: a classification flag is already set before the first byte" % kind, onm)
            hb, rec = st.notes["in"][-1]
            idx = rec["idx"]
            b = rd.at(idx)
            eof = z3.UGE(idx, rd.len)
            ub, mb, na = (rec["locals"][fl[n]].e for n in FLAGS)
            evs = st.events[st.notes.get("events_at_header", 0):]
            esc = [e for e in evs if e[0] == "escape_kind"]
            fr = st.frames[-1] if st.frames else None
            if t.kind == "LOOP_BACK":
                ub2, mb2, na2 = (fr.locals[fl[n]].e for n in FLAGS)
                if esc:
                    seen["escape"] += 1
                    kd, eerr = esc[0][1], esc[0][2]
                    want = z3.And(z3.Not(eof), b == b8(ord("\\")), z3.Not(eerr),
                                  ub2 == z3.Or(ub, kd == EE.index("Unibyte")), mb2 == z3.Or(mb, kd == EE.index("Multibyte")), na2 == na)
                    res.must_be_unsat(pc + [z3.Not(want)], "%s Emacs string scanner: flags after an escape do not follow the escape decoder's "
                                      "classification (unibyte / multibyte / neither)" % kind, onm)
                else:
                    seen["plain"] += 1
                    # a raw byte: kept, one byte consumed, only the non-ASCII flag may change and exactly for bytes > 127
                    r, _ = res.solve(pc + [cursor(st) == idx + 1])
                    if r == z3.sat:
                        want = z3.And(z3.Not(eof), b != b8(ord('"')), b != b8(ord("\\")), cursor(st) == idx + 1,
                                      ub2 == ub, mb2 == mb, na2 == z3.Or(na, z3.UGT(b, b8(127))))
                        res.must_be_unsat(pc + [z3.Not(want)], "%s Emacs string scanner: a raw byte changes the classification otherwise than "
                                          "`non-ASCII iff byte > 127`, or a quote / backslash is skipped" % kind, onm)
                    else:
                        # (slice reader) back to the outer loop without consuming: only after its inner scan stopped at a special byte
                        res.must_be_unsat(pc + [z3.Not(z3.And(cursor(st) == idx, ub2 == ub, mb2 == mb, na2 == na))],
                                          "%s Emacs string scanner: flags change without consuming a byte" % kind, onm)
                continue
            if t.kind != "RETURN":
                continue
            kind_, payload = K.classify_return(eng, t)
            if kind_ == "err":
                ci = K.err_code_index(eng, payload)
                if ci is not None and K.code_name(eng, ci) == "EofWhileParsingString":
                    seen["eof"] += 1
                    res.must_be_unsat(pc + [z3.Not(eof)], "%s Emacs string scanner reports EOF inside the input" % kind, onm)
                continue
            if kind_ in ("ok", "sym"):
                v = payload if kind_ == "ok" else (payload.variants.get(0, [None])[0])
                extra = [] if kind_ == "ok" else [payload.discr == 0]
                if not isinstance(v, EnumV) or ES is None:
                    res.violations.append({"what": "%s Emacs string scanner: result is not an ElispStr: %r" % (kind, v), "replayed": None})
                    continue
                d = K.concrete(v.discr)
                is_bytes = ES[d] == "Unibyte"
                seen["bytes" if is_bytes else "string"] += 1
                want_bytes = z3.And(ub, z3.Not(z3.Or(mb, na)))
                res.must_be_unsat(pc + extra + [z3.Not(z3.And(z3.Not(eof), b == b8(ord('"')), want_bytes == z3.BoolVal(is_bytes)))],
                                  "%s Emacs string scanner: byte vector / string decision is not `unibyte escape seen and neither a multibyte "
                                  "escape nor a raw non-ASCII byte`" % kind, onm)
                if not is_bytes and not any(e[0] == "from_utf8" for e in st.events):
                    res.violations.append({"what": "%s Emacs string scanner returns a string without UTF-8 validation" % kind, "replayed": None})
        for k, n in seen.items():
            res.vacuity.append(("%s Emacs string scanner reaches %s" % (kind, k), n > 0))


def claim_str_unchecked(cx, res, kf):
    """C17 for &str input: StrRead hands the scanned bytes to from_utf8_unchecked. Sound because (a) the input is valid
    UTF-8, (b) SliceRead cuts ranges only at `"` / `\\` / symbol terminators (ASCII: c07-style range claims above), and
    (c) escapes append only ASCII or encode_utf8 output (c01_r6rs_escape). Decided here: StrRead's closures are the ONLY
    unchecked conversions, they are applied to exactly the scanner's output, and StrRead::parse_elisp_str (where escapes
    can append raw bytes) goes through the validating as_str."""
    import os
    found = {"parse_r6rs_str": False, "parse_symbol": False}
    for name, f in cx.fns.items():
        if "parse/read.rs" not in name:
            continue
        calls = []
        for b in f.blocks.values():
            if b.cleanup or not b.term:
                continue
            t = b.term[0]
            if t[0] == "call":
                calls.append(t[2])
        unchecked = [c for c in calls if "from_utf8_unchecked" in c]
        if not unchecked:
            continue
        short = name.split("::")[-2] + "::" + name.split("::")[-1] if "{closure" in name else name.split("::")[-1]
        ok = "{closure" in name and ("parse_r6rs_str" in name or "parse_symbol" in name) and f.local_ty.get(f.args[0], "").startswith("{closure@")
        if ok:
            # closure body: exactly from_utf8_unchecked(bytes) wrapped in Ok
            for k in found:
                if k in name:
                    found[k] = True
            if len(calls) != 1:
                res.violations.append({"what": "unchecked-conversion closure %s does more than convert its argument: %r" % (short, calls), "replayed": None})
        else:
            res.violations.append({"what": "from_utf8_unchecked is used outside StrRead's two documented closures: %s" % name, "replayed": None})
    for k, v in found.items():
        res.vacuity.append(("StrRead::%s unchecked closure present" % k, v))
    # StrRead::parse_elisp_str must validate (Emacs escapes can append raw bytes)
    for name, f in cx.fns.items():
        if "parse/read.rs" in name and name.endswith("::parse_elisp_str") and "StrRead" in f.local_ty.get(f.args[0], ""):
            txt = " ".join(b.term[1] for b in f.blocks.values() if b.term)
            if "as_str" not in txt:
                res.violations.append({"what": "StrRead::parse_elisp_str does not pass the validating as_str to the scanner", "replayed": None})
            res.vacuity.append(("StrRead::parse_elisp_str found", True))
    res.queries += 1


CLAIMS = [
    Claim("c06_symbol_scanners", "C06", "quick", claim_symbol_scanners,
          "the byte-slice and the stream symbol scanner, each against the same specification: consume bytes one at a time up "
          "to (not including) the first of SP TAB LF CR FF ( ) [ ] ; or end of input; the slice version returns exactly "
          "input[start..index], the stream version copies exactly the consumed bytes; slice indexing stays in bounds; a str is "
          "produced only through UTF-8 validation",
          "symbols of any length (loop cut), arbitrary input bytes", configs=("fast",), also=("C12", "C17", "C03", "C01", "C13", "C11")),
    Claim("c06_string_scanners", "C06", "quick", claim_string_scanners,
          "the byte-slice and the stream R6RS string scanner against one specification: every byte up to the next quote / "
          "backslash is kept, ranges copied by the slice version run exactly from `start` to that byte, a backslash enters the "
          "escape decoder, the closing quote ends the string and is consumed, end of input is an EOF error, no index panic",
          "strings of any length (loop cut), arbitrary bytes, arbitrary escape-decoder behaviour", configs=("fast",), also=("C17", "C03", "C01", "C11")),
    Claim("c06_elisp_string_scanners", "C06", "quick", claim_elisp_string_scanners,
          "the stream and the byte-slice Emacs string scanner against one specification: classification flags start false, a raw "
          "byte > 127 (and only that) marks the string non-ASCII, escapes mark it unibyte / multibyte as the decoder reports, the "
          "closing quote yields a byte vector iff unibyte and neither multibyte nor non-ASCII, else a UTF-8-validated string; "
          "EOF error only at the end of input; no panic",
          "strings of any length (loop cut, base case), arbitrary bytes, arbitrary escape-decoder results", configs=("fast",),
          also=("C02", "C17", "C03", "C13")),
    Claim("c17_unchecked_sites", "C17", "quick", claim_str_unchecked,
          "from_utf8_unchecked in the reader occurs only in StrRead's two closures (strings, symbols) applied to the scanner "
          "output, and StrRead's Emacs string path validates",
          "all functions of parse/read.rs (call-site scan of the MIR)", configs=("fast",)),
]
