"""C19 — error classification tables and EOF-vs-syntax classification of truncated input (E2)."""
import z3

from . import common as K
from . import ctx as C
from . import replay as RP
from . import stubs as S
from .c05 import run_scanner, last_in, cur_byte, io_err_payload, bv
from .claims import Claim
from .symex import Agg, Blob, EnumV, Int, Opaque, Ref


def spec_category(code_name):
    if code_name == "Io":
        return "Io"
    if code_name.startswith("Eof"):
        return "Eof"
    return "Syntax"


def mk_error(engine, st, code):
    st.heap["errimpl"] = Agg("struct", "ErrorImpl", [code, Blob("location")])
    box = Agg("struct", "Box", [Agg("struct", "Unique", [Ref(("H", "errimpl"))]), Blob("alloc")])
    return Agg("struct", "Error", [box])


def claim_tables(cx, res, kf):
    codes = cx.enums["ErrorCode"]
    cats = cx.enums["Category"]
    # ---- classify
    fn = C.resolve_callee(cx, "Error::classify")
    eng = C.make_engine(cx, [], loop_mode="unroll", unroll=1, timeout_s=60)
    eng.stubs = S.CORE_STUBS
    info = {}

    def init(e, st, fr):
        d = z3.BitVec("code", 64)
        info["d"] = d
        code = EnumV("ErrorCode", d, {0: [Blob("ioerr")]})
        st.heap["err"] = mk_error(e, st, code)
        fr.locals[1] = Ref(("H", "err"))
        return [z3.ULT(d, bv(len(codes)))]
    terms = eng.explore(fn.name, init)
    res.absorb(eng)
    covered = set()
    for t in terms:
        pc = list(t.state.pc)
        if t.kind != "RETURN" or not isinstance(t.value, EnumV):
            res.must_be_unsat(pc, "classify: non-returning path %r" % (t,))
            continue
        got = cats[K.concrete(t.value.discr)]
        for i, nm in enumerate(codes):
            r, _ = res.solve(pc + [info["d"] == i])
            if r == z3.sat:
                covered.add(nm)
                if spec_category(nm) != got:
                    # replay natively through an input known to raise that code
                    res.violations.append({"what": "classify: ErrorCode::%s is categorised %s, documented %s" % (nm, got, spec_category(nm)),
                                           "replayed": replay_category(res, nm, spec_category(nm))})
    res.vacuity.append(("classify covers every error code", covered == set(codes)))
    # ---- From<Error> for io::Error
    fn2 = C.resolve_callee(cx, "<std::io::Error as From<Error>>::from")
    if fn2 is None:
        fn2 = C.resolve_callee(cx, "<io::Error as From<Error>>::from")
    if fn2 is None:
        cands = [f for n, f in cx.fns.items() if n.endswith("::from") and "error.rs" in n and "ErrorImpl" not in n
                 and f.local_ty.get(1, "").endswith("Error") and "io::Error" in (f.ret_ty or "")]
        fn2 = cands[0] if cands else None
    if fn2 is None:
        res.error = "From<Error> for io::Error not found"
        return
    eng = C.make_engine(cx, [], loop_mode="unroll", unroll=1, timeout_s=60)

    def h_new(engine, st, fr, callee, argv, m):
        return Opaque("io::Error", "new", {"kind": argv[0].name if isinstance(argv[0], Agg) else str(argv[0]), "inner": argv[1]})
    import re
    eng.stubs = [(re.compile(r"^std::io::Error::new::<"), h_new), (re.compile(r"<Box<ErrorImpl> as Drop>::drop"), lambda *a: Blob("()"))] + S.CORE_STUBS

    def init2(e, st, fr):
        d = z3.BitVec("code", 64)
        info["d"] = d
        code = EnumV("ErrorCode", d, {0: [Opaque("io::Error", "original", {})]})
        fr.locals[1] = mk_error(e, st, code)
        return [z3.ULT(d, bv(len(codes)))]
    terms = eng.explore(fn2.name, init2)
    res.absorb(eng)
    covered = set()
    want_kind = {"Syntax": "InvalidData", "Eof": "UnexpectedEof"}
    for t in terms:
        pc = list(t.state.pc)
        if t.kind != "RETURN":
            res.must_be_unsat(pc, "From<Error> for io::Error: reachable %s %r" % (t.kind, t.info))
            continue
        v = t.value
        for i, nm in enumerate(codes):
            r, _ = res.solve(pc + [info["d"] == i])
            if r != z3.sat:
                continue
            covered.add(nm)
            cat = spec_category(nm)
            if cat == "Io":
                if not (isinstance(v, Opaque) and v.label == "original"):
                    res.violations.append({"what": "io::Error::from(e) does not return the original I/O error for ErrorCode::Io: %r" % (v,), "replayed": None})
            else:
                if not (isinstance(v, Opaque) and v.label == "new" and v.attrs["kind"] == want_kind[cat]):
                    res.violations.append({"what": "io::Error::from(e) for ErrorCode::%s has kind %r, documented %s"
                                           % (nm, v.attrs.get("kind") if isinstance(v, Opaque) else v, want_kind[cat]), "replayed": None})
    res.vacuity.append(("io::Error conversion covers every error code", covered == set(codes)))


TRIGGERS = {
    "EofWhileParsingList": b"(a", "EofWhileParsingVector": b"#(a", "EofWhileParsingString": b"\"ab", "EofWhileParsingValue": b"",
    "EofWhileParsingCharacterConstant": b"#\\", "ExpectedSomeIdent": b"#q", "MismatchedParenthesis": b"(a]",
    "ExpectedSomeValue": b")", "ExpectedVector": b"#u8 1", "ExpectedOctet": b"#u8(256)", "InvalidEscape": b"\"\\q\"",
    "InvalidNumber": b"1.x", "InvalidSymbol": b"(. )", "NumberOutOfRange": b"1e999", "InvalidUnicodeCodePoint": b"#\\xD800 ",
    "InvalidCharacterConstant": b"#\\foo ", "TrailingCharacters": b"a b", "RecursionLimitExceeded": b"(" * 200,
}


def replay_category(res, code_name, want):
    text = TRIGGERS.get(code_name)
    if text is None:
        return None
    nat = RP.single(text, "default", "slice")
    res.replays += 1
    if "err" not in nat:
        return None
    return nat["err"]["cat"] != want.lower()


CLAIMS = [
    Claim("c19_tables", "C19", "quick", claim_tables,
          "Error::classify maps every error code to the documented category (I/O, the five EOF codes, everything else "
          "syntax) and From<Error> for io::Error returns the original error for I/O and InvalidData / UnexpectedEof "
          "otherwise, with no reachable panic",
          "all 19 error codes (symbolic discriminant)", configs=("fast",)),
]


# ----------------------------------------------------------------------------- truncation: EOF vs syntax

KF_CHAR_NAME = "eof-partial-char-name"
KF_HEX_SCALAR = "eof-partial-hex-scalar"


def eof_rule(res, eng, rd, terms, what, candidates, opts="default", kf=()):
    """An error decided on a read that hit the end of input must be in the EOF category (the caller may retry with
    more data). `candidates`: truncated texts (each a proper prefix of a valid datum) for native confirmation."""
    codes = eng.enums["ErrorCode"]
    n_err = 0

    def onm(m):
        for text in candidates:
            nat = RP.single(text, opts, "slice")
            res.replays += 1
            if "err" in nat and nat["err"]["cat"] != "eof":
                return {"replayed": True, "observed": nat,
                        "witness": {"kind": "parse", "input_hex": text.hex(), "opts": opts, "src": "slice", "api": "single", "fast": True,
                                    "expect": {"err": {"cat": "syntax"}}}}
        return {"replayed": False}
    for t in terms:
        if t.kind != "RETURN":
            continue
        kind, payload = K.classify_return(eng, t)
        if kind != "err":
            continue
        ci = K.err_code_index(eng, payload)
        if ci is None or spec_category(codes[ci]) != "Syntax":
            continue
        evs = t.state.events
        # the read that the error was decided on: the last reader event before the error
        ei = max(i for i, e in enumerate(evs) if e[0] == "error")
        reads = [e for e in evs[:ei] if e[0] in ("peek", "next")]
        if not reads:
            continue
        n_err += 1
        idx = reads[-1][1]
        # open known findings: value-dependent errors raised after a name / digit loop ran into the end of input
        if KF_CHAR_NAME in kf and codes[ci] == "InvalidCharacterConstant" and "parse_r6rs_char" in what:
            if KF_CHAR_NAME not in res.known:
                res.known.append(KF_CHAR_NAME)
            continue
        if KF_HEX_SCALAR in kf and codes[ci] in ("InvalidUnicodeCodePoint", "InvalidEscape") and \
                any(e[0] == "from_u32" for e in evs[evs.index(reads[-1]):ei]):
            if KF_HEX_SCALAR not in res.known:
                res.known.append(KF_HEX_SCALAR)
            continue
        res.must_be_unsat(list(t.state.pc) + [z3.UGE(idx, rd.len), idx != rd.err_at],
                          "%s: end of input is reported as a syntax error (%s), not as an EOF error" % (what, codes[ci]), onm)
    return n_err


def claim_truncation(cx, res, kf):
    res.assumptions.append("rule applied only to scanner steps whose error decision depends on that one read "
                           "(expect_ident, first digit / fraction digit / exponent digit of numbers, UTF-8 continuation bytes); "
                           "character names and hex scalars at EOF are covered by the E1 kernel harness c19_char_prefix_eof")
    total = 0
    # expect_ident: the ident is a concrete byte string (one loop iteration cut)
    def mk_ident(e):
        return [Opaque("strlit", "ident", {"lit": b"il"})], [], {}
    for fname, mk, exits, cands in (
        ("parse_num_literal", lambda e: ([Int(z3.BitVecVal(16, 8), "u8"), e.sym_bool("pos")], [], {}), ["parse_num_tail", "parse_long_integer"],
         [b"#x", b"#x+", b"#x-"]),
        ("parse_num_literal", lambda e: ([Int(z3.BitVecVal(10, 8), "u8"), e.sym_bool("pos")], [], {}), ["parse_num_tail", "parse_long_integer"],
         [b"#d", b"#d-"]),
        ("parse_num_literal", lambda e: ([Int(z3.BitVecVal(2, 8), "u8"), e.sym_bool("pos")], [], {}), ["parse_num_tail", "parse_long_integer"],
         [b"#b", b"#b-", b"#o"]),
        ("parse_decimal", lambda e: ([e.sym_bool("pos"), e.sym_int("u64", "sig"), e.sym_int("i32", "exp")], [], {}), ["parse_exponent", "f64_from_parts"],
         [b"1.", b"-0.", b"(1 2."]),
        ("parse_exponent", lambda e: ([e.sym_bool("pos"), e.sym_int("u64", "sig"), e.sym_int("i32", "exp")], [], {}), ["f64_from_parts", "parse_exponent_overflow"],
         [b"1e", b"1e+", b"1.5e-", b"1E"]),
    ):
        eng, rd, fn, info, terms = run_scanner(cx, res, fname, mk, exits, [])
        total += eof_rule(res, eng, rd, terms, fname, cands)
    res.vacuity.append(("syntax-error paths examined", total >= 4))


CLAIMS += [
    Claim("c19_truncation_numbers", "C19", "quick", claim_truncation,
          "in the number scanner an error decided on a read that hit the end of input is an EOF-category error: a "
          "literal cut after its radix prefix, sign, decimal point or exponent marker is 'more data needed', not 'malformed'",
          "all paths of parse_num_literal (before its loop), parse_decimal, parse_exponent; arbitrary reader", configs=("fast",)),
]
