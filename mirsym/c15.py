"""C15 — list indexing / association-list lookup / element iteration on abstract cons cells (E2).
Complements the E1 harnesses (concrete chains of <= 4 cells): here one step from an arbitrary cell with an arbitrary cdr."""
import re

import z3

from . import common as K
from . import ctx as C
from . import stubs as S
from .claims import Claim
from .serde import sym_value
from .symex import Agg, Blob, BoolV, EnumV, Int, Opaque, Ref, UnitV, Unsupported


def bv(v, w=64):
    return z3.BitVecVal(v, w)


def cell_stubs(cx, engine):
    def unref(st, v):
        while isinstance(v, Ref):
            v = engine.load(st, v.addr)
        return v

    def h_carcdr(engine, st, fr, callee, argv, m):
        c = unref(st, argv[0])
        if isinstance(c, Opaque) and "car" in c.attrs:
            return Ref(("V", c.attrs[m.group(1)]))
        raise Unsupported("car/cdr of %r" % (c,))

    def h_value_eq(engine, st, fr, callee, argv, m):
        a, b = unref(st, argv[0]), unref(st, argv[1])
        r = z3.Bool("valeq_%d" % next(engine.fresh))
        # equal values have equal kinds
        if isinstance(a, EnumV) and isinstance(b, EnumV):
            engine.solver.add(z3.Implies(r, a.discr == b.discr))
            st.pc.append(z3.Implies(r, a.discr == b.discr))
        st.events.append(("value_eq", a, b, r))
        return BoolV(r)

    def h_optstr_eq(engine, st, fr, callee, argv, m):
        a, b = unref(st, argv[0]), unref(st, argv[1])
        r = z3.Bool("nameeq_%d" % next(engine.fresh))
        both_some = z3.And(a.discr == 1, b.discr == 1)
        both_none = z3.And(a.discr != 1, b.discr != 1)
        st.events.append(("name_eq", a, b, r))
        return BoolV(z3.Or(both_none, z3.And(both_some, r)))

    def h_find_map(engine, st, fr, callee, argv, m):
        # find_map over the cells of a list: either no cell satisfies the closure (None) or the closure is applied to
        # some cell and returns Some; modelled as: apply the closure to ONE arbitrary cell of the list
        cl = argv[1]
        f = S.closure_fn(engine, cl)
        cell = st.notes["some_cell"]
        st.events.append(("find_map",))
        return ("fork", [(z3.BoolVal(True), ("frame", f, [Ref(("V", cl)), Ref(("V", cell))], None), None)])

    def h_iter(engine, st, fr, callee, argv, m):
        return Opaque("Iter", "iter", {})
    return [
        (re.compile(r"^Cons::(car|cdr)$"), h_carcdr),
        (re.compile(r"^<&Value as PartialEq>::eq$"), h_value_eq),
        (re.compile(r"^<Option<&str> as PartialEq>::eq$"), h_optstr_eq),
        (re.compile(r"^<cons::Iter<'_> as Iterator>::find_map::<"), h_find_map),
        (re.compile(r"^Cons::iter$"), h_iter),
    ]


def claim_alist(cx, res, kf):
    VAL = cx.enums["Value"]
    NAMEK = [VAL.index(k) for k in ("String", "Symbol", "Keyword")]
    from . import replay as RP

    def replay(m):
        # native corpus: same text under different name kinds, duplicates, non-pair entries, value keys of every kind
        r = RP.run_cmd(["alistcheck"]) if hasattr(RP, "run_cmd") else None
        if r is None:
            return {"replayed": None}
        return {"replayed": bool(r.get("bad")), "observed": r.get("bad", [])[:2], "witness": {"kind": "alistcheck"}}
    for which, callee in (("value", "<Value as Index>::index_into"), ("name", "<str as Index>::index_into")):
        eng = C.make_engine(cx, [], loop_mode="unroll", unroll=2, timeout_s=120)
        eng.stubs = cell_stubs(cx, eng) + S.COMBINATOR_STUBS + S.CORE_STUBS
        fn = C.resolve_callee(cx, callee)
        info = {}

        def init(e, st, fr):
            target = sym_value(cx, e, st, "target", 0)
            entry = sym_value(cx, e, st, "entry", 1)       # the element (car) of some cell of the list
            cell = Opaque("Cons", "somecell", {"car": entry, "cdr": sym_value(cx, e, st, "rest", 0)})
            st.notes["some_cell"] = cell
            info.update(target=target, entry=entry)
            st.heap["target"] = target
            if which == "value":
                key = sym_value(cx, e, st, "key", 0)
                info["key"] = key
                st.heap["key"] = key
                fr.locals[fn.args[0]] = Ref(("H", "key"))
            else:
                fr.locals[fn.args[0]] = Ref(("V", Opaque("str", "wanted-name", {})))
            fr.locals[fn.args[1]] = Ref(("H", "target"))
            return []
        terms = eng.explore(fn.name, init)
        res.absorb(eng)
        target, entry = info["target"], info["entry"]
        inner = entry.variants[VAL.index("Cons")][0]
        ikey = inner.attrs["car"]
        found = 0
        for t in terms:
            pc = list(t.state.pc)
            if t.kind == "PANIC":
                res.must_be_unsat(pc, "index_into (%s key): reachable panic" % which, replay)
                continue
            if t.kind != "RETURN" or not isinstance(t.value, EnumV):
                continue
            some = t.value.discr == 1
            r, _ = res.solve(pc + [some])
            if r != z3.sat:
                continue
            found += 1
            veq = [e for e in t.state.events if e[0] == "value_eq"]
            neq = [e for e in t.state.events if e[0] == "name_eq"]
            base = z3.And(target.discr == VAL.index("Cons"), entry.discr == VAL.index("Cons"))
            if which == "value":
                # a hit needs: the target is a list, the entry a pair, and the entry's key EQUAL to the key value
                ok = veq and veq[-1][1] is ikey
                if not ok:
                    res.must_be_unsat(pc + [some], "lookup by value returns an entry without comparing its key with the key value for "
                                      "equality (e.g. matching by name only: a symbol key finds a string entry)", replay)
                else:
                    res.must_be_unsat(pc + [some, z3.Not(z3.And(base, veq[-1][3]))], "lookup by value hits although the keys are not equal", replay)
            else:
                ok = bool(neq)
                if not ok:
                    res.must_be_unsat(pc + [some], "lookup by name returns an entry without comparing names", replay)
                else:
                    isname = z3.Or(*[ikey.discr == k for k in NAMEK])
                    res.must_be_unsat(pc + [some, z3.Not(z3.And(base, isname, neq[-1][3]))],
                                      "lookup by name hits an entry whose key is not a string / symbol / keyword of that name", replay)
            # the hit is the entry's cdr
            rv = t.value.variants[1][0]
            while isinstance(rv, Ref) and rv.addr[0] == "V" and not isinstance(rv.addr[1], EnumV):
                rv = rv.addr[1]
            if not (isinstance(rv, Ref) and rv.addr[1] is inner.attrs["cdr"]):
                res.violations.append({"what": "lookup (%s key) returns something other than the cdr of the matching entry" % which, "replayed": None})
        res.vacuity.append(("lookup by %s can hit" % which, found >= 1))


def claim_append(cx, res, kf):
    """Value::append (and Value::list = append(xs, ())): the construction protocol, one loop step from an arbitrary state."""
    from . import confirm as CF
    from . import replay as RP
    fn = None
    for name, f in cx.fns.items():
        if "lexpr/src/value/mod.rs" in name and name.endswith("::append") and len(f.args) == 2:
            fn = f
    if fn is None:
        res.error = "Value::append not found"
        return
    eng = C.make_engine(cx, [], loop_mode="cut", timeout_s=60, max_paths=2000)
    info = {}

    def unref(st, v):
        while isinstance(v, Ref):
            v = eng.load(st, v.addr)
        return v

    def h_new(engine, st, fr, callee, argv, m):
        return Opaque("Cons", "head", {})

    def h_iter(engine, st, fr, callee, argv, m):
        return Opaque("Iter", "elements", {})

    def h_next(engine, st, fr, callee, argv, m):
        n = st.notes.get("nnext", 0) + 1
        st.notes["nnext"] = n
        some = z3.Bool("next_%d_some" % n)
        st.events.append(("next", some))
        return S.mk_option(some, Opaque("Item", "item%d" % n, {}))

    def h_fresh(engine, st, fr, callee, argv, m):
        return Opaque("Value", "fresh (#nil . ()) cell", {})

    def h_set(engine, st, fr, callee, argv, m):
        st.events.append((m.group(1), unref(st, argv[0]), unref(st, argv[1])))
        return UnitV()

    def h_cdr_mut(engine, st, fr, callee, argv, m):
        return Ref(("V", Opaque("Value", "cdr", {"of": unref(st, argv[0])})))

    def h_as_cons_mut(engine, st, fr, callee, argv, m):
        v = unref(st, argv[0])
        return S.mk_option(True, Ref(("V", Opaque("Cons", "cell in", {"of": v}))))

    def h_into(engine, st, fr, callee, argv, m):
        return Opaque("Value", "into", {"of": unref(st, argv[0])})
    eng.stubs = [
        (re.compile(r"^Cons::new::<"), h_new), (re.compile(r"^<I as IntoIterator>::into_iter$"), h_iter),
        (re.compile(r"^<<I as IntoIterator>::IntoIter as IntoIterator>::into_iter$"), lambda e, st, fr, c, a, m: a[0]),
        (re.compile(r"^<<I as IntoIterator>::IntoIter as Iterator>::next$"), h_next),
        # a size hint promises nothing about an arbitrary iterator beyond lower <= upper: arbitrary values
        (re.compile(r"^<<I as IntoIterator>::IntoIter as Iterator>::size_hint$"),
         lambda e, st, fr, c, a, m: Agg("tuple", None, [e.sym_int("usize", "hint_lo"), S.mk_option(e.sym_bool("hint_has_hi").e, e.sym_int("usize", "hint_hi"))])),
        (re.compile(r"^<Value as From<\(Value, Value\)>>::from$"), h_fresh),
        (re.compile(r"^Cons::(set_cdr|set_car)::<"), h_set), (re.compile(r"^Cons::cdr_mut$"), h_cdr_mut),
        (re.compile(r"^Value::as_cons_mut$"), h_as_cons_mut),
        (re.compile(r"^<(?:<I as IntoIterator>::Item|T) as Into<Value>>::into$"), h_into),
    ] + S.COMBINATOR_STUBS + S.CORE_STUBS
    hv_l, pair_l = fn.local_by_debug("have_value"), fn.local_by_debug("pair")

    def init(e, st, fr):
        fr.locals[fn.args[0]] = Opaque("I", "elements arg", {})
        fr.locals[fn.args[1]] = Opaque("T", "tail arg", {})
        st.notes["in"] = ()
        return []

    def havoc(e, st, fr, bb):
        cur = Opaque("Cons", "current pair", {})
        info["arrive_pair"] = unref(st, fr.locals.get(pair_l))
        fr.locals[pair_l] = Ref(("V", cur))
        st.notes["in"] = st.notes["in"] + ((bb, {"hv": fr.locals[hv_l].e, "pair": cur, "nev": len(st.events)}),)
        return []
    eng.havoc_hook = havoc
    terms = eng.explore(fn.name, init)
    res.absorb(eng)

    def onm(m=None):
        cases = [("plain", "L0 I:3"), ("plain", "L0 L2 I:4 I:5 U"), ("plain", "L0 U"), ("plain", "L1 I:1 I:2"), ("plain", "L2 I:1 I:2 L1 I:3 U"), ("plain", "L0 S:61")]
        want = [b"3", b"(4 5)", b"()", b"(1 . 2)", b"(1 2 3)", b'"a"']
        got = RP.print_batch(cases)
        res.replays += len(cases)
        for c, w, g in zip(cases, want, got):
            if g != w:
                return {"replayed": True, "observed": {"append_descriptor": c[1], "printed": g.decode("latin-1") if isinstance(g, bytes) else g, "expected": w.decode()},
                        "witness": {"kind": "print", "value": c[1], "print_opts": "plain", "expect_text_hex": w.hex(), "fast": True}}
        return {"replayed": False}
    seen = {"step_first": 0, "step_more": 0, "end_some": 0, "end_none": 0}
    base_done = set()
    for t in terms:
        st = t.state
        pc = list(st.pc)
        if t.kind == "PANIC":
            res.must_be_unsat(pc, "Value::append: reachable panic", onm)
            continue
        if not st.notes["in"]:
            if t.kind == "RETURN":
                from . import confirm as CF
                res.must_be_unsat(pc, "Value::append returns before asking the iterator for a single element (a size hint promises nothing "
                                  "about what an arbitrary iterator will yield)", CF.confirm(("conswalk",), res))
            continue
        arr = st.notes.get("arrivals", ())
        if arr and id(arr[0][1]) not in base_done:
            base_done.add(id(arr[0][1]))
            a = arr[0][1]
            hv0 = a["locals"].get(hv_l)
            ok_pair = isinstance(info.get("arrive_pair"), Opaque) and info["arrive_pair"].label == "head"
            if hv0 is None or not ok_pair:
                res.violations.append({"what": "Value::append: the loop does not start at the head cell", "replayed": None})
            else:
                res.must_be_unsat(list(st.pc[:a["pc_len"]]) + [hv0.e], "Value::append starts as if an element had already been stored", onm)
        hb, rec = st.notes["in"][-1]
        hv, P = rec["hv"], rec["pair"]
        evs = st.events[rec["nev"]:]
        nxt = [e for e in evs if e[0] == "next"]
        sets = [e for e in evs if e[0] in ("set_cdr", "set_car")]
        if not nxt:
            continue
        some = nxt[0][1]
        if t.kind == "LOOP_BACK":
            res.must_be_unsat(pc + [z3.Not(some)], "Value::append continues after the elements are exhausted", onm)
            fr = st.frames[-1]
            res.must_be_unsat(pc + [z3.Not(fr.locals[hv_l].e)], "Value::append forgets that an element has been stored", onm)
            r, _ = res.solve(pc + [hv])
            more = (r == z3.sat) and len(sets) == 2
            if more:
                seen["step_more"] += 1
                c, a2 = sets
                okc = c[0] == "set_cdr" and c[1] is P and isinstance(c[2], Opaque) and c[2].label.startswith("fresh")
                newp = a2[1]
                okp = isinstance(newp, Opaque) and newp.label == "cell in" and isinstance(newp.attrs.get("of"), Opaque) and newp.attrs["of"].attrs.get("of") is P
                oka = a2[0] == "set_car" and okp and isinstance(a2[2], Opaque) and a2[2].label == "into" and a2[2].attrs["of"].label.startswith("item")
                if not (okc and oka):
                    res.must_be_unsat(pc, "Value::append: a further element is not stored in a fresh cell linked behind the current one", onm)
            elif len(sets) == 1:
                seen["step_first"] += 1
                a2 = sets[0]
                oka = a2[0] == "set_car" and a2[1] is P and isinstance(a2[2], Opaque) and a2[2].label == "into"
                res.must_be_unsat(pc + [hv], "Value::append overwrites the current element instead of linking a new cell", onm)
                if not oka:
                    res.must_be_unsat(pc, "Value::append: the first element is not stored in the head cell", onm)
            else:
                res.must_be_unsat(pc, "Value::append: unexpected construction steps %r" % [e[0] for e in sets], onm)
            continue
        if t.kind != "RETURN":
            continue
        res.must_be_unsat(pc + [some], "Value::append returns while elements remain", onm)
        v = t.value
        if len(sets) == 1 and sets[0][0] == "set_cdr":
            seen["end_some"] += 1
            tail_ok = sets[0][1] is P and isinstance(sets[0][2], Opaque) and sets[0][2].label == "into" and sets[0][2].attrs["of"].label == "tail arg"
            ret_ok = isinstance(v, EnumV) and v.name == "Value" and K.concrete(v.discr) == cx.enums["Value"].index("Cons") and \
                isinstance(v.variants[K.concrete(v.discr)][0], Opaque) and v.variants[K.concrete(v.discr)][0].label == "head"
            res.must_be_unsat(pc + [z3.Not(hv)], "Value::append links a tail into an empty chain", onm)
            if not (tail_ok and ret_ok):
                res.must_be_unsat(pc, "Value::append: the given tail is not stored as the cdr of the last cell / the chain is not what is returned", onm)
        elif not sets:
            seen["end_none"] += 1
            res.must_be_unsat(pc + [hv], "Value::append drops the collected elements", onm)
            ret_ok = isinstance(v, Opaque) and v.label == "into" and v.attrs["of"].label == "tail arg"
            if not ret_ok:
                res.must_be_unsat(pc, "Value::append of no elements does not return the given tail (an empty list of elements with a non-empty tail is lost)", onm)
        else:
            res.must_be_unsat(pc, "Value::append: unexpected final steps %r" % [e[0] for e in sets], onm)
    for k, n in seen.items():
        res.vacuity.append(("Value::append reaches %s" % k, n > 0))


CLAIMS = [
    Claim("c15_alist_lookup", "C15", "quick", claim_alist,
          "association-list lookup, for an arbitrary target and an arbitrary entry of it: lookup by value hits only a pair "
          "whose key EQUALS the key value (same kind and payload) and returns that pair's cdr; lookup by name hits only a "
          "pair whose key is a string, symbol or keyword with that name; anything that is not a list gives None",
          "arbitrary kinds of target, entry, entry key and lookup key (one arbitrary list cell; `first match` is std's find_map)",
          configs=("fast",)),
    Claim("c15_append_protocol", "C15", "quick", claim_append,
          "Value::append / Value::list build the chain they document: starts at the head cell with nothing stored; every element "
          "goes into the current cell (first) or a fresh cell linked behind it; at the end the given tail becomes the cdr of "
          "the last cell and the chain is returned, or, with no elements, the tail itself is returned",
          "any number of elements (loop cut, base case checked), abstract element / tail conversions", configs=("fast",)),
]
