"""C15 — list indexing / association-list lookup / element iteration on abstract cons cells (E2).
Complements the E1 harnesses (concrete chains of <= 4 cells): here one step from an arbitrary cell with an arbitrary cdr."""
import re

import z3

from . import common as K
from . import ctx as C
from . import stubs as S
from .claims import Claim
from .serde import sym_value
from .symex import Agg, Blob, BoolV, EnumV, Int, Opaque, Ref, UnitV, Unsupported


def bv(v, w=64):
    return z3.BitVecVal(v, w)


def cell_stubs(cx, engine):
    def unref(st, v):
        while isinstance(v, Ref):
            v = engine.load(st, v.addr)
        return v

    def h_carcdr(engine, st, fr, callee, argv, m):
        c = unref(st, argv[0])
        if isinstance(c, Opaque) and "car" in c.attrs:
            return Ref(("V", c.attrs[m.group(1)]))
        raise Unsupported("car/cdr of %r" % (c,))

    def h_value_eq(engine, st, fr, callee, argv, m):
        a, b = unref(st, argv[0]), unref(st, argv[1])
        r = z3.Bool("valeq_%d" % next(engine.fresh))
        # equal values have equal kinds
        if isinstance(a, EnumV) and isinstance(b, EnumV):
            engine.solver.add(z3.Implies(r, a.discr == b.discr))
            st.pc.append(z3.Implies(r, a.discr == b.discr))
        st.events.append(("value_eq", a, b, r))
        return BoolV(r)

    def h_optstr_eq(engine, st, fr, callee, argv, m):
        a, b = unref(st, argv[0]), unref(st, argv[1])
        r = z3.Bool("nameeq_%d" % next(engine.fresh))
        both_some = z3.And(a.discr == 1, b.discr == 1)
        both_none = z3.And(a.discr != 1, b.discr != 1)
        st.events.append(("name_eq", a, b, r))
        return BoolV(z3.Or(both_none, z3.And(both_some, r)))

    def h_find_map(engine, st, fr, callee, argv, m):
        # find_map over the cells of a list: either no cell satisfies the closure (None) or the closure is applied to
        # some cell and returns Some; modelled as: apply the closure to ONE arbitrary cell of the list
        cl = argv[1]
        f = S.closure_fn(engine, cl)
        cell = st.notes["some_cell"]
        st.events.append(("find_map",))
        return ("fork", [(z3.BoolVal(True), ("frame", f, [Ref(("V", cl)), Ref(("V", cell))], None), None)])

    def h_iter(engine, st, fr, callee, argv, m):
        return Opaque("Iter", "iter", {})
    return [
        (re.compile(r"^Cons::(car|cdr)$"), h_carcdr),
        (re.compile(r"^<&Value as PartialEq>::eq$"), h_value_eq),
        (re.compile(r"^<Option<&str> as PartialEq>::eq$"), h_optstr_eq),
        (re.compile(r"^<cons::Iter<'_> as Iterator>::find_map::<"), h_find_map),
        (re.compile(r"^Cons::iter$"), h_iter),
    ]


def claim_alist(cx, res, kf):
    VAL = cx.enums["Value"]
    NAMEK = [VAL.index(k) for k in ("String", "Symbol", "Keyword")]
    from . import replay as RP

    def replay(m):
        # native corpus: same text under different name kinds, duplicates, non-pair entries, value keys of every kind
        r = RP.run_cmd(["alistcheck"]) if hasattr(RP, "run_cmd") else None
        if r is None:
            return {"replayed": None}
        return {"replayed": bool(r.get("bad")), "observed": r.get("bad", [])[:2], "witness": {"kind": "alistcheck"}}
    for which, callee in (("value", "<Value as Index>::index_into"), ("name", "<str as Index>::index_into")):
        eng = C.make_engine(cx, [], loop_mode="unroll", unroll=2, timeout_s=120)
        eng.stubs = cell_stubs(cx, eng) + S.COMBINATOR_STUBS + S.CORE_STUBS
        fn = C.resolve_callee(cx, callee)
        info = {}

        def init(e, st, fr):
            target = sym_value(cx, e, st, "target", 0)
            entry = sym_value(cx, e, st, "entry", 1)       # the element (car) of some cell of the list
            cell = Opaque("Cons", "somecell", {"car": entry, "cdr": sym_value(cx, e, st, "rest", 0)})
            st.notes["some_cell"] = cell
            info.update(target=target, entry=entry)
            st.heap["target"] = target
            if which == "value":
                key = sym_value(cx, e, st, "key", 0)
                info["key"] = key
                st.heap["key"] = key
                fr.locals[fn.args[0]] = Ref(("H", "key"))
            else:
                fr.locals[fn.args[0]] = Ref(("V", Opaque("str", "wanted-name", {})))
            fr.locals[fn.args[1]] = Ref(("H", "target"))
            return []
        terms = eng.explore(fn.name, init)
        res.absorb(eng)
        target, entry = info["target"], info["entry"]
        inner = entry.variants[VAL.index("Cons")][0]
        ikey = inner.attrs["car"]
        found = 0
        for t in terms:
            pc = list(t.state.pc)
            if t.kind == "PANIC":
                res.must_be_unsat(pc, "index_into (%s key): reachable panic" % which, replay)
                continue
            if t.kind != "RETURN" or not isinstance(t.value, EnumV):
                continue
            some = t.value.discr == 1
            r, _ = res.solve(pc + [some])
            if r != z3.sat:
                continue
            found += 1
            veq = [e for e in t.state.events if e[0] == "value_eq"]
            neq = [e for e in t.state.events if e[0] == "name_eq"]
            base = z3.And(target.discr == VAL.index("Cons"), entry.discr == VAL.index("Cons"))
            if which == "value":
                # a hit needs: the target is a list, the entry a pair, and the entry's key EQUAL to the key value
                ok = veq and veq[-1][1] is ikey
                if not ok:
                    res.must_be_unsat(pc + [some], "lookup by value returns an entry without comparing its key with the key value for "
                                      "equality (e.g. matching by name only: a symbol key finds a string entry)", replay)
                else:
                    res.must_be_unsat(pc + [some, z3.Not(z3.And(base, veq[-1][3]))], "lookup by value hits although the keys are not equal", replay)
            else:
                ok = bool(neq)
                if not ok:
                    res.must_be_unsat(pc + [some], "lookup by name returns an entry without comparing names", replay)
                else:
                    isname = z3.Or(*[ikey.discr == k for k in NAMEK])
                    res.must_be_unsat(pc + [some, z3.Not(z3.And(base, isname, neq[-1][3]))],
                                      "lookup by name hits an entry whose key is not a string / symbol / keyword of that name", replay)
            # the hit is the entry's cdr
            rv = t.value.variants[1][0]
            while isinstance(rv, Ref) and rv.addr[0] == "V" and not isinstance(rv.addr[1], EnumV):
                rv = rv.addr[1]
            if not (isinstance(rv, Ref) and rv.addr[1] is inner.attrs["cdr"]):
                res.violations.append({"what": "lookup (%s key) returns something other than the cdr of the matching entry" % which, "replayed": None})
        res.vacuity.append(("lookup by %s can hit" % which, found >= 1))


CLAIMS = [
    Claim("c15_alist_lookup", "C15", "quick", claim_alist,
          "association-list lookup, for an arbitrary target and an arbitrary entry of it: lookup by value hits only a pair "
          "whose key EQUALS the key value (same kind and payload) and returns that pair's cdr; lookup by name hits only a "
          "pair whose key is a string, symbol or keyword with that name; anything that is not a list gives None",
          "arbitrary kinds of target, entry, entry key and lookup key (one arbitrary list cell; `first match` is std's find_map)",
          configs=("fast",)),
]
