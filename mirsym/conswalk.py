"""E2: the hand-written `Clone` and `PartialEq` of `Cons` walk the chain cell by cell and do what a structural clone /
comparison does (C15: the cloned conversions return xs and t; C20: comparisons are coherent).

Cells are aggregates in the engine's heap; `Cons::car/cdr/new/set_cdr/cdr_mut`, `Value::as_cons_mut`, `Value::clone` and
`Value == Value` are stubs with their documented meaning (the clone / comparison of ONE car or of a non-pair tail is an
abstract, labelled operation).  One loop step from an arbitrary cursor state (loop cut) plus the base case.

clone: the copy starts as (clone(self.car) . ()), the cursor at self and the tail cursor at that cell; while the cdr of the
cursor is a pair, a fresh cell (clone(next.car) . ()) is linked behind the tail cell and both cursors advance, nothing else
is touched; otherwise the clone of exactly that cdr becomes the cdr of the tail cell and the head cell is returned.
eq: false as soon as the cars of the two cursors differ; both cdrs pairs -> both cursors advance; otherwise the result is
the comparison of exactly the two cdrs."""
import re

import z3

from . import common as K
from . import ctx as C
from . import stubs as S
from .claims import Claim
from .symex import Agg, Blob, BoolV, EnumV, Int, Opaque, Ref, UnitV, Unsupported, Uninit


def find_impl(cx, op, nargs):
    callee = "<Cons as Clone>::clone" if op == "clone" else "<Cons as PartialEq>::eq"
    fn = C.resolve_callee(cx, callee)
    if fn is None:
        cands = [f for n, f in cx.fns.items() if "lexpr/src/cons.rs" in n and n.endswith("::" + op)
                 and f.local_ty.get(f.args[0], "").strip() in ("&cons::Cons", "&Cons") and len(f.args) == nargs]
        fn = cands[0] if cands else None
    return fn


def src_cell(eng, label):
    """abstract source cell: (car . cdr) with a cdr of symbolic kind; behind a pair cdr sits a further abstract cell"""
    VAL = eng.enums["Value"]
    CONS = VAL.index("Cons")
    d = z3.BitVec(label + "_cdr_kind", 64)
    nxt = Agg("struct", "Cons", [Opaque("Value", label + ".next.car"), Opaque("Value", label + ".next.cdr")])
    variants = {i: [Opaque("payload", "%s.cdr.%s" % (label, v))] for i, v in enumerate(VAL) if i != CONS}
    variants[CONS] = [nxt]
    cdr = EnumV("Value", d, variants)
    cons = z3.ULT(d, z3.BitVecVal(len(VAL), 64))
    return Agg("struct", "Cons", [Opaque("Value", label + ".car"), cdr]), d, cons


def walk_stubs(cx, eng):
    VAL = eng.enums["Value"]
    CONS = VAL.index("Cons")

    def addr_of(r):
        if not isinstance(r, Ref):
            raise Unsupported("cell reference %r" % (r,))
        return r.addr

    def deref2(st, r):
        """&&Value -> address of the Value"""
        a = addr_of(r)
        v = eng.load(st, a)
        return v.addr if isinstance(v, Ref) else a

    def h_car(e, st, fr, callee, argv, m):
        return Ref(addr_of(argv[0]) + (("f", 0),))

    def h_cdr(e, st, fr, callee, argv, m):
        return Ref(addr_of(argv[0]) + (("f", 1),))

    def h_vclone(e, st, fr, callee, argv, m):
        a = addr_of(argv[0])
        st.events.append(("vclone", a))
        return Opaque("Value", "clone", {"of": a})

    def h_veq(e, st, fr, callee, argv, m):
        a, b = deref2(st, argv[0]), deref2(st, argv[1])
        r = z3.Bool("veq_%d" % next(e.fresh))
        st.events.append(("veq", a, b, r))
        return BoolV(r if m.group(1) == "eq" else z3.Not(r))

    def h_new(e, st, fr, callee, argv, m):
        st.events.append(("new",))
        return Agg("struct", "Cons", [argv[0], argv[1]])

    def h_set_cdr(e, st, fr, callee, argv, m):
        a = addr_of(argv[0])
        v = argv[1]
        if isinstance(v, Agg) and v.name == "Cons":
            v = EnumV("Value", CONS, {CONS: [v]})
        st.events.append(("set_cdr", a, v))
        e.store(st, a + (("f", 1),), v)
        return UnitV()

    def h_set_car(e, st, fr, callee, argv, m):
        a = addr_of(argv[0])
        st.events.append(("set_car", a, argv[1]))
        e.store(st, a + (("f", 0),), argv[1])
        return UnitV()

    def h_cdr_mut(e, st, fr, callee, argv, m):
        return Ref(addr_of(argv[0]) + (("f", 1),))

    def h_as_cons_mut(e, st, fr, callee, argv, m):
        a = addr_of(argv[0])
        v = e.load(st, a)
        if isinstance(v, EnumV) and v.name == "Value" and K.concrete(v.discr) == CONS:
            return S.mk_option(True, Ref(a + (("v", "Cons"), ("f", 0))))
        return S.mk_option(False, None)

    def h_box_derived(e, st, fr, callee, argv, m):
        st.events.append(("boxed_pair_op", m.group(1)))
        raise Unsupported("Cons::%s works on the boxed pair as a whole (derived implementation): not a cell walk" % m.group(1))

    return [
        (re.compile(r"^Cons::car$"), h_car), (re.compile(r"^Cons::cdr$"), h_cdr),
        (re.compile(r"^<Value as Clone>::clone$"), h_vclone),
        (re.compile(r"^<(?:&)?Value as PartialEq>::(eq|ne)$"), h_veq),
        (re.compile(r"^Cons::new::<"), h_new), (re.compile(r"^Cons::set_cdr::<"), h_set_cdr), (re.compile(r"^Cons::set_car::<"), h_set_car),
        (re.compile(r"^Cons::cdr_mut$"), h_cdr_mut), (re.compile(r"^Value::as_cons_mut$"), h_as_cons_mut),
        (re.compile(r"^Option::<&mut .*>::(expect|unwrap)$"), lambda e, st, fr, c, a, m: S.h_expect(e, st, a, m)),
        (re.compile(r"^<Box<\(Value, Value\)> as (?:Clone|PartialEq)>::(clone|eq|ne)$"), h_box_derived),
    ]


def same(eng, a, b):
    if isinstance(a, Opaque) and isinstance(b, Opaque):
        return a.ty == b.ty and a.label == b.label and a.attrs.get("of") == b.attrs.get("of")
    if isinstance(a, Agg) and isinstance(b, Agg):
        return len(a.fields) == len(b.fields) and all(same(eng, x, y) for x, y in zip(a.fields, b.fields))
    if isinstance(a, EnumV) and isinstance(b, EnumV):
        da, db = K.concrete(a.discr), K.concrete(b.discr)
        if a.name != b.name or da is None or da != db:
            return False
        fa, fb = a.variants.get(da, []), b.variants.get(db, [])
        return len(fa) == len(fb) and all(same(eng, x, y) for x, y in zip(fa, fb))
    if isinstance(a, Ref) and isinstance(b, Ref):
        return a.addr == b.addr
    return False


def native_clone_eq(res):
    from . import confirm as CF
    return CF.confirm(("conswalk", "alist"), res)


def claim_clone(cx, res, kf):
    fn = find_impl(cx, "clone", 1)
    if fn is None:
        res.error = "Cons::clone not found in the MIR dump"
        return
    eng = C.make_engine(cx, [], loop_mode="cut", timeout_s=120, max_paths=2000)
    eng.stubs = walk_stubs(cx, eng) + S.COMBINATOR_STUBS + S.CORE_STUBS
    VAL = eng.enums["Value"]
    CONS, NULL = VAL.index("Cons"), VAL.index("Null")
    Null = EnumV("Value", NULL, {NULL: []})
    info = {}
    try:
        l_head, l_tail, l_cur = fn.local_by_debug("head"), fn.local_by_debug("tail"), fn.local_by_debug("cursor")
    except Exception:
        l_head = l_tail = l_cur = None
    if None in (l_head, l_tail, l_cur):
        res.error = "unsupported: Cons::clone has no locals named head / tail / cursor (not the cell walk this claim is about)"
        return
    onm = native_clone_eq(res)

    def init(e, st, fr):
        cell, d, c = src_cell(e, "self")
        st.heap["self"] = cell
        fr.locals[fn.args[0]] = Ref(("H", "self"))
        return [c]

    def havoc(e, st, fr, bb):
        info["arrival"] = st.notes["arrivals"][-1][1]["locals"]
        info["uid"] = fr.uid
        cell, d, c = src_cell(e, "cur")
        st.heap["cur"] = cell
        st.heap["tailcell"] = Agg("struct", "Cons", [Opaque("Value", "tail.car"), Null])
        fr.locals[l_cur] = Ref(("H", "cur"))
        fr.locals[l_tail] = Ref(("H", "tailcell"))
        fr.locals[l_head] = Opaque("Cons", "head")
        info["d"] = d
        st.notes["events_at_header"] = len(st.events)
        return [c]
    eng.havoc_hook = havoc
    terms = eng.explore(fn.name, init)
    res.absorb(eng)
    # base case
    arr, uid = info.get("arrival"), info.get("uid")
    if arr is None:
        res.must_be_unsat([], "Cons::clone: no loop over the cells found", onm)
        return
    exp_head = Agg("struct", "Cons", [Opaque("Value", "clone", {"of": ("H", "self", ("f", 0))}), Null])
    hd, tl, cu = arr.get(l_head), arr.get(l_tail), arr.get(l_cur)
    if not (same(eng, hd, exp_head) and isinstance(tl, Ref) and tl.addr == ("L", uid, l_head) and isinstance(cu, Ref) and cu.addr == ("H", "self")):
        res.must_be_unsat([], "Cons::clone: the walk does not start with the copy (clone(self.car) . ()), the tail cursor at it and the "
                          "cursor at self (head=%r tail=%r cursor=%r)" % (hd, tl, cu), onm)
    seen = {"advance": 0, "finish": 0}
    d = info["d"]
    for t in terms:
        pc = list(t.state.pc)
        if t.kind == "PANIC":
            res.must_be_unsat(pc, "Cons::clone: reachable panic `%s`" % t.info["msg"], onm)
            continue
        st = t.state
        r1, _ = res.solve(pc + [d == CONS])
        r2, _ = res.solve(pc + [d != CONS])
        if r1 == z3.sat and r2 == z3.sat:
            res.must_be_unsat(pc, "Cons::clone: a step that does not look at the kind of the cursor's cdr", onm)
            continue
        is_pair = r1 == z3.sat
        cur, tc = st.heap.get("cur"), st.heap.get("tailcell")
        why = None
        if not same(eng, cur.fields[0], Opaque("Value", "cur.car")) or K.concrete(z3.simplify(cur.fields[1].discr == d)) is False:
            why = "the source list is modified"
        if t.kind == "LOOP_BACK":
            seen["advance"] += 1
            fr = st.frames[0]
            exp = Agg("struct", "Cons", [Opaque("Value", "tail.car"), EnumV("Value", CONS, {CONS: [Agg("struct", "Cons", [
                Opaque("Value", "clone", {"of": ("H", "cur", ("f", 1), ("v", "Cons"), ("f", 0), ("f", 0))}), Null])]})])
            nt, nc = fr.locals.get(l_tail), fr.locals.get(l_cur)
            if not is_pair:
                why = why or "continues although the cursor's cdr is not a pair"
            elif not same(eng, tc, exp):
                why = why or "after a step the tail cell is %r, expected %r" % (tc, exp)
            elif not (isinstance(nt, Ref) and nt.addr == ("H", "tailcell", ("f", 1), ("v", "Cons"), ("f", 0))):
                why = why or "the tail cursor is %r, not the fresh cell" % (nt,)
            elif not (isinstance(nc, Ref) and nc.addr == ("H", "cur", ("f", 1), ("v", "Cons"), ("f", 0))):
                why = why or "the cursor is %r, not the next source cell" % (nc,)
        elif t.kind == "RETURN":
            seen["finish"] += 1
            exp = Agg("struct", "Cons", [Opaque("Value", "tail.car"), Opaque("Value", "clone", {"of": ("H", "cur", ("f", 1))})])
            if is_pair:
                why = why or "returns although the cursor's cdr is a pair (rest of the list dropped or cloned by a nested call)"
            elif not same(eng, tc, exp):
                why = why or "at the end the tail cell is %r, expected %r" % (tc, exp)
            elif not (isinstance(t.value, Opaque) and t.value.label == "head"):
                why = why or "returns %r, not the head cell" % (t.value,)
        else:
            why = "exploration ended in %s" % t.kind
        if why:
            res.must_be_unsat(pc, "Cons::clone: " + why, onm)
    for k, n in seen.items():
        res.vacuity.append(("Cons::clone walk: %s reached" % k, n > 0))


def claim_eq(cx, res, kf):
    fn = find_impl(cx, "eq", 2)
    if fn is None:
        res.error = "Cons::eq not found in the MIR dump"
        return
    eng = C.make_engine(cx, [], loop_mode="cut", timeout_s=120, max_paths=2000)
    eng.stubs = walk_stubs(cx, eng) + S.COMBINATOR_STUBS + S.CORE_STUBS
    VAL = eng.enums["Value"]
    CONS = VAL.index("Cons")
    info = {}
    try:
        l_a, l_b = fn.local_by_debug("a"), fn.local_by_debug("b")
    except Exception:
        l_a = l_b = None
    if None in (l_a, l_b):
        res.error = "unsupported: Cons::eq has no cursor locals named a / b (not the cell walk this claim is about)"
        return
    onm = native_clone_eq(res)

    def init(e, st, fr):
        ca, da, c1 = src_cell(e, "self")
        cb, db, c2 = src_cell(e, "other")
        st.heap["self"], st.heap["other"] = ca, cb
        fr.locals[fn.args[0]] = Ref(("H", "self"))
        fr.locals[fn.args[1]] = Ref(("H", "other"))
        return [c1, c2]

    def havoc(e, st, fr, bb):
        info["arrival"] = st.notes["arrivals"][-1][1]["locals"]
        ca, da, c1 = src_cell(e, "cura")
        cb, db, c2 = src_cell(e, "curb")
        st.heap["cura"], st.heap["curb"] = ca, cb
        fr.locals[l_a] = Ref(("H", "cura"))
        fr.locals[l_b] = Ref(("H", "curb"))
        info["da"], info["db"] = da, db
        st.notes["events_at_header"] = len(st.events)
        return [c1, c2]
    eng.havoc_hook = havoc
    terms = eng.explore(fn.name, init)
    res.absorb(eng)
    arr = info.get("arrival")
    if arr is None:
        res.must_be_unsat([], "Cons::eq: no loop over the cells found", onm)
        return
    a0, b0 = arr.get(l_a), arr.get(l_b)
    if not (isinstance(a0, Ref) and a0.addr == ("H", "self") and isinstance(b0, Ref) and b0.addr == ("H", "other")):
        res.must_be_unsat([], "Cons::eq: the walk does not start at the two operands (a=%r b=%r)" % (a0, b0), onm)
    da, db = info["da"], info["db"]
    seen = {"advance": 0, "car_differs": 0, "tails": 0}
    for t in terms:
        pc = list(t.state.pc)
        if t.kind == "PANIC":
            res.must_be_unsat(pc, "Cons::eq: reachable panic `%s`" % t.info["msg"], onm)
            continue
        st = t.state
        ev = st.events[st.notes.get("events_at_header", 0):]
        veqs = [e_ for e_ in ev if e_[0] == "veq"]
        car_cmp = [e_ for e_ in veqs if set((e_[1], e_[2])) == {("H", "cura", ("f", 0)), ("H", "curb", ("f", 0))}]
        cdr_cmp = [e_ for e_ in veqs if (e_[1], e_[2]) in ((("H", "cura", ("f", 1)), ("H", "curb", ("f", 1))), (("H", "curb", ("f", 1)), ("H", "cura", ("f", 1))))]
        other = [e_ for e_ in veqs if e_ not in car_cmp and e_ not in cdr_cmp]
        why = None
        if other:
            why = "compares %r with %r (neither the two cars nor the two cdrs of the cursors)" % (other[0][1], other[0][2])
        elif len(car_cmp) != 1:
            why = "the cars of the two cursors are compared %d times in one step" % len(car_cmp)
        if why:
            res.must_be_unsat(pc, "Cons::eq: " + why, onm)
            continue
        cars_equal = car_cmp[0][3]
        both_pairs = z3.And(da == CONS, db == CONS)
        if t.kind == "LOOP_BACK":
            seen["advance"] += 1
            fr = st.frames[0]
            na, nb = fr.locals.get(l_a), fr.locals.get(l_b)
            res.must_be_unsat(pc + [z3.Not(z3.And(cars_equal, both_pairs))],
                              "Cons::eq: continues with the next cells although the cars differ or a cdr is not a pair", onm)
            if not (isinstance(na, Ref) and na.addr == ("H", "cura", ("f", 1), ("v", "Cons"), ("f", 0))
                    and isinstance(nb, Ref) and nb.addr == ("H", "curb", ("f", 1), ("v", "Cons"), ("f", 0))):
                res.must_be_unsat(pc, "Cons::eq: after a step the cursors are %r / %r, not the two next cells" % (na, nb), onm)
        elif t.kind == "RETURN":
            rv = t.value
            if not isinstance(rv, BoolV):
                res.must_be_unsat(pc, "Cons::eq: returns %r" % (rv,), onm)
                continue
            if cdr_cmp:
                seen["tails"] += 1
                res.must_be_unsat(pc + [z3.Not(z3.And(cars_equal, z3.Not(both_pairs)))],
                                  "Cons::eq: compares the cdrs as values although the cars differ or both cdrs are pairs (nested call per cell)", onm)
                res.must_be_unsat(pc + [rv.e != cdr_cmp[0][3]], "Cons::eq: the result is not the comparison of the two cdrs", onm)
            else:
                seen["car_differs"] += 1
                res.must_be_unsat(pc + [cars_equal], "Cons::eq: returns without comparing the cdrs although the cars are equal", onm)
                res.must_be_unsat(pc + [rv.e], "Cons::eq: true although the cars differ", onm)
        else:
            res.must_be_unsat(pc, "Cons::eq: exploration ended in %s" % t.kind, onm)
    for k, n in seen.items():
        res.vacuity.append(("Cons::eq walk: %s reached" % k, n > 0))


def claim_into_iter(cx, res, kf):
    """The consuming iterator (C15: "yields each element once with the tail attached to the last"): `Cons::into_iter` starts at the
    cell itself; `IntoIter::next` from any cursor state: exhausted -> None; at a cell -> (car, None) and the cursor moves to the next
    cell when the cdr is a pair, else (car, Some(cdr)) and the iterator is exhausted."""
    from . import confirm as CF
    onm = CF.confirm(("conswalk",), res)
    VAL = cx.enums["Value"]
    CONS = VAL.index("Cons")
    key = fn = None
    for n, f in cx.fns.items():
        if "lexpr/src/cons.rs" in n and n.endswith("::next") and "IntoIter" in f.local_ty.get(f.args[0], ""):
            key, fn = n, f
    if fn is None:
        res.error = "cons::IntoIter::next not found"
        return
    eng = C.make_engine(cx, [], loop_mode="cut", timeout_s=60, max_paths=500)
    info = {}

    def h_take(e, st, fr, callee, argv, m):
        cur = e.load(st, argv[0].addr)
        e.store(st, argv[0].addr, EnumV("Option", 0, {}))
        st.events.append(("take",))
        return cur

    def h_into_pair(e, st, fr, callee, argv, m):
        c = argv[0]
        if not (isinstance(c, Agg) and c.name == "Cons"):
            raise Unsupported("into_pair of %r" % (c,))
        return Agg("tuple", None, [c.fields[0], c.fields[1]])
    eng.stubs = [(re.compile(r"^(?:std::option::)?Option::<Cons>::take$"), h_take), (re.compile(r"^Cons::into_pair$"), h_into_pair)] + S.COMBINATOR_STUBS + S.CORE_STUBS

    def init(e, st, fr):
        cell, d, c = src_cell(e, "cur")
        some = z3.Bool("cursor_some")
        st.heap["it"] = Agg("struct", "IntoIter", [S.mk_option(some, cell)])
        fr.locals[fn.args[0]] = Ref(("H", "it"))
        info.update(d=d, some=some)
        return [c]
    try:
        terms = eng.explore(key, init)
    except Unsupported as e:
        res.error = "unsupported: cons::IntoIter::next: %s" % e
        return
    res.absorb(eng)
    d, some = info["d"], info["some"]
    seen = {"none": 0, "more": 0, "last": 0}
    for t in terms:
        pc = list(t.state.pc)
        if t.kind != "RETURN" or not isinstance(t.value, EnumV):
            res.must_be_unsat(pc, "cons::IntoIter::next: ends in %s" % t.kind, onm)
            continue
        rd_ = K.concrete(t.value.discr)
        it = t.state.heap.get("it")
        cur = it.fields[0] if isinstance(it, Agg) else None
        cd = K.concrete(cur.discr) if isinstance(cur, EnumV) else None
        why = None
        if rd_ == 0:
            seen["none"] += 1
            res.must_be_unsat(pc + [some], "the consuming iterator ends although a cell is left", onm)
            continue
        item = t.value.variants[1][0]
        if not (isinstance(item, Agg) and len(item.fields) == 2):
            res.must_be_unsat(pc, "the consuming iterator yields %r" % (item,), onm)
            continue
        car, rest = item.fields
        res.must_be_unsat(pc + [z3.Not(some)], "the consuming iterator yields an item although it is exhausted", onm)
        if not same(eng, car, Opaque("Value", "cur.car")):
            why = "the item is %r, not the car of the current cell" % (car,)
        rk = K.concrete(rest.discr) if isinstance(rest, EnumV) else None
        if why is None and rk == 0:
            seen["more"] += 1
            res.must_be_unsat(pc + [d != CONS], "the consuming iterator drops a tail that is not a pair (yields (car, None) for the last cell)", onm)
            nxt = cur.variants.get(1, [None])[0] if cd == 1 else None
            if not (cd == 1 and isinstance(nxt, Agg) and same(eng, nxt.fields[0], Opaque("Value", "cur.next.car"))):
                why = "after an inner cell the cursor is %r, not the next cell" % (cur,)
        elif why is None and rk == 1:
            seen["last"] += 1
            res.must_be_unsat(pc + [d == CONS], "the consuming iterator ends at a cell whose cdr is a pair (rest of the list dropped)", onm)
            tail = rest.variants[1][0]
            if not (isinstance(tail, EnumV) and z3.eq(z3.simplify(tail.discr), z3.simplify(d))):
                why = "the tail attached to the last element is %r, not the cdr of the last cell" % (tail,)
            elif cd != 0:
                why = "the iterator is not exhausted after the last cell"
        elif why is None:
            why = "the item's tail slot is %r" % (rest,)
        if why:
            res.must_be_unsat(pc, "cons::IntoIter::next: " + why, onm)
    for k, n in seen.items():
        res.vacuity.append(("consuming iterator: %s reached" % k, n > 0))
    # Cons::into_iter starts at the cell itself
    for n, f in cx.fns.items():
        if "lexpr/src/cons.rs" in n and n.endswith("::into_iter") and f.ret_ty.strip().endswith("IntoIter") and len(f.args) == 1 \
                and f.local_ty.get(f.args[0], "").strip() in ("Cons", "cons::Cons"):
            eng2 = C.make_engine(cx, [], loop_mode="cut", timeout_s=60, max_paths=100)
            eng2.stubs = S.COMBINATOR_STUBS + S.CORE_STUBS
            terms = eng2.explore(n, lambda e, st, fr, f=f: fr.locals.__setitem__(f.args[0], Opaque("Cons", "self")) or [])
            res.absorb(eng2)
            for t in terms:
                v = t.value
                ok = t.kind == "RETURN" and isinstance(v, Agg) and len(v.fields) == 1 and isinstance(v.fields[0], EnumV) and K.concrete(v.fields[0].discr) == 1 \
                    and is_self(v.fields[0].variants[1][0])
                if not ok:
                    res.must_be_unsat(list(t.state.pc), "Cons::into_iter does not start at the cell itself (%r)" % (v,), onm)


def is_self(x):
    return isinstance(x, Opaque) and x.label == "self"


CLAIMS = [
    Claim("c15_into_iter", "C15", "quick", claim_into_iter,
          "the consuming iterator: Cons::into_iter starts at the cell itself; IntoIter::next from any cursor state: None when exhausted; "
          "at a cell whose cdr is a pair (car, None) and the cursor moves to that next cell; otherwise (car, Some(cdr)) and the iterator is "
          "exhausted - every element once, the tail attached to the last",
          "arbitrary cell and cdr kind (one step from any state = any list length)", configs=("fast",), also=("C16",), confirm=("conswalk",)),
    Claim("c15_clone_protocol", "C15", "quick", claim_clone,
          "Cons::clone, one loop step from an arbitrary cursor state (loop cut; cells as aggregates in the engine's heap, accessors "
          "and the clone of one car / one non-pair tail as labelled stubs) plus the base case: the copy starts as (clone(self.car) . ()) "
          "with the tail cursor at it and the cursor at self; while the cursor's cdr is a pair a fresh cell (clone(next.car) . ()) is "
          "linked behind the tail cell and both cursors advance, nothing else is touched; otherwise clone(that cdr) becomes the cdr of "
          "the tail cell and the head cell is returned; the source is never modified; no panic",
          "any list length and tail kind (one-step induction + base case)", configs=("fast",), also=("C16",), confirm=("conswalk", "alist")),
    Claim("c15_eq_protocol", "C15", "quick", claim_eq,
          "Cons::eq, one loop step from arbitrary cursors plus the base case: starts at the two operands; false as soon as the cars of "
          "the cursors differ; both cdrs pairs -> both cursors advance to the next cells; otherwise the result is the comparison of "
          "exactly the two cdrs; nothing else is compared",
          "any two list lengths and tail kinds (one-step induction + base case)", configs=("fast",), also=("C20", "C16"), confirm=("conswalk", "alist")),
]
