"""E2: the datum builders build the value and its span information IN THE SAME SHAPE (C10, C11).

parse_list_meta keeps two cursors, `pair` into the chain of cells and `meta` into the chain of `[SpanInfo; 2]` nodes.
One loop step from an arbitrary cursor state (loop cut; the cells are modelled as aggregates in the engine's heap, the
constructors / accessors of `Cons`, `Value` and `SpanInfo` are stubs with their documented meaning) must
 * store an element and ITS span information (both halves of the same nested datum) in the car slots of the two current
   nodes when nothing is stored yet, else in a fresh cell / fresh node linked behind the current ones, and advance both
   cursors to those, leaving what was stored before untouched;
 * give a dot-initial name the span from the position before the dot to the position after the name;
 * store a dotted tail and its span information in the cdr slots of the two current nodes;
 * keep the invariant (current cell's cdr is `()`, current node's second slot is the empty primitive span);
 * finally return the two head nodes.
Base case: at loop entry the cursors point at the two head nodes, both empty, and nothing is stored.
parse_vector_meta: every step pushes the value and the span information of the same nested datum, once each, onto the
two vectors that are finally returned."""
import re

import z3

from . import common as K
from . import ctx as C
from . import replay as RP
from . import stubs as S
from . import builders as B
from .claims import Claim
from .symex import Agg, Blob, BoolV, EnumV, Int, Opaque, Ref, UnitV, Unsupported, Uninit

CUR_CELL = ("H", "curcell")
CUR_META = ("H", "curmeta")


class Mismatch(Exception):
    pass


def venum(eng, name):
    vs = eng.enums.get("Value")
    if vs is None or name not in vs:
        raise Unsupported("Value::%s not found" % name)
    return vs.index(name)


def senum(eng, name):
    vs = eng.enums.get("SpanInfo")
    if vs is None or name not in vs:
        raise Unsupported("SpanInfo::%s not found" % name)
    return vs.index(name)


def is_variant(eng, v, enum, name):
    if not isinstance(v, EnumV) or v.name != enum:
        return False
    d = K.concrete(v.discr)
    return d is not None and d == eng.enums[enum].index(name)


def is_null(eng, v):
    return is_variant(eng, v, "Value", "Null")


def is_empty_prim(eng, v):
    if not is_variant(eng, v, "SpanInfo", "Prim"):
        return False
    sp = v.variants[senum(eng, "Prim")][0]
    return isinstance(sp, Opaque) and sp.label == "empty"


def is_op(v, ty, label):
    return isinstance(v, Opaque) and v.ty == ty and v.label == label


def shape_stubs(cx, engine):
    base = B.builder_stubs(cx, engine)

    def seq(st, kind):
        n = st.notes.get("nseq", 0) + 1
        st.notes["nseq"] = n
        return "%s_%d" % (kind, n)

    def h_expect(engine, st, fr, callee, argv, m):
        nm = seq(st, "item")
        is_err = z3.Bool(nm + "_err")
        st.events.append(("expect", nm, is_err, K.depth_of(cx, st).e))
        st.notes["peeked"] = None
        return S.mk_result(engine, is_err, Opaque("Datum", nm), Opaque("Error", "from:expect", {"kind": "callee"}))

    def h_into_inner(engine, st, fr, callee, argv, m):
        d = argv[0]
        if not isinstance(d, Opaque) or d.ty != "Datum":
            raise Unsupported("into_inner of %r" % (d,))
        st.events.append(("into_inner", d.label))
        return Agg("tuple", None, [Opaque("Value", d.label), Opaque("SpanInfo", d.label)])

    def h_dot_name(engine, st, fr, callee, argv, m):
        nm = seq(st, "dotname")
        is_err = z3.Bool(nm + "_err")
        st.events.append(("dotname", nm, is_err))
        st.notes["peeked"] = None
        return S.mk_result(engine, is_err, Opaque("Value", nm), Opaque("Error", "from:symbol", {"kind": "callee"}))

    def h_position(engine, st, fr, callee, argv, m):
        nm = seq(st, "pos")
        st.events.append(("position", nm))
        return Opaque("Position", nm)

    def h_span_empty(engine, st, fr, callee, argv, m):
        return Opaque("Span", "empty")

    def h_span_new(engine, st, fr, callee, argv, m):
        return Agg("struct", "Span", [argv[0], argv[1]])

    def h_cons_new(engine, st, fr, callee, argv, m):
        return Agg("struct", "Cons", [argv[0], argv[1]])

    def h_value_from_pair(engine, st, fr, callee, argv, m):
        t = argv[0]
        if not isinstance(t, Agg) or len(t.fields) != 2:
            raise Unsupported("Value::from of %r" % (t,))
        st.events.append(("newcell",))
        return EnumV("Value", venum(engine, "Cons"), {venum(engine, "Cons"): [Agg("struct", "Cons", list(t.fields))]})

    def cell_addr(r):
        if not isinstance(r, Ref):
            raise Unsupported("cell reference %r" % (r,))
        return r.addr

    def h_set_car(engine, st, fr, callee, argv, m):
        a = cell_addr(argv[0])
        st.events.append(("set_car", a, argv[1]))
        engine.store(st, a + (("f", 0),), argv[1])
        return UnitV()

    def h_set_cdr(engine, st, fr, callee, argv, m):
        a = cell_addr(argv[0])
        st.events.append(("set_cdr", a, argv[1]))
        engine.store(st, a + (("f", 1),), argv[1])
        return UnitV()

    def h_cdr_mut(engine, st, fr, callee, argv, m):
        return Ref(cell_addr(argv[0]) + (("f", 1),))

    def h_car_mut(engine, st, fr, callee, argv, m):
        return Ref(cell_addr(argv[0]) + (("f", 0),))

    def h_as_cons_mut(engine, st, fr, callee, argv, m):
        a = cell_addr(argv[0])
        v = engine.load(st, a)
        if is_variant(engine, v, "Value", "Cons"):
            return S.mk_option(True, Ref(a + (("v", "Cons"), ("f", 0))))
        return S.mk_option(False, None)

    def h_cons_mut(engine, st, fr, callee, argv, m):
        a = cell_addr(argv[0])
        v = engine.load(st, a)
        if is_variant(engine, v, "SpanInfo", "Cons"):
            return S.mk_option(True, Ref(a + (("v", "Cons"), ("f", 1), ("f", 0))))
        return S.mk_option(False, None)

    def h_box_new(engine, st, fr, callee, argv, m):
        return Agg("struct", "Box", [argv[0]])

    def h_clone(engine, st, fr, callee, argv, m):
        r = argv[0]
        if isinstance(r, Ref):
            return engine.load(st, r.addr)
        raise Unsupported("clone of %r" % (r,))

    def h_vec_new(engine, st, fr, callee, argv, m):
        nm = seq(st, "vec")
        st.events.append(("vec_new", nm))
        return Opaque("Vec", nm)

    def h_vec_push(engine, st, fr, callee, argv, m):
        r = argv[0]
        v = engine.load(st, r.addr) if isinstance(r, Ref) else r
        if not isinstance(v, Opaque) or v.ty != "Vec":
            raise Unsupported("push onto %r" % (v,))
        st.events.append(("push", v.label, argv[1]))
        return UnitV()

    P = r"^Parser::<[^>]*>::"
    mine = [
        (re.compile(P + r"expect_datum$"), h_expect),
        (re.compile(r"^(?:datum::)?Datum::into_inner$"), h_into_inner),
        (re.compile(P + r"parse_dot_name$"), h_dot_name),
        (re.compile(r"^<R as (?:parse::)?read::Read<'_>>::(position|peek_position)$"), h_position),
        (re.compile(r"^(?:datum::)?Span::empty$"), h_span_empty),
        (re.compile(r"^(?:datum::)?Span::new$"), h_span_new),
        (re.compile(r"^Cons::new::<"), h_cons_new),
        (re.compile(r"^<Value as From<\(Value, Value\)>>::from$"), h_value_from_pair),
        (re.compile(r"^Cons::set_car::<"), h_set_car),
        (re.compile(r"^Cons::set_cdr::<"), h_set_cdr),
        (re.compile(r"^Cons::cdr_mut$"), h_cdr_mut),
        (re.compile(r"^Cons::car_mut$"), h_car_mut),
        (re.compile(r"^Value::as_cons_mut$"), h_as_cons_mut),
        (re.compile(r"^(?:datum::)?SpanInfo::cons_mut$"), h_cons_mut),
        (re.compile(r"^Box::<\[SpanInfo; 2\]>::new$"), h_box_new),
        (re.compile(r"^<\[SpanInfo; 2\] as Clone>::clone$"), h_clone),
        (re.compile(r"^Option::<&mut .*>::(expect|unwrap)$"), lambda e, st, fr, c, a, m: S.h_expect(e, st, a, m)),
        (re.compile(r"^Vec::<(?:Value|SpanInfo|datum::SpanInfo|value::Value)>::new$"), h_vec_new),
        (re.compile(r"^Vec::<(?:Value|SpanInfo|datum::SpanInfo|value::Value)>::push$"), h_vec_push),
    ]
    return mine + base


def explore(cx, res, fname, generic):
    eng = C.make_engine(cx, [], loop_mode="cut", timeout_s=200, max_paths=20000)
    eng.stable_names = True
    eng.stubs = shape_stubs(cx, eng) + S.COMBINATOR_STUBS + S.CORE_STUBS
    fn = C.resolve_callee(cx, "Parser::<R>::" + fname)
    if fn is None:
        raise Unsupported("builder %s not found" % fname)
    info = {}
    dbg = {}
    for nm, pl in fn.debug_all:
        mm = re.fullmatch(r"_(\d+)", pl)
        if mm:
            dbg.setdefault(nm, int(mm.group(1)))
    info["dbg"] = dbg

    def init(e, st, fr):
        ref, cons, ov = K.parser_state(cx, e, st)
        fr.locals[1] = ref
        term = Int(z3.BitVec("terminator", 8), "u8")
        fr.locals[2] = term
        info["term"] = term.e
        return cons + [z3.Or(term.e == ord(")"), term.e == ord("]"))]

    def havoc(e, st, fr, bb):
        st.notes["events_at_header"] = len(st.events)
        st.notes["nseq"] = 0
        arr = st.notes["arrivals"][-1][1]["locals"]
        info["arrival"] = arr
        info["uid"] = fr.uid
        if generic is not None:
            generic(e, st, fr, dbg, arr, info)
        return []
    eng.havoc_hook = havoc
    terms = eng.explore(fn.name, init)
    res.absorb(eng)
    return eng, fn, info, terms


def same(eng, a, b):
    """structural identity of two engine values (labels of opaque values, concrete discriminants)"""
    if isinstance(a, Opaque) and isinstance(b, Opaque):
        return a.ty == b.ty and a.label == b.label
    if isinstance(a, Agg) and isinstance(b, Agg):
        return len(a.fields) == len(b.fields) and all(same(eng, x, y) for x, y in zip(a.fields, b.fields))
    if isinstance(a, EnumV) and isinstance(b, EnumV):
        da, db = K.concrete(a.discr), K.concrete(b.discr)
        if a.name != b.name or da is None or da != db:
            return False
        fa, fb = a.variants.get(da, []), b.variants.get(db, [])
        return len(fa) == len(fb) and all(same(eng, x, y) for x, y in zip(fa, fb))
    if isinstance(a, Ref) and isinstance(b, Ref):
        return a.addr == b.addr
    if isinstance(a, Uninit) and isinstance(b, Uninit):
        return True
    return False


def claim_list_meta_shape(cx, res, kf):
    """C10/C11: parse_list_meta stores every element / tail together with its own span information at the same place of
    the two chains."""

    onm = None

    def generic(e, st, fr, dbg, arr, info):
        for need in ("pair", "meta", "have_value", "list", "list_meta"):
            if need not in dbg:
                raise Unsupported("parse_list_meta: no local named `%s`" % need)
        Null = EnumV("Value", venum(e, "Null"), {venum(e, "Null"): []})
        P = senum(e, "Prim")
        emptyp = EnumV("SpanInfo", P, {P: [Opaque("Span", "empty")]})
        st.heap["curcell"] = Agg("struct", "Cons", [Opaque("Value", "car0"), Null])
        st.heap["curmeta"] = Agg("array", None, [Opaque("SpanInfo", "meta0"), emptyp])
        fr.locals[dbg["pair"]] = Ref(CUR_CELL)
        fr.locals[dbg["meta"]] = Ref(CUR_META)
        fr.locals[dbg["list"]] = Opaque("Cons", "head")
        fr.locals[dbg["list_meta"]] = Opaque("MetaArr", "headmeta")
        hv = z3.Bool("hv_have_value")
        fr.locals[dbg["have_value"]] = BoolV(hv)
        info["hv"] = hv
        info["Null"], info["emptyp"] = Null, emptyp

    eng, fn, info, terms = explore(cx, res, "parse_list_meta", generic)
    dbg = info["dbg"]
    uid = info["uid"]
    # ---- base case: the state in which the loop is entered
    arr = info["arrival"]
    base_ok = (isinstance(arr.get(dbg["pair"]), Ref) and arr[dbg["pair"]].addr == ("L", uid, dbg["list"])
               and isinstance(arr.get(dbg["meta"]), Ref) and arr[dbg["meta"]].addr == ("L", uid, dbg["list_meta"]))
    lst, lm, hv0 = arr.get(dbg["list"]), arr.get(dbg["list_meta"]), arr.get(dbg["have_value"])
    base_ok = base_ok and isinstance(lst, Agg) and len(lst.fields) == 2 and is_null(eng, lst.fields[1])
    base_ok = base_ok and isinstance(lm, Agg) and len(lm.fields) == 2 and is_empty_prim(eng, lm.fields[1]) and is_empty_prim(eng, lm.fields[0])
    base_ok = base_ok and isinstance(hv0, BoolV) and z3.is_false(z3.simplify(hv0.e))
    if not base_ok:
        res.must_be_unsat([], "parse_list_meta: at loop entry the cursors are not at the two empty head nodes with nothing "
                          "stored (pair=%r meta=%r list=%r list_meta=%r have_value=%r)" % (arr.get(dbg["pair"]), arr.get(dbg["meta"]), lst, lm, hv0), onm)
    res.vacuity.append(("parse_list_meta base case inspected", True))

    Null, emptyp, hv = info["Null"], info["emptyp"], info["hv"]
    seen = {"first": 0, "append": 0, "dotname": 0, "tail": 0, "ret": 0}
    for t in terms:
        pc = list(t.state.pc)
        if t.kind == "PANIC":
            res.must_be_unsat(pc, "parse_list_meta: reachable panic `%s`" % t.info["msg"], onm)
            continue
        if t.kind not in ("LOOP_BACK", "RETURN"):
            res.must_be_unsat(pc, "parse_list_meta: exploration ended in %s" % t.kind, onm)
            continue
        st = t.state
        fr = st.frames[0] if st.frames else None
        ev = B.step_events(st)
        kinds = [e_[0] for e_ in ev]
        cell, meta = st.heap.get("curcell"), st.heap.get("curmeta")
        items = [e_[1] for e_ in ev if e_[0] == "into_inner"]
        names = [e_[1] for e_ in ev if e_[0] == "dotname"]
        positions = [e_[1] for e_ in ev if e_[0] == "position"]
        r, _ = res.solve(pc + [hv])
        can_true = r == z3.sat
        r, _ = res.solve(pc + [z3.Not(hv)])
        can_false = r == z3.sat
        if can_true and can_false and (items or names):
            res.must_be_unsat(pc, "parse_list_meta: stores something without consulting have_value", onm)
            continue
        had = can_true and not can_false
        why = None
        if t.kind == "LOOP_BACK":
            # exactly one thing is stored per step
            if len(items) + len(names) != 1:
                why = "a loop step stores %d nested data and %d names (expected exactly one)" % (len(items), len(names))
            else:
                if items:
                    X, XS = Opaque("Value", items[0]), Opaque("SpanInfo", items[0])
                else:
                    X = Opaque("Value", names[0])
                    # span of a dot name: from the position read before the dot was consumed to the position after the name
                    i_dot = kinds.index("eat") if "eat" in kinds else None
                    i_nm = kinds.index("dotname")
                    before = [e_[1] for e_ in ev[:i_dot] if e_[0] == "position"] if i_dot is not None else []
                    after = [e_[1] for e_ in ev[i_nm + 1:] if e_[0] == "position"]
                    if not before or not after:
                        why = "dot name: positions not taken before the dot / after the name (events %r)" % kinds
                        XS = None
                    else:
                        P = senum(eng, "Prim")
                        XS = EnumV("SpanInfo", P, {P: [Agg("struct", "Span", [Opaque("Position", before[-1]), Opaque("Position", after[0])])]})
                pair_now, meta_now = fr.locals.get(dbg["pair"]), fr.locals.get(dbg["meta"])
                hv_now = fr.locals.get(dbg["have_value"])
                if why is None and not (isinstance(hv_now, BoolV) and z3.is_true(z3.simplify(hv_now.e))):
                    why = "have_value is not set after storing an element"
                if why is None and not had:
                    seen["first" if items else "dotname"] += 1
                    exp_cell = Agg("struct", "Cons", [X, Null])
                    exp_meta = Agg("array", None, [XS, emptyp])
                    if not same(eng, cell, exp_cell):
                        why = "first element: current cell is %r, expected %r" % (cell, exp_cell)
                    elif not same(eng, meta, exp_meta):
                        why = "first element: current span node is %r, expected %r" % (meta, exp_meta)
                    elif not (isinstance(pair_now, Ref) and pair_now.addr == CUR_CELL and isinstance(meta_now, Ref) and meta_now.addr == CUR_META):
                        why = "first element: cursors moved (pair=%r meta=%r)" % (pair_now, meta_now)
                elif why is None:
                    seen["append" if items else "dotname"] += 1
                    VC, SC = venum(eng, "Cons"), senum(eng, "Cons")
                    exp_cell = Agg("struct", "Cons", [Opaque("Value", "car0"), EnumV("Value", VC, {VC: [Agg("struct", "Cons", [X, Null])]})])
                    ok_cell = same(eng, cell, exp_cell)
                    ok_meta = (isinstance(meta, Agg) and len(meta.fields) == 2 and same(eng, meta.fields[0], Opaque("SpanInfo", "meta0"))
                               and is_variant(eng, meta.fields[1], "SpanInfo", "Cons"))
                    if ok_meta:
                        f = meta.fields[1].variants[SC]
                        ok_meta = len(f) == 2 and same(eng, f[1], Agg("struct", "Box", [Agg("array", None, [XS, emptyp])]))
                    if not ok_cell:
                        why = "further element: current cell is %r, expected %r" % (cell, exp_cell)
                    elif not ok_meta:
                        why = "further element: current span node is %r, expected [meta0, Cons(_, Box([%r, empty]))]" % (meta, XS)
                    elif not (isinstance(pair_now, Ref) and pair_now.addr == CUR_CELL + (("f", 1), ("v", "Cons"), ("f", 0))):
                        why = "further element: value cursor is %r, not the fresh cell" % (pair_now,)
                    elif not (isinstance(meta_now, Ref) and meta_now.addr == CUR_META + (("f", 1), ("v", "Cons"), ("f", 1), ("f", 0))):
                        why = "further element: span cursor is %r, not the fresh node" % (meta_now,)
        else:
            kind, payload = K.classify_return(eng, t)
            if kind == "ok":
                some = isinstance(payload, EnumV) and payload.name == "Option" and K.concrete(payload.discr) == 1
                if items:
                    seen["tail"] += 1
                    X, XS = Opaque("Value", items[-1]), Opaque("SpanInfo", items[-1])
                    exp_cell = Agg("struct", "Cons", [Opaque("Value", "car0"), X])
                    exp_meta = Agg("array", None, [Opaque("SpanInfo", "meta0"), XS])
                    if len(items) != 1 or names:
                        why = "dotted tail: %d nested data / %d names read" % (len(items), len(names))
                    elif not had:
                        why = "dotted tail stored although nothing precedes the dot"
                    elif not same(eng, cell, exp_cell):
                        why = "dotted tail: current cell is %r, expected %r" % (cell, exp_cell)
                    elif not same(eng, meta, exp_meta):
                        why = "dotted tail: current span node is %r, expected %r" % (meta, exp_meta)
                    elif not some:
                        why = "dotted tail: returns no list"
                else:
                    if not same(eng, cell, Agg("struct", "Cons", [Opaque("Value", "car0"), Null])) or \
                            not same(eng, meta, Agg("array", None, [Opaque("SpanInfo", "meta0"), emptyp])):
                        why = "list end: the chains were modified without reading anything (%r / %r)" % (cell, meta)
                    elif some != had:
                        why = "list end: returns %s although have_value is %s" % ("a list" if some else "no list", had)
                if why is None and some:
                    seen["ret"] += 1
                    tup = payload.variants[1][0]
                    if not (isinstance(tup, Agg) and len(tup.fields) == 2 and is_op(tup.fields[0], "Cons", "head") and is_op(tup.fields[1], "MetaArr", "headmeta")):
                        why = "returns %r, not (list, list_meta)" % (tup,)
            elif kind == "err":
                pass
            else:
                why = "unclassified return %r" % (kind,)
        if why:
            res.must_be_unsat(pc, "parse_list_meta: " + why, onm)
    for k, n in seen.items():
        res.vacuity.append(("parse_list_meta shape: %s reached" % k, n > 0))


def claim_list_value_shape(cx, res, kf):
    """C08/C01: parse_list (the value reader) stores every element, dot-initial name and dotted tail exactly as the nested parser
    returned it, at the right place of the chain: one loop step from an arbitrary cursor state + base case."""

    onm = None

    def generic(e, st, fr, dbg, arr, info):
        for need in ("pair", "have_value", "list"):
            if need not in dbg:
                raise Unsupported("parse_list: no local named `%s`" % need)
        Null = EnumV("Value", venum(e, "Null"), {venum(e, "Null"): []})
        st.heap["curcell"] = Agg("struct", "Cons", [Opaque("Value", "car0"), Null])
        fr.locals[dbg["pair"]] = Ref(CUR_CELL)
        fr.locals[dbg["list"]] = Opaque("Cons", "head")
        hv = z3.Bool("hv_have_value")
        fr.locals[dbg["have_value"]] = BoolV(hv)
        info["hv"], info["Null"] = hv, Null

    def value_stubs(eng):
        base = shape_stubs(cx, eng)

        def h_expect_value(engine, st, fr, callee, argv, m):
            n = st.notes.get("nseq", 0) + 1
            st.notes["nseq"] = n
            nm = "item_%d" % n
            is_err = z3.Bool(nm + "_err")
            st.events.append(("expect", nm, is_err, K.depth_of(cx, st).e))
            st.events.append(("into_inner", nm))
            st.notes["peeked"] = None
            return S.mk_result(engine, is_err, Opaque("Value", nm), Opaque("Error", "from:expect", {"kind": "callee"}))
        return [(re.compile(r"^Parser::<[^>]*>::expect_value$"), h_expect_value),
                (re.compile(r"^Value::is_\w+$"), lambda e, st, fr, c, a, m: e.sym_bool("valuepred"))] + base

    eng = C.make_engine(cx, [], loop_mode="cut", timeout_s=200, max_paths=20000)
    eng.stable_names = True
    eng.stubs = value_stubs(eng) + S.COMBINATOR_STUBS + S.CORE_STUBS
    fn = C.resolve_callee(cx, "Parser::<R>::parse_list")
    if fn is None:
        res.error = "parse_list not found"
        return
    info = {}
    dbg = {}
    for nm, pl in fn.debug_all:
        mm = re.fullmatch(r"_(\d+)", pl)
        if mm:
            dbg.setdefault(nm, int(mm.group(1)))

    def init(e, st, fr):
        ref, cons, ov = K.parser_state(cx, e, st)
        fr.locals[1] = ref
        term = Int(z3.BitVec("terminator", 8), "u8")
        fr.locals[2] = term
        return cons + [z3.Or(term.e == ord(")"), term.e == ord("]"))]

    def havoc(e, st, fr, bb):
        st.notes["events_at_header"] = len(st.events)
        st.notes["nseq"] = 0
        info["arrival"] = st.notes["arrivals"][-1][1]["locals"]
        info["uid"] = fr.uid
        generic(e, st, fr, dbg, None, info)
        return []
    eng.havoc_hook = havoc
    try:
        terms = eng.explore(fn.name, init)
    except Unsupported as e:
        res.error = "unsupported: parse_list: %s" % e
        return
    res.absorb(eng)
    arr, uid = info.get("arrival"), info.get("uid")
    if arr is None:
        res.must_be_unsat([], "parse_list: no element loop found", onm)
        return
    lst, hv0, p0 = arr.get(dbg["list"]), arr.get(dbg["have_value"]), arr.get(dbg["pair"])
    base_ok = isinstance(p0, Ref) and p0.addr == ("L", uid, dbg["list"]) and isinstance(lst, Agg) and len(lst.fields) == 2 and is_null(eng, lst.fields[1]) \
        and isinstance(hv0, BoolV) and z3.is_false(z3.simplify(hv0.e))
    if not base_ok:
        res.must_be_unsat([], "parse_list: at loop entry the cursor is not at the empty head cell with nothing stored (pair=%r list=%r have_value=%r)" % (p0, lst, hv0), onm)
    Null, hv = info["Null"], info["hv"]
    seen = {"first": 0, "append": 0, "dotname": 0, "tail": 0, "ret": 0}
    VC = venum(eng, "Cons")
    for t in terms:
        pc = list(t.state.pc)
        if t.kind == "PANIC":
            res.must_be_unsat(pc, "parse_list: reachable panic `%s`" % t.info["msg"], onm)
            continue
        if t.kind not in ("LOOP_BACK", "RETURN"):
            res.must_be_unsat(pc, "parse_list: exploration ended in %s" % t.kind, onm)
            continue
        st = t.state
        ev = B.step_events(st)
        cell = st.heap.get("curcell")
        items = [e_[1] for e_ in ev if e_[0] == "into_inner"]
        names = [e_[1] for e_ in ev if e_[0] == "dotname"]
        r, _ = res.solve(pc + [hv])
        can_true = r == z3.sat
        r, _ = res.solve(pc + [z3.Not(hv)])
        can_false = r == z3.sat
        if can_true and can_false and (items or names):
            res.must_be_unsat(pc, "parse_list: stores something without consulting have_value", onm)
            continue
        had = can_true and not can_false
        why = None
        if t.kind == "LOOP_BACK":
            fr = st.frames[0]
            if len(items) + len(names) != 1:
                why = "a loop step stores %d nested values and %d names (expected exactly one)" % (len(items), len(names))
            else:
                X = Opaque("Value", (items or names)[0])
                pair_now, hv_now = fr.locals.get(dbg["pair"]), fr.locals.get(dbg["have_value"])
                if not (isinstance(hv_now, BoolV) and z3.is_true(z3.simplify(hv_now.e))):
                    why = "have_value is not set after storing an element"
                elif not had:
                    seen["first" if items else "dotname"] += 1
                    if not same(eng, cell, Agg("struct", "Cons", [X, Null])):
                        why = "first element: current cell is %r, expected (%r . ())" % (cell, X)
                    elif not (isinstance(pair_now, Ref) and pair_now.addr == CUR_CELL):
                        why = "first element: cursor moved (%r)" % (pair_now,)
                else:
                    seen["append" if items else "dotname"] += 1
                    exp = Agg("struct", "Cons", [Opaque("Value", "car0"), EnumV("Value", VC, {VC: [Agg("struct", "Cons", [X, Null])]})])
                    if not same(eng, cell, exp):
                        why = "further element: current cell is %r, expected %r" % (cell, exp)
                    elif not (isinstance(pair_now, Ref) and pair_now.addr == CUR_CELL + (("f", 1), ("v", "Cons"), ("f", 0))):
                        why = "further element: cursor is %r, not the fresh cell" % (pair_now,)
        else:
            kind, payload = K.classify_return(eng, t)
            if kind == "ok":
                is_list = isinstance(payload, EnumV) and payload.name == "Value" and K.concrete(payload.discr) == VC
                if items:
                    seen["tail"] += 1
                    X = Opaque("Value", items[-1])
                    if len(items) != 1 or names:
                        why = "dotted tail: %d nested values / %d names read" % (len(items), len(names))
                    elif not had:
                        why = "dotted tail stored although nothing precedes the dot"
                    elif not same(eng, cell, Agg("struct", "Cons", [Opaque("Value", "car0"), X])):
                        why = "dotted tail: the last cell is %r, expected its cdr to be exactly the value read after the dot (%r)" % (cell, X)
                    elif not is_list:
                        why = "dotted tail: returns no list"
                else:
                    if not same(eng, cell, Agg("struct", "Cons", [Opaque("Value", "car0"), Null])):
                        why = "list end: the chain was modified without reading anything (%r)" % (cell,)
                    elif is_list != had:
                        why = "list end: returns %s although have_value is %s" % ("a list" if is_list else "()", had)
                if why is None and is_list:
                    seen["ret"] += 1
                    c = payload.variants[VC][0]
                    if not is_op(c, "Cons", "head"):
                        why = "returns %r, not the head cell" % (c,)
            elif kind != "err":
                why = "unclassified return %r" % (kind,)
        if why:
            res.must_be_unsat(pc, "parse_list: " + why, onm)
    for k, n in seen.items():
        res.vacuity.append(("parse_list shape: %s reached" % k, n > 0))


def claim_vector_meta_shape(cx, res, kf):
    """C10/C11: parse_vector_meta pushes value and span information of the same nested datum, once each, onto the two
    vectors it finally returns."""

    onm = None
    eng, fn, info, terms = explore(cx, res, "parse_vector_meta", None)
    dbg = info["dbg"]
    seen = {"push": 0, "ret": 0}
    for t in terms:
        pc = list(t.state.pc)
        if t.kind == "PANIC":
            res.must_be_unsat(pc, "parse_vector_meta: reachable panic `%s`" % t.info["msg"], onm)
            continue
        st = t.state
        all_ev = st.events
        vecs = [e_[1] for e_ in all_ev if e_[0] == "vec_new"]
        why = None
        if len(vecs) != 2:
            why = "creates %d vectors, expected 2" % len(vecs)
        ev = B.step_events(st)
        items = [e_[1] for e_ in ev if e_[0] == "into_inner"]
        pushes = [(e_[1], e_[2]) for e_ in ev if e_[0] == "push"]
        if why is None:
            if t.kind == "LOOP_BACK":
                seen["push"] += 1
                if len(items) != 1:
                    why = "a loop step reads %d nested data" % len(items)
                else:
                    exp = [(vecs[0], ("Value", items[0])), (vecs[1], ("SpanInfo", items[0]))]
                    got = [(v, (x.ty, x.label) if isinstance(x, Opaque) else repr(x)) for v, x in pushes]
                    if sorted(got) != sorted(exp):
                        why = "a loop step pushes %r, expected %r" % (got, exp)
            elif t.kind == "RETURN":
                kind, payload = K.classify_return(eng, t)
                if pushes:
                    why = "pushes on a returning path"
                elif kind == "ok":
                    seen["ret"] += 1
                    if not (isinstance(payload, Agg) and len(payload.fields) == 2 and is_op(payload.fields[0], "Vec", vecs[0])
                            and is_op(payload.fields[1], "Vec", vecs[1])):
                        why = "returns %r, not (elements, element_meta)" % (payload,)
            else:
                why = "exploration ended in %s" % t.kind
        if why:
            res.must_be_unsat(pc, "parse_vector_meta: " + why, onm)
    for k, n in seen.items():
        res.vacuity.append(("parse_vector_meta shape: %s reached" % k, n > 0))


CLAIMS = [
    Claim("c08_list_value_shape", "C08", "quick", claim_list_value_shape,
          "parse_list (value reader), one loop step from an arbitrary cursor state + base case (cells as aggregates in the engine's heap): "
          "every element and dot-initial name is stored exactly as the nested parser returned it - in the head cell when nothing is "
          "stored yet, else in a fresh cell linked behind, cursor advanced - and a dotted tail becomes the cdr of the last cell "
          "UNCHANGED (no folding of nil / #nil / anything by position); the head cell is returned, `()` iff nothing was read",
          "any list length, arbitrary reader and nested-parser behaviour, all option sets", configs=("fast",),
          also=("C01", "C02", "C10", "C13"), confirm=("lists", "value_vs_datum", "tokens")),
    Claim("c10_list_meta_shape", "C10", "quick", claim_list_meta_shape,
          "parse_list_meta, one loop step from an arbitrary cursor state (loop cut; cells and span nodes as aggregates in the "
          "engine's heap, Cons / Value / SpanInfo constructors and accessors as stubs with their documented meaning): every "
          "element is stored together with ITS OWN span information at the same place of the value chain and of the span "
          "chain (car slots of the current nodes when nothing is stored yet, else a fresh cell / fresh node linked behind and "
          "both cursors advanced), a dot-initial name gets the span from before the dot to after the name, a dotted tail and "
          "its span information go to the two cdr slots, nothing stored earlier is touched, the invariant (cdr `()`, second "
          "slot empty) is kept, the two head nodes are returned; base case: cursors at the two empty heads, nothing stored",
          "any list length (one-step induction + base case), arbitrary reader and nested-parser behaviour, both closers",
          configs=("fast",), also=("C11",), confirm=("spans", "lists_datum", "value_vs_datum")),
    Claim("c10_vector_meta_shape", "C10", "quick", claim_vector_meta_shape,
          "parse_vector_meta: every loop step pushes the value and the span information of the same nested datum, once each, "
          "onto the two vectors created at entry; those two vectors are returned",
          "any vector length (one-step induction), arbitrary reader and nested-parser behaviour",
          configs=("fast",), also=("C11",), confirm=("spans", "lists_datum", "value_vs_datum")),
]
